"""R-SEGSTEP -- the per-sample step of the dense-time sliding-window kernels, decided over the finite order domain.

once[a,b] / historically[a,b] (offline and online) and eventually[a,b] / always[a,b] keep a stack of segments
(start, end, value) -- the step function computed so far -- and merge the influence interval b of the next input sample
into it: segments that b dominates entirely are popped, the segment b meets is cut, b (or its rest) is pushed.  The code
touches segment ends and values only through comparisons, so its behaviour is determined by the weak ordering of
a0, a1, b0, b1 (a = top of stack) and of a2, b2.  For every ordering consistent with the stack invariant

    I:  segments are non-empty and contiguous, the top ends before b ends, b starts no later than the top ends,
        the bottom segment starts before any later b, and (M) among segments starting after the start of the last
        merged b, values do not increase in dominance from bottom to top

the pop loop and the if-chain after it are evaluated on the ordering and the following is checked:

    pop      a popped segment lies inside b and is dominated by b (ties allowed), has a predecessor (no IndexError), and
             the loop body is exactly `pop; re-read the top`
    exit     when the loop stops with b starting before the top, the top dominates b (otherwise an older segment that b
             should raise is left untouched)
    contig   the pushed segments continue exactly where the kept stack ends, are non-empty, and end at b1
    value    on every elementary interval of [a0, b1) the new value is  dom(old value, b2 on [b0, b1))
    mono     invariant M holds again for the next step

The future kernels work on the mirrored time axis with the stack top at index 0; they are mapped onto the same
normal form.  R-SEGBUILD: the influence interval built from the input is the one the semantics prescribes (affine
normal form), R-COMPOSE: since[a,b]/until[a,b] are composed from the unary kernels as the semantics requires.
"""
import ast
import itertools
from fractions import Fraction

from sa.index import AnalysisError
from sa.index import before as _before

MAXOPS = ('once', 'eventually')
MINOPS = ('historically', 'always')


class Shape(Exception):
    pass


# ------------------------------------------------------------------------------------------------- locating the step
def _is_name(e, n):
    return isinstance(e, ast.Name) and e.id == n


def _top_index(e, stack):
    """out[len(out) - 1] / out[-1] -> 'end'; out[0] -> 'front'"""
    if not (isinstance(e, ast.Subscript) and _is_name(e.value, stack)):
        return None
    s = e.slice
    if isinstance(s, ast.Constant) and s.value == 0:
        return 'front'
    if isinstance(s, ast.UnaryOp) and isinstance(s.op, ast.USub) and isinstance(s.operand, ast.Constant) and s.operand.value == 1:
        return 'end'
    if isinstance(s, ast.Constant) and s.value == -1:
        return 'end'
    if isinstance(s, ast.BinOp) and isinstance(s.op, ast.Sub) and isinstance(s.right, ast.Constant) and s.right.value == 1 \
            and ast.unparse(s.left).replace(' ', '') == 'len(%s)' % stack:
        return 'end'
    return None


def _is_step_loop(loop):
    return any(isinstance(st, ast.If) and isinstance(st.test, ast.UnaryOp) and isinstance(st.test.op, ast.Not) and isinstance(st.test.operand, ast.Name) and st.orelse
               for st in loop.body)


def _desugar_range_loops(func):
    """`for i in range(a, b): body`  ->  `i = a; while i < b: body; i = i + 1`  for the sample loops of the merge kernels (in place, once).
    The two spell the same loop when the body neither continues nor assigns i; everything downstream reads the while form."""
    for parent in ast.walk(func):
        for field in ('body', 'orelse', 'finalbody'):
            lst = getattr(parent, field, None)
            if not isinstance(lst, list):
                continue
            for k, st in enumerate(list(lst)):
                if not (isinstance(st, ast.For) and isinstance(st.target, ast.Name) and not st.orelse and _is_step_loop(st)
                        and isinstance(st.iter, ast.Call) and isinstance(st.iter.func, ast.Name) and st.iter.func.id == 'range' and not st.iter.keywords):
                    continue
                v = st.target.id
                inner = [n for q in st.body for n in ast.walk(q)]
                if any(isinstance(n, ast.Continue) for n in inner) or any(isinstance(n, ast.Name) and n.id == v and isinstance(n.ctx, ast.Store) for n in inner):
                    continue
                a = st.iter.args
                if len(a) == 1:
                    init, bound, step = ast.Constant(value=0), a[0], 1
                elif len(a) == 2:
                    init, bound, step = a[0], a[1], 1
                elif len(a) == 3 and ast.unparse(a[2]).replace(' ', '') in ('1', '-1'):
                    init, bound, step = a[0], a[1], int(ast.unparse(a[2]).replace(' ', ''))
                else:
                    continue
                name = lambda ctx: ast.Name(id=v, ctx=ctx)
                asg = ast.Assign(targets=[name(ast.Store())], value=init)
                inc = ast.Assign(targets=[name(ast.Store())], value=ast.BinOp(left=name(ast.Load()), op=ast.Add() if step == 1 else ast.Sub(), right=ast.Constant(value=1)))
                wl = ast.While(test=ast.Compare(left=name(ast.Load()), ops=[ast.Lt() if step == 1 else ast.Gt()], comparators=[bound]), body=list(st.body) + [inc], orelse=[])
                for n_ in (asg, wl):
                    ast.copy_location(n_, st)
                ast.copy_location(inc, st.body[-1])
                inc.lineno = getattr(st.body[-1], 'end_lineno', st.body[-1].lineno)
                for n_ in (asg, wl, inc):
                    ast.fix_missing_locations(n_)
                idx = lst.index(st)
                lst[idx:idx + 1] = [asg, wl]


def find_step(func):
    """-> dict(loop=<sample loop>, stack, a, b, orient, first_push, pre=[stmts before the stack test], else_body)"""
    _desugar_range_loops(func)
    for loop in ast.walk(func):
        if not isinstance(loop, (ast.While, ast.For)):
            continue
        for k, st in enumerate(loop.body):
            if isinstance(st, ast.If) and isinstance(st.test, ast.UnaryOp) and isinstance(st.test.op, ast.Not) \
                    and isinstance(st.test.operand, ast.Name) and st.orelse:
                stack = st.test.operand.id
                body = st.orelse
                if not (body and isinstance(body[0], ast.Assign) and isinstance(body[0].targets[0], ast.Name)):
                    continue
                orient = _top_index(body[0].value, stack)
                if orient is None:
                    continue
                a = body[0].targets[0].id
                # the name of the new segment: the thing pushed when the stack is empty
                b = None
                for q in st.body:
                    if isinstance(q, ast.Expr) and isinstance(q.value, ast.Call) and isinstance(q.value.func, ast.Attribute) \
                            and _is_name(q.value.func.value, stack) and q.value.func.attr in ('append', 'insert'):
                        arg = q.value.args[-1]
                        if isinstance(arg, ast.Name):
                            b = arg.id
                if b is None:
                    continue
                return dict(loop=loop, stack=stack, a=a, b=b, orient=orient, empty_body=st.body, pre=loop.body[:k], else_body=body[1:], test=st)
    raise Shape('no `if not <stack>: ... else: a = <stack>[top] ...` step in a sample loop')


# ------------------------------------------------------------------------------------------------- the evaluator
class Ev(object):
    """evaluates the step on one ordering: times and values are rationals; the stack is [..., c, a] with a symbolic rest"""

    def __init__(self, ix, mod, info, env, stack):
        self.ix = ix
        self.mod = mod
        self.info = info
        self.env = env          # name -> tuple of (symbol, number)
        self.stack = stack      # list of segments (tuples of (symbol, number)); index -1 is the top in normal form
        self.popped_rest = False
        self.events = []

    # -- expressions
    def num(self, e):
        if isinstance(e, ast.Subscript) and isinstance(e.value, ast.Name) and e.value.id in self.env and isinstance(e.slice, ast.Constant):
            seg = self.env[e.value.id]
            if seg is None:
                raise Shape('reads %s after the stack ran empty' % e.value.id)
            return seg[e.slice.value]
        raise Shape('expression %s is not a component of the top segment or of the new segment' % ast.unparse(e)[:40])

    def test(self, t):
        if isinstance(t, ast.BoolOp):
            if isinstance(t.op, ast.And):
                for v in t.values:
                    if not self.test(v):
                        return False
                return True
            for v in t.values:
                if self.test(v):
                    return True
            return False
        if isinstance(t, ast.UnaryOp) and isinstance(t.op, ast.Not):
            return not self.test(t.operand)
        if isinstance(t, ast.Compare):
            vals = [self.num(x)[1] for x in [t.left] + list(t.comparators)]
            ok = True
            for x, op, y in zip(vals, t.ops, vals[1:]):
                r = {ast.Lt: x < y, ast.LtE: x <= y, ast.Gt: x > y, ast.GtE: x >= y, ast.Eq: x == y, ast.NotEq: x != y}.get(type(op))
                if r is None:
                    raise Shape('comparison %s' % ast.unparse(t))
                ok = ok and r
            return ok
        if isinstance(t, ast.Call):
            return self.call(t)
        if isinstance(t, ast.Name) and t.id == self.info['stack']:
            return True   # the stack is non-empty in every state of the invariant
        raise Shape('test %s' % ast.unparse(t)[:50])

    def call(self, c):
        from sa.index import FuncInfo
        tgt = self.ix.resolve_expr(self.mod, c.func)
        if not isinstance(tgt, FuncInfo):
            raise Shape('call %s' % ast.unparse(c)[:40])
        params = [a.arg for a in tgt.node.args.args]
        if len(params) != len(c.args):
            raise Shape('call arity %s' % ast.unparse(c)[:40])
        sub = Ev(self.ix, tgt.module, self.info, dict(self.env), self.stack)
        for p, a in zip(params, c.args):
            sub.env[p] = (None, self.num(a)[1])
        return sub.ret(tgt.node.body)

    def ret(self, body):
        for st in body:
            if isinstance(st, ast.Expr) and isinstance(st.value, ast.Constant):
                continue
            if isinstance(st, ast.Return):
                if isinstance(st.value, ast.Constant) and isinstance(st.value.value, bool):
                    return st.value.value
                return self.ptest(st.value)
            if isinstance(st, ast.If):
                r = self.ret(st.body if self.ptest(st.test) else st.orelse)
                if r is not None:
                    return r
                continue
            raise Shape('helper statement %s' % ast.unparse(st)[:40])
        return None

    def ptest(self, t):
        """test inside a helper: parameters are plain numbers"""
        if isinstance(t, ast.BoolOp):
            vals = [self.ptest(v) for v in t.values]
            return all(vals) if isinstance(t.op, ast.And) else any(vals)
        if isinstance(t, ast.UnaryOp) and isinstance(t.op, ast.Not):
            return not self.ptest(t.operand)
        if isinstance(t, ast.Compare):
            vals = []
            for x in [t.left] + list(t.comparators):
                if isinstance(x, ast.Name) and x.id in self.env:
                    vals.append(self.env[x.id][1])
                else:
                    raise Shape('helper operand %s' % ast.unparse(x)[:30])
            ok = True
            for x, op, y in zip(vals, t.ops, vals[1:]):
                ok = ok and {ast.Lt: x < y, ast.LtE: x <= y, ast.Gt: x > y, ast.GtE: x >= y, ast.Eq: x == y, ast.NotEq: x != y}[type(op)]
            return ok
        raise Shape('helper test %s' % ast.unparse(t)[:40])

    # -- statements
    def seg(self, e):
        if isinstance(e, ast.Name) and e.id in self.env:
            return self.env[e.id]
        if isinstance(e, ast.Tuple) and len(e.elts) == 3:
            return tuple(self.num(x) for x in e.elts)
        raise Shape('pushed value %s' % ast.unparse(e)[:40])

    def pop(self):
        if not self.stack:
            raise Shape('pops more segments than one step can reach')
        top = self.stack.pop()
        self.events.append(('pop', top))

    def top(self):
        return self.stack[-1] if self.stack else None

    def run(self, stmts):
        info = self.info
        S = info['stack']
        for st in stmts:
            if isinstance(st, ast.If):
                self.run(st.body if self.test(st.test) else st.orelse)
            elif isinstance(st, ast.Delete):
                for t in st.targets:
                    if _top_index(t, S) == info['orient']:
                        self.pop()
                    else:
                        raise Shape('delete %s' % ast.unparse(t))
            elif isinstance(st, ast.Expr) and isinstance(st.value, ast.Call) and isinstance(st.value.func, ast.Attribute) and _is_name(st.value.func.value, S):
                c = st.value
                m = c.func.attr
                if m == 'pop':
                    at = 'end' if not c.args else ('front' if isinstance(c.args[0], ast.Constant) and c.args[0].value == 0 else
                                                   ('end' if ast.unparse(c.args[0]) == '-1' else None))
                    if at != info['orient']:
                        self.events.append(('wrong-end', ast.unparse(st)))
                    self.pop()
                elif m == 'append':
                    if info['orient'] != 'end':
                        self.events.append(('wrong-end', ast.unparse(st)))
                    self.push(self.seg(c.args[0]))
                elif m == 'insert':
                    if not (isinstance(c.args[0], ast.Constant) and c.args[0].value == 0) or info['orient'] != 'front':
                        self.events.append(('wrong-end', ast.unparse(st)))
                    self.push(self.seg(c.args[1]))
                else:
                    raise Shape('stack method %s' % m)
            elif isinstance(st, ast.Assign) and len(st.targets) == 1 and _is_name(st.targets[0], info['a']):
                at = _top_index(st.value, S)
                if at is None:
                    raise Shape('assignment %s' % ast.unparse(st))
                if at != info['orient']:
                    self.events.append(('wrong-end', ast.unparse(st)))
                self.env[info['a']] = self.top()
                self.events.append(('reread', None))
            elif isinstance(st, ast.Pass):
                pass
            else:
                raise Shape('step statement %s' % ast.unparse(st)[:50])

    def push(self, seg):
        self.stack.append(seg)
        self.events.append(('push', seg))


# ------------------------------------------------------------------------------------------------- abstract states
def time_orderings():
    """weak orderings of a0,a1,b0,b1 (normal form) satisfying the stack invariant"""
    out = set()
    for ranks in itertools.product(range(4), repeat=4):
        used = sorted(set(ranks))
        norm = tuple(used.index(r) for r in ranks)
        a0, a1, b0, b1 = norm
        if a0 < a1 and b0 < b1 and a1 < b1 and b0 <= a1:
            out.add(norm)
    return sorted(out)


def describe(state):
    (a0, a1, b0, b1), vo, bottom = state
    names = {'a0': a0, 'a1': a1, 'b0': b0, 'b1': b1}
    groups = {}
    for k, v in names.items():
        groups.setdefault(v, []).append(k)
    t = ' < '.join('='.join(sorted(groups[r])) for r in sorted(groups))
    return '%s, a2 %s b2%s' % (t, {-1: 'dominated by', 0: '=', 1: 'dominates'}[vo], ', a is the bottom segment' if bottom else '')


def check_function(ix, rep, f, opname, rule='R-SEGSTEP', slot_prefix=''):
    """f: FuncInfo of a kernel; opname in MAXOPS+MINOPS.  Returns the number of abstract states evaluated."""
    try:
        info = find_step(f.node)
    except Shape as e:
        rep.error('%s (%s): %s; the kernel was decided on the pinned tree' % (f.where, f.qual, e))
        return 0
    sign = 1 if opname in MAXOPS else -1      # dominance: sign * x >= sign * y
    orient = info['orient']
    want_orient = 'end' if opname in ('once', 'historically') else 'front'
    slot = '%s%s' % (slot_prefix, opname)
    problems = {}
    nstates = 0
    if orient != want_orient:
        rep.fail(rule, f.module.rel, f.qual, slot + ':orientation', 'the %s kernel keeps its stack top at the %s of the list; the influence intervals of a %s operator '
                 'arrive in the other order' % (opname, orient, 'past' if want_orient == 'end' else 'future'), f.node.lineno)
        return 0
    # the statements after `a = top`: [while ...] + tail
    body = info['else_body']
    loops = [s for s in body if isinstance(s, ast.While)]
    if len(loops) != 1 or body[0] is not loops[0]:
        rep.error('%s (%s): the pop loop is not the first statement after reading the top segment' % (f.where, f.qual))
        return 0
    wl = loops[0]
    tail = body[1:]

    def mk(state):
        (a0, a1, b0, b1), vo, bottom = state
        a2 = Fraction(0)
        b2 = Fraction(-vo * sign)          # vo=1: a dominates b
        # c: the segment under a; its start is just below a0; its value dominates a2 when a0 > b0 (M), unknown otherwise (taken equal)
        c = (('c0', Fraction(a0) - Fraction(1, 2)), ('a0', Fraction(a0)), ('c2', a2))
        a = (('a0', Fraction(a0)), ('a1', Fraction(a1)), ('a2', a2))
        b = (('b0', Fraction(b0)), ('b1', Fraction(b1)), ('b2', b2))
        if orient == 'front':
            c, a, b = _mirror(c), _mirror(a), _mirror(b)
        stack = [a] if bottom else [c, a]
        return stack, a, b, c

    for tord in time_orderings():
        for vo in (-1, 0, 1):
            for bottom in (False, True):
                a0, a1, b0, b1 = tord
                if bottom and b0 <= a0:
                    continue      # the bottom segment starts before every later influence interval (time-stamps increase strictly)
                state = (tord, vo, bottom)
                nstates += 1
                stack, a, b, c = mk(state)
                ev = Ev(ix, f.module, info, {info['a']: a, info['b']: b}, list(stack))
                try:
                    if ev.test(wl.test):
                        # ---- one iteration of the pop loop
                        dominated = vo <= 0
                        inside = b0 <= a0
                        if not dominated:
                            _add(problems, 'pop-dominating', state, 'pops the top segment although its value dominates the new one: the output loses that value on [a0, a1)')
                            continue
                        if not inside:
                            _add(problems, 'pop-partial', state, 'pops a top segment that starts before the new interval: the part [a0, b0) is lost')
                            continue
                        if bottom:
                            _add(problems, 'pop-bottom', state, 'pops the bottom segment and reads the top of an empty list (IndexError)')
                            continue
                        if b0 == a0:
                            # legal only if the loop stops at the predecessor: it ends at a0 = b0, hence is not inside b -> next state has b0 = a1
                            pass
                        ev.run(wl.body)
                        pops = [e for e in ev.events if e[0] == 'pop']
                        if len(pops) != 1 or ev.env[info['a']] != c or ev.stack != [c] or wl.orelse:
                            _add(problems, 'pop-body', state, 'the pop loop body does not remove exactly the top segment and re-read the new top')
                        continue
                    # ---- the loop stops in this state: evaluate the tail
                    if b0 < a0 and vo < 0:
                        _add(problems, 'exit-early', state, 'the pop loop stops although the new interval starts before the top segment and dominates it: '
                             'older segments inside the new interval keep a value the new sample should override')
                        continue
                    ev.run(tail)
                except Shape as e:
                    rep.error('%s (%s): %s; the kernel was decided on the pinned tree' % (f.where, f.qual, e))
                    return nstates
                wrong = [e for e in ev.events if e[0] == 'wrong-end']
                if wrong:
                    _add(problems, 'wrong-end', state, 'pushes or pops at the other end of the list (%s)' % wrong[0][1])
                    continue
                final = ev.stack
                if orient == 'front':
                    final = [_mirror(s) for s in final]
                    a_n, b_n, c_n = _mirror(a), _mirror(b), _mirror(c)
                else:
                    a_n, b_n, c_n = a, b, c
                msg = _post(final, a_n, b_n, None if bottom else c_n, sign)
                if msg:
                    _add(problems, msg[0], state, msg[1] + ' [stack after the step: %s]' % _show(final, bottom))
    for key, (state, text, count) in sorted(problems.items()):
        rep.fail(rule, f.module.rel, f.qual, '%s:%s' % (slot, key), '%s kernel, state %s (%d state%s): %s' % (opname, describe(state), count, '' if count == 1 else 's', text),
                 wl.lineno)
    if not problems:
        rep.ok(rule, f.module.rel, f.qual, slot, '%d orderings of (a0,a1,b0,b1) x (a2 ? b2) x bottom: pop, exit, contiguity, pointwise value and monotonicity hold'
               % nstates, wl.lineno)
    return nstates


def _add(problems, key, state, text):
    if key in problems:
        s, t, n = problems[key]
        problems[key] = (s, t, n + 1)
    else:
        problems[key] = (state, text, 1)


def _mirror(seg):
    (s0, v0), (s1, v1), val = seg
    return ((s1, -v1), (s0, -v0), val)


def _show(segs, bottom):
    return ('[' if bottom else '[..., ') + ', '.join('(%s, %s, %s)' % (s[0][0] or s[0][1], s[1][0] or s[1][1], s[2][0]) for s in segs) + ']'


def _post(final, a, b, c, sign):
    """postconditions in normal form; final = stack from c (if any) upwards"""
    a0, a1, a2 = a[0][1], a[1][1], a[2][1]
    b0, b1, b2 = b[0][1], b[1][1], b[2][1]
    segs = list(final)
    if c is not None:
        if not segs or segs[0] != c:
            return ('below', 'a segment below the top one is removed or replaced')
        segs = segs[1:]
    if not segs:
        return ('contig', 'nothing is left of the top segment and the new interval')
    # contiguity
    cur = a0
    for s in segs:
        if s[0][1] != cur:
            return ('contig', 'a pushed segment starts at %s but the stack ends at %s: the step function gets %s' %
                    (s[0][0], _name_of(cur, a, b), 'an overlap (decreasing time-stamps)' if s[0][1] < cur else 'a gap'))
        if not s[0][1] < s[1][1]:
            return ('empty', 'a pushed segment (%s, %s) is empty or inverted' % (s[0][0], s[1][0]))
        cur = s[1][1]
    if cur != b1:
        return ('coverage', 'the stack ends at %s instead of the end of the new interval' % _name_of(cur, a, b))
    # pointwise value on the elementary intervals of [a0, b1)
    pts = sorted({a0, a1, b0, b1})
    pts = [p for p in pts if a0 <= p <= b1]
    for lo, hi in zip(pts, pts[1:]):
        mid = (lo + hi) / 2
        exp = []
        if a0 <= mid < a1:
            exp.append(a2)
        if b0 <= mid < b1:
            exp.append(b2)
        want = max(exp, key=lambda v: sign * v)
        got = [s for s in segs if s[0][1] <= mid < s[1][1]]
        if len(got) != 1:
            return ('value', 'the interval [%s, %s) is covered by %d segments' % (_name_of(lo, a, b), _name_of(hi, a, b), len(got)))
        if got[0][2][1] != want:
            return ('value', 'on [%s, %s) the value is %s but the semantics gives %s' % (_name_of(lo, a, b), _name_of(hi, a, b), got[0][2][0],
                                                                                        'a2' if want == a2 and a2 != b2 else ('b2' if a2 != b2 else 'a2 = b2')))
    # M: consecutive segments whose upper one starts after b0 do not increase in dominance
    chain = ([c] if c is not None else []) + segs
    for s, s2 in zip(chain, chain[1:]):
        if s2[0][1] > b0 and sign * s[2][1] < sign * s2[2][1]:
            return ('mono', 'a segment starting after the new interval\'s start is dominated by the segment above it: the next pop loop would stop too early')
    return None


def _name_of(v, a, b):
    for seg in (a, b):
        for k in (0, 1):
            if seg[k][1] == v:
                return seg[k][0]
    return str(v)


# ===================================================================================== R-SEGBUILD: the influence interval
from sa import window as W   # affine arithmetic and entailment only


def _lin(e, names):
    """linear form of an expression over i, n = len(list), begin, end, inf and the samples T[k], V[k] -> {sym: coef}"""
    if isinstance(e, ast.Constant) and isinstance(e.value, (int, float)) and not isinstance(e.value, bool):
        return {1: Fraction(e.value)} if e.value else {}
    if isinstance(e, ast.Name):
        if e.id == names['i']:
            return {'i': Fraction(1)}
        if e.id in names['params']:
            return {names['params'][e.id]: Fraction(1)}
        if e.id in names.get('locals', {}):
            return dict(names['locals'][e.id])
        raise Shape('name %s in a segment bound' % e.id)
    if isinstance(e, ast.Attribute) and isinstance(e.value, ast.Name) and e.value.id == 'self' and e.attr in ('begin', 'end'):
        return {e.attr: Fraction(1)}
    if isinstance(e, ast.UnaryOp) and isinstance(e.op, ast.USub):
        return {k: -v for k, v in _lin(e.operand, names).items()}
    if isinstance(e, ast.BinOp) and isinstance(e.op, (ast.Add, ast.Sub)):
        l, r = _lin(e.left, names), _lin(e.right, names)
        out = dict(l)
        for k, v in r.items():
            out[k] = out.get(k, 0) + (v if isinstance(e.op, ast.Add) else -v)
        return {k: v for k, v in out.items() if v != 0}
    if isinstance(e, ast.Call) and isinstance(e.func, ast.Name) and e.func.id == 'float' and len(e.args) == 1 and isinstance(e.args[0], ast.Constant) \
            and str(e.args[0].value).lower() in ('inf', 'infinity', '+inf'):
        return {'inf': Fraction(1)}
    if isinstance(e, ast.Attribute) and ast.unparse(e) in ('math.inf', 'np.inf', 'numpy.inf'):
        return {'inf': Fraction(1)}
    if isinstance(e, ast.Call) and isinstance(e.func, ast.Name) and e.func.id == 'len' and _is_name(e.args[0], names['list']):
        return {'n': Fraction(1)}
    if isinstance(e, ast.Subscript) and isinstance(e.value, ast.Subscript) and _is_name(e.value.value, names['list']) and isinstance(e.slice, ast.Constant) \
            and e.slice.value in (0, 1):
        idx = _lin(e.value.slice, names)
        key = tuple(sorted((str(k), v) for k, v in idx.items()))
        return {('T' if e.slice.value == 0 else 'V', key): Fraction(1)}
    raise Shape('segment bound %s' % ast.unparse(e)[:50])


def _key_aff(key):
    a = W.Aff.const(0)
    for k, v in key:
        a = a + (W.Aff.const(v) if k == '1' else W.Aff.sym(k).scale(v))
    return a


def _lin_aff(d):
    a = W.Aff.const(0)
    for k, v in d.items():
        if k == 1:
            a = a + W.Aff.const(v)
        elif isinstance(k, str):
            a = a + W.Aff.sym(k).scale(v)
        else:
            raise Shape('sample value in an index')
    return a


def _facts_of(test, truth, names):
    """facts (Aff >= 0) from an integer comparison over i, n; conjunctions only; unknown conjuncts yield None entries"""
    one = W.Aff.const(1)
    if isinstance(test, ast.BoolOp) and isinstance(test.op, ast.And) and truth:
        out = []
        for v in test.values:
            out += _facts_of(v, True, names)
        return out
    if isinstance(test, ast.BoolOp) and isinstance(test.op, ast.Or) and not truth:
        out = []
        for v in test.values:
            out += _facts_of(v, False, names)
        return out
    if isinstance(test, ast.Compare) and len(test.ops) == 1:
        try:
            l, r = _lin(test.left, names), _lin(test.comparators[0], names)
            if any(not isinstance(k, str) and k != 1 for k in list(l) + list(r)):
                return [None]
            l, r = _lin_aff(l), _lin_aff(r)
        except Shape:
            return [None]
        op = type(test.ops[0])
        if not truth:
            op = {ast.Lt: ast.GtE, ast.LtE: ast.Gt, ast.Gt: ast.LtE, ast.GtE: ast.Lt, ast.Eq: ast.NotEq, ast.NotEq: ast.Eq}[op]
        if op is ast.Lt:
            return [r - l - one]
        if op is ast.LtE:
            return [r - l]
        if op is ast.Gt:
            return [l - r - one]
        if op is ast.GtE:
            return [l - r]
        if op is ast.Eq:
            return [l - r, r - l]
        if op is ast.NotEq:
            return [('ne', l, r)]
        return [None]
    return [None]


def _resolve_ne(fx):
    """l != r together with l <= r gives l <= r - 1 (integers)"""
    plain = [q for q in fx if not isinstance(q, tuple)]
    one = W.Aff.const(1)
    for q in fx:
        if isinstance(q, tuple):
            _, l, r = q
            if W.entails(plain, r - l):
                plain.append(r - l - one)
            elif W.entails(plain, l - r):
                plain.append(l - r - one)
    return plain


def _paths(stmts, conds=()):
    """flatten if/elif/else over a statement list -> [(conds, [simple statements])]"""
    out = [(tuple(conds), [])]
    for st in stmts:
        if isinstance(st, ast.If):
            new = []
            for c, acc in out:
                for (c2, acc2) in _paths(st.body, c + ((st.test, True),)):
                    new.append((c2, acc + acc2))
                for (c2, acc2) in _paths(st.orelse, c + ((st.test, False),)):
                    new.append((c2, acc + acc2))
            out = new
        else:
            out = [(c, acc + [st]) for c, acc in out]
    return out


def check_build(ix, rep, f, opname, online=False, rule='R-SEGBUILD', slot_prefix='', origin=False, forms_out=None):
    """the influence interval b built for sample k and the initial filler segment"""
    slot = '%s%s' % (slot_prefix, opname)
    try:
        info = find_step(f.node)
        n = _check_build(rep, f, opname, online, rule, slot, info, origin, forms_out)
    except Shape as e:
        rep.error('%s (%s): %s; the kernel was decided on the pinned tree' % (f.where, f.qual, e))
        return 0
    return n


def _first_chunk_test(f, conds):
    """one of the true path conditions of the filler says "nothing has been received before": a local bound, before the state attribute is
    overwritten, to `self.A == <constructor value of A>` (or `self.A is None`), or `not self.F` / `self.F == False` for a flag -- with A / F
    assigned in update() so that the test fails from the next update on"""
    owner = f.owner
    init = owner.methods.get('__init__') if owner is not None else None
    ctor = {}
    if init is not None:
        for st in ast.walk(init.node):
            if isinstance(st, ast.Assign) and len(st.targets) == 1 and isinstance(st.targets[0], ast.Attribute) and isinstance(st.targets[0].value, ast.Name) \
                    and st.targets[0].value.id == 'self':
                ctor[st.targets[0].attr] = ast.unparse(st.value).replace(' ', '').replace('"', "'")
    written = {}
    for st in ast.walk(f.node):
        if isinstance(st, ast.Assign):
            for t in st.targets:
                if isinstance(t, ast.Attribute) and isinstance(t.value, ast.Name) and t.value.id == 'self':
                    written.setdefault(t.attr, []).append(st)

    def state_test(e):
        """-> attribute A when e is `self.A == ctor(A)` / `self.A is None` (ctor None) / `not self.A` (ctor False)"""
        if isinstance(e, ast.Compare) and len(e.ops) == 1 and isinstance(e.left, ast.Attribute) and isinstance(e.left.value, ast.Name) and e.left.value.id == 'self':
            a = e.left.attr
            k = ast.unparse(e.comparators[0]).replace(' ', '').replace('"', "'")
            if isinstance(e.ops[0], (ast.Eq, ast.Is)) and a in ctor and ctor[a] == k:
                return a
        if isinstance(e, ast.UnaryOp) and isinstance(e.op, ast.Not) and isinstance(e.operand, ast.Attribute) and isinstance(e.operand.value, ast.Name) \
                and e.operand.value.id == 'self' and ctor.get(e.operand.attr) in ('False', 'None', '[]', '0'):
            return e.operand.attr
        return None
    locals_ = {}
    for st in f.node.body:
        if isinstance(st, ast.Assign) and len(st.targets) == 1 and isinstance(st.targets[0], ast.Name):
            a = state_test(st.value)
            if a is not None:
                # bound before the attribute is overwritten
                later = [w for w in written.get(a, []) if _before(st, w)]
                if later:
                    locals_[st.targets[0].id] = a
    for (t, truth) in conds:
        if not truth:
            continue
        for v in (t.values if isinstance(t, ast.BoolOp) and isinstance(t.op, ast.And) else [t]):
            if isinstance(v, ast.Name) and v.id in locals_:
                return True
            a = state_test(v)
            if a is not None and any(_before(v, w) for w in written.get(a, [])):
                return True
    return False


def _loop_setup(f, info):
    """-> names, facts about the loop variable"""
    loop = info['loop']
    if not isinstance(loop, ast.While):
        raise Shape('sample loop is not a while loop')
    # loop variable and list: from the loop test
    cands = [n.id for n in ast.walk(loop.test) if isinstance(n, ast.Name)]
    lists = [c.args[0].id for c in ast.walk(loop.test) if isinstance(c, ast.Call) and isinstance(c.func, ast.Name) and c.func.id == 'len' and isinstance(c.args[0], ast.Name)]
    step = None
    var = None
    for st in loop.body:
        if isinstance(st, ast.Assign) and isinstance(st.targets[0], ast.Name) and isinstance(st.value, ast.BinOp) and _is_name(st.value.left, st.targets[0].id) \
                and isinstance(st.value.right, ast.Constant) and st.value.right.value == 1:
            var = st.targets[0].id
            step = 1 if isinstance(st.value.op, ast.Add) else -1
        if isinstance(st, ast.AugAssign) and isinstance(st.target, ast.Name) and isinstance(st.value, ast.Constant) and st.value.value == 1:
            var = st.target.id
            step = 1 if isinstance(st.op, ast.Add) else -1
    if var is None or var not in cands:
        raise Shape('no unit step of the loop variable')
    # list name: the parameter aliased by the list used in the loop
    params = [a.arg for a in f.node.args.args]
    sample_param = params[1] if params and params[0] == 'self' else params[0]
    listname = None
    aliases = {sample_param}
    init = None
    for st in ast.walk(f.node):
        if isinstance(st, ast.Assign) and len(st.targets) == 1 and isinstance(st.targets[0], ast.Name):
            if isinstance(st.value, ast.Name) and st.value.id in aliases:
                aliases.add(st.targets[0].id)
    for st in f.node.body:
        if st is loop:
            break
        if isinstance(st, ast.Assign) and _is_name(st.targets[0], var):
            init = st.value
    used = {n.value.value.id for n in ast.walk(loop) if isinstance(n, ast.Subscript) and isinstance(n.value, ast.Subscript) and isinstance(n.value.value, ast.Name)
            and n.value.value.id in aliases}
    if len(used) != 1:
        raise Shape('the sample loop reads %s' % (sorted(used) or 'no input list'))
    listname = used.pop()
    pmap = {}
    for p in params:
        if p in ('begin', 'end'):
            pmap[p] = p
    for st in f.node.body:
        if st is loop:
            break
        if isinstance(st, ast.Assign) and isinstance(st.targets[0], ast.Name) and isinstance(st.value, ast.Attribute) and isinstance(st.value.value, ast.Name) \
                and st.value.value.id == 'self' and st.value.attr in ('begin', 'end'):
            pmap[st.targets[0].id] = st.value.attr
    names = {'i': var, 'list': listname, 'params': pmap, 'aliases': aliases}
    if init is None:
        raise Shape('loop variable is not initialised before the loop')
    # len() of any alias counts as n
    facts = []
    i = W.Aff.sym('i')
    names_len = dict(names)
    init_aff = _lin_aff(_lin(_subst_alias(init, aliases, listname), names_len))
    facts += [f_ for f_ in _facts_of(_subst_alias(loop.test, aliases, listname), True, names_len) if f_ is not None and not isinstance(f_, tuple)]
    facts.append(i - init_aff if step == 1 else init_aff - i)
    facts.append(W.Aff.sym('n') - W.Aff.const(1))
    return names, facts, step, init_aff


def _subst_alias(e, aliases, listname):
    class T(ast.NodeTransformer):
        def visit_Name(self, n):
            if n.id in aliases:
                return ast.copy_location(ast.Name(id=listname, ctx=n.ctx), n)
            return n
    import copy
    return T().visit(copy.deepcopy(e))


def _check_build(rep, f, opname, online, rule, slot, info, origin=False, forms_out=None):
    names, facts, step, init_aff = _loop_setup(f, info)
    past = opname in ('once', 'historically')
    neutral = -1 if opname in MAXOPS else 1     # the filler value: -inf for max, +inf for min
    n_sym, i_sym, one = W.Aff.sym('n'), W.Aff.sym('i'), W.Aff.const(1)
    bname = info['b']
    nb = 0
    seen_forms = set()
    problems = []
    ks = []
    for conds, stmts in _paths([_subst_alias(s, names['aliases'], names['list']) for s in info['pre']]):
        fx = list(facts)
        unknown_cond = False
        for (t, truth) in conds:
            for q in _facts_of(t, truth, names):
                if q is None:
                    unknown_cond = True
                else:
                    fx.append(q)
        fx = _resolve_ne(fx)
        if W._infeasible(fx):
            continue
        for st in stmts:
            if isinstance(st, ast.Assign) and _is_name(st.targets[0], bname):
                if not (isinstance(st.value, ast.Tuple) and len(st.value.elts) == 3):
                    raise Shape('new segment %s' % ast.unparse(st)[:50])
                nb += 1
                e0, e1, e2 = [_lin(x, names) for x in st.value.elts]
                # value: V[k]
                vk = [k for k in e2 if isinstance(k, tuple) and k[0] == 'V']
                if len(e2) != 1 or len(vk) != 1 or e2[vk[0]] != 1:
                    problems.append(('value', 'the value of the new segment is not the value of one input sample (%s)' % ast.unparse(st.value.elts[2]), st.lineno))
                    continue
                k = _key_aff(vk[0][1])
                ks.append(k)
                if not (W.entails(fx, k) and W.entails(fx, n_sym - one - k)):
                    problems.append(('index', 'sample index %r may lie outside the input list' % k, st.lineno))
                want0 = {('T', vk[0][1]): Fraction(1)}
                want0['begin' if past else 'end'] = Fraction(1 if past else -1)
                if e0 != want0:
                    problems.append(('start', 'the influence interval of sample k starts at  %s  instead of  %s' % (ast.unparse(st.value.elts[0]), 'T[k] + begin' if past else 'T[k] - end'), st.lineno))
                # end
                if forms_out is not None:
                    forms_out.append({'kind': 'segment', 'start': dict(e0), 'end': dict(e1), 'k': k, 'line': st.lineno})
                tks = [q for q in e1 if isinstance(q, tuple) and q[0] == 'T']
                if e1 == {'inf': Fraction(1)}:
                    form = 'inf'
                    if not W.entails(fx, k - n_sym + one):
                        problems.append(('last', 'an unbounded influence interval is built for a sample that is not the last one', st.lineno))
                elif len(tks) == 1 and e1.get(tks[0]) == 1:
                    k1 = _key_aff(tks[0][1])
                    rest = {q: v for q, v in e1.items() if q != tks[0]}
                    wantrest = {'end': Fraction(1)} if past else {'begin': Fraction(-1)}
                    if rest != wantrest:
                        problems.append(('end', 'the influence interval of sample k ends at  %s  instead of  %s' % (ast.unparse(st.value.elts[1]), 'T[k+1] + end' if past else 'T[k+1] - begin'), st.lineno))
                        continue
                    if (k1 - k).key() == one.key():
                        form = 'next'
                        if not W.entails(fx, n_sym - one - k1):
                            problems.append(('index', 'sample index %r may lie outside the input list' % k1, st.lineno))
                    elif (k1 - k).key() == W.Aff.const(0).key() and online and past:
                        form = 'open'     # online: provisional end, extended when the next sample arrives
                        if not W.entails(fx, k - n_sym + one):
                            problems.append(('last', 'a provisional influence interval is built for a sample that is not the last one of the batch', st.lineno))
                    else:
                        problems.append(('end', 'the influence interval of sample k ends at the time of sample %r, not of sample k+1' % k1, st.lineno))
                        continue
                else:
                    problems.append(('end', 'the end of the influence interval (%s) is neither T[k+1] %s nor unbounded' % (ast.unparse(st.value.elts[1]), '+ end' if past else '- begin'), st.lineno))
                    continue
                seen_forms.add(form)
            elif isinstance(st, ast.Expr) and isinstance(st.value, ast.Call) and isinstance(st.value.func, ast.Attribute) and _is_name(st.value.func.value, info['stack']):
                # the initial filler segment
                c = st.value
                arg = c.args[-1]
                if not (isinstance(arg, ast.Tuple) and len(arg.elts) == 3):
                    raise Shape('filler segment %s' % ast.unparse(st)[:50])
                if not past:
                    problems.append(('filler', 'a future operator needs no filler segment', st.lineno))
                    continue
                g0, g1, g2 = [_lin(x, names) for x in arg.elts]
                if forms_out is not None:
                    forms_out.append({'kind': 'filler', 'start': dict(g0), 'end': dict(g1), 'value': dict(g2), 'line': st.lineno})
                first = tuple(sorted((str(kk), v) for kk, v in {}.items()))
                if g1 != {('T', first): Fraction(1), 'begin': Fraction(1)} or g2 != {'inf': Fraction(neutral)} or g0 not in ({}, {('T', first): Fraction(1)}):
                    problems.append(('filler', 'the filler segment is %s instead of (T[0], T[0] + begin, %sinf)' % (ast.unparse(arg), '-' if neutral < 0 else ''), st.lineno))
                elif g0 == {}:
                    # starts at the literal 0: that is the start of the operand only when the path condition says T[0] == 0 (the online kernels
                    # use that test to recognise the very first chunk)
                    says_zero = False
                    for (t, truth) in conds:
                        if truth:
                            for v in (t.values if isinstance(t, ast.BoolOp) and isinstance(t.op, ast.And) else [t]):
                                if isinstance(v, ast.Compare) and len(v.ops) == 1 and isinstance(v.ops[0], ast.Eq):
                                    try:
                                        lv, rv = _lin(v.left, names), _lin(v.comparators[0], names)
                                    except Shape:
                                        continue
                                    if {('T', first): Fraction(1)} in (lv, rv) and {} in (lv, rv):
                                        says_zero = True
                    if not says_zero and origin:
                        problems.append(('origin', 'the filler segment starts at time 0, not at T[0], the first time-stamp of the operand: for a signal that starts later the result '
                                         'starts before the domain of its input (the property: the result starts at the beginning of the common input domain)', st.lineno))
                # only in the first iteration, only when begin > 0
                txt = [ast.unparse(t).replace(' ', '') for (t, truth) in conds if truth]
                conj = []
                for (t, truth) in conds:
                    if truth:
                        conj += [ast.unparse(v).replace(' ', '') for v in (t.values if isinstance(t, ast.BoolOp) and isinstance(t.op, ast.And) else [t])]
                bn = [p for p, v in names['params'].items() if v == 'begin'] + ['self.begin']
                if not any(cj in ('%s>0' % b_ for b_ in bn) for cj in conj):
                    problems.append(('filler', 'the filler segment is pushed even when begin = 0 (an empty or spurious segment at the start)', st.lineno))
                if not W.entails(fx, i_sym - init_aff) or not W.entails(fx, init_aff - i_sym):
                    problems.append(('filler', 'the filler segment is not restricted to the first iteration', st.lineno))
                if online and not _first_chunk_test(f, conds):
                    problems.append(('first-chunk', 'the filler segment is pushed for every chunk whose first time-stamp is 0, not for the first chunk only: the path condition tests '
                                     'the time-stamp, not whether anything has been received before.  An operand that repeats its frontier sample in the next update (every predicate '
                                     'and every bounded operator does) starts that chunk at time 0 again when the first chunk was a single sample at 0 -- a second filler is pushed and '
                                     'the output jumps back to time 0 (the concatenated time-stamps decrease)', st.lineno))
                seen_forms.add('filler')
            elif isinstance(st, (ast.Pass, ast.Expr)):
                continue
            else:
                raise Shape('statement before the stack test: %s' % ast.unparse(st)[:50])
    # the loop visits every sample exactly once: k runs from the first to the last index (past) or back (future)
    if ks:
        k = ks[0]
        if any(q.key() != k.key() for q in ks):
            problems.append(('index', 'different branches build the segment of different samples', info['loop'].lineno))
        k_init = k.subst('i', init_aff)
        first_k = W.Aff.const(0) if past else n_sym - one
        if k_init.key() != first_k.key():
            problems.append(('coverage', 'the loop starts at sample %r, not at the %s sample' % (k_init, 'first' if past else 'last'), info['loop'].lineno))
        if (step == 1) != past:
            problems.append(('coverage', 'the loop runs in the wrong direction for a %s operator' % ('past' if past else 'future'), info['loop'].lineno))
        # continuing condition must not stop early: not(test) => k beyond the list
        neg = _facts_of(_subst_alias(info['loop'].test, names['aliases'], names['list']), False, names)
        if None in neg or any(isinstance(q, tuple) for q in neg):
            raise Shape('loop test %s' % ast.unparse(info['loop'].test))
        beyond = (k - n_sym) if past else (-k - one)
        if not W.entails(neg + [n_sym - one], beyond):
            problems.append(('coverage', 'the loop may stop before every sample has been merged', info['loop'].lineno))
    if nb == 0:
        raise Shape('no construction of the new segment found')
    need = {'next'} | ({'filler'} if past else set())
    for missing in sorted(need - seen_forms):
        problems.append((missing, 'no %s' % ('filler segment (0, T[0] + begin, neutral) for begin > 0: the output would start at T[0] + begin instead of 0' if missing == 'filler'
                                            else 'segment ending at the next sample'), info['loop'].lineno))
    for key, text, line in problems:
        rep.fail(rule, f.module.rel, f.qual, '%s:%s' % (slot, key), '%s kernel: %s' % (opname, text), line)
    if not problems:
        rep.ok(rule, f.module.rel, f.qual, slot, 'influence interval %s, forms %s, every sample visited once' %
               ('(T[k]+begin, T[k+1]+end, V[k])' if past else '(T[k]-end, T[k+1]-begin, V[k])', sorted(seen_forms)), info['loop'].lineno)
    return nb


# ===================================================================================== R-SEGOUT: segments -> samples
def check_output(ix, rep, f, opname, rule='R-SEGOUT', slot_prefix='', origin=False):
    """the pass that turns the segment stack into [time, value] samples (offline kernels)"""
    slot = '%s%s' % (slot_prefix, opname)
    try:
        info = find_step(f.node)
        return _check_output(rep, f, opname, rule, slot, info, origin)
    except Shape as e:
        rep.error('%s (%s): %s; the kernel was decided on the pinned tree' % (f.where, f.qual, e))
        return 0


def _check_output(rep, f, opname, rule, slot, info, origin=False):
    past = opname in ('once', 'historically')
    stack = info['stack']
    loops = [s for s in f.node.body if isinstance(s, ast.For) and any(isinstance(n, ast.Name) and n.id == stack for n in ast.walk(s.iter))]
    if len(loops) != 1:
        raise Shape('%d output loops over the segment stack' % len(loops))
    lp = loops[0]
    # loop target: b, or (i, b) with enumerate
    it = lp.iter
    idx = None
    if isinstance(it, ast.Call) and isinstance(it.func, ast.Name) and it.func.id == 'enumerate' and _is_name(it.args[0], stack) and isinstance(lp.target, ast.Tuple):
        idx, seg = lp.target.elts[0].id, lp.target.elts[1].id
    elif _is_name(it, stack) and isinstance(lp.target, ast.Name):
        seg = lp.target.id
    else:
        raise Shape('output loop iterates %s' % ast.unparse(it)[:40])
    rets = [s for s in f.node.body if isinstance(s, ast.Return)]
    if len(rets) != 1 or not isinstance(rets[0].value, ast.Name):
        raise Shape('kernel does not return a single list')
    ans = rets[0].value.id
    # previous-value tracking
    prevs = [s for s in lp.body if isinstance(s, ast.Assign) and isinstance(s.targets[0], ast.Name) and isinstance(s.value, ast.Subscript)
             and _is_name(s.value.value, seg) and isinstance(s.value.slice, ast.Constant) and s.value.slice.value == 2]
    prevname = prevs[0].targets[0].id if prevs else None
    problems = []
    if prevname:
        init = None
        for s in f.node.body:
            if s is lp:
                break
            if isinstance(s, ast.Assign) and _is_name(s.targets[0], prevname):
                init = s.value
        ok_init = init is not None and ((isinstance(init, ast.Call) and ast.unparse(init).replace('"', "'") in ("float('nan')", "float('NaN')"))
                                        or (isinstance(init, ast.Constant) and init.value is None) or ast.unparse(init) in ('math.nan', 'object()'))
        if not ok_init:
            problems.append(('prev-init', 'the previous value starts as %s: a first segment with that value would be dropped' % (ast.unparse(init) if init is not None else 'undefined'), lp.lineno))
    # names for the start of the operand: x = <list>[0][0], possibly under `if <list>` / with a default for the empty list.  Times are
    # modelled relative to that origin (the kernel is invariant under a shift of the time axis), so the origin evaluates to 0 below
    origin_names = set()
    lst = info.get('list')
    for s_ in ast.walk(f.node):
        if isinstance(s_, ast.Assign) and len(s_.targets) == 1 and isinstance(s_.targets[0], ast.Name):
            v_ = s_.value
            if isinstance(v_, ast.IfExp):
                v_ = v_.body
            if isinstance(v_, ast.Subscript) and isinstance(v_.value, ast.Subscript) and isinstance(v_.slice, ast.Constant) and v_.slice.value == 0 \
                    and isinstance(v_.value.slice, ast.Constant) and v_.value.slice.value == 0 and isinstance(v_.value.value, ast.Name):
                origin_names.add(s_.targets[0].id)
    nstates = 0
    for pos in ('0<b0', '0=b0', 'b0<0<b1', '0=b1', 'b1<0'):
        if past and pos not in ('0<b0', '0=b0'):
            continue
        b0, b1 = {'0<b0': (1, 2), '0=b0': (0, 1), 'b0<0<b1': (-1, 1), '0=b1': (-1, 0), 'b1<0': (-2, -1)}[pos]
        for veq in (False, True):
            if veq and prevname is None:
                continue
            for last in (False, True):
                nstates += 1
                env = {seg: (Fraction(b0), Fraction(b1), 'b2'), 'prev': 'b2' if veq else 'other', 'last': last, 'origin-names': origin_names}
                emitted = []
                _run_out(lp.body, env, seg, idx, stack, ans, prevname, emitted)
                want_time = Fraction(b0) if past else max(Fraction(b0), Fraction(0))
                must = (not veq) and (past or b1 > 0)
                may = past or b1 > 0
                state = '%s, value %s the previous one%s' % (pos, '=' if veq else '!=', ', last segment' if last else '')
                if must and not emitted:
                    problems.append(('drop', 'state %s: no sample is emitted for a segment whose value differs from the previous one' % state, lp.lineno))
                if emitted and not may:
                    problems.append(('spurious', 'state %s: a sample is emitted for a segment that ends before time 0' % state, lp.lineno))
                if len(emitted) > 1:
                    problems.append(('dup', 'state %s: %d samples emitted for one segment' % (state, len(emitted)), lp.lineno))
                if env.get('literal-origin') and not past and origin:
                    problems.append(('origin', 'segments are compared with, and clipped to, the literal time 0 instead of the first time-stamp of the operand: for a signal that '
                                     'starts at T[0] > 0 the result starts at max(T[0] - end, 0), before the domain of its input', lp.lineno))
                for (t, v) in emitted:
                    if may and t != want_time:
                        problems.append(('time', 'state %s: the sample is emitted at %s instead of %s' % (state, t, 'b0' if past else 'max(b0, 0)'), lp.lineno))
                    if v != 'b2':
                        problems.append(('value', 'state %s: the sample does not carry the value of the segment' % state, lp.lineno))
    # compression across the clipping point (future kernels): a segment wholly before time 0 leaves no sample; if it still updates the remembered
    # value, the first segment that reaches into the domain is dropped when it carries the same value -- and the result has no sample at its start
    if prevname and not past:
        for posb in ('0=b0', 'b0<0<b1'):          # the predecessor ends where this segment starts (the stack is contiguous)
            bb0, bb1 = {'0=b0': (0, 1), 'b0<0<b1': (-1, 1)}[posb]
            for last in (False, True):
                nstates += 1
                env = {seg: (Fraction(-3), Fraction(bb0), 'b2'), 'prev': 'other', 'last': False, 'origin-names': origin_names}
                emitted = []
                _run_out(lp.body, env, seg, idx, stack, ans, prevname, emitted)      # the clipped predecessor, same value
                if emitted:
                    continue            # reported above as spurious
                env[seg] = (Fraction(bb0), Fraction(bb1), 'b2')
                env['last'] = last
                _run_out(lp.body, env, seg, idx, stack, ans, prevname, emitted)
                if not emitted:
                    problems.append(('drop-after-clip', 'a segment that ends before time 0 (no sample) followed by a segment with the same value that reaches into the domain (%s%s): '
                                     'no sample is emitted, the result does not start at the beginning of the domain' % (posb, ', last segment' if last else ''), lp.lineno))
    if prevname:
        top = [s for s in lp.body if s in prevs]
        if not top:
            problems.append(('prev', 'the previous value is not updated on every iteration', lp.lineno))
    seen = set()
    for key, text, line in problems:
        if key in seen:
            continue
        seen.add(key)
        rep.fail(rule, f.module.rel, f.qual, '%s:%s' % (slot, key), '%s kernel output pass: %s' % (opname, text), line)
    if not problems:
        rep.ok(rule, f.module.rel, f.qual, slot, '%d states of (segment vs time 0) x (value = previous) x last: every value change is emitted at %s'
               % (nstates, 'the segment start' if past else 'max(start, 0)'), lp.lineno)
    return nstates


def _run_out(stmts, env, seg, idx, stack, ans, prevname, emitted):
    def val(e):
        if isinstance(e, ast.Subscript) and _is_name(e.value, seg) and isinstance(e.slice, ast.Constant):
            return env[seg][e.slice.value]
        if isinstance(e, ast.Constant) and isinstance(e.value, (int, float)):
            env['literal-origin'] = True
            return Fraction(e.value)
        if isinstance(e, ast.Name) and e.id in env.get('origin-names', ()):
            return Fraction(0)
        if prevname and _is_name(e, prevname):
            return env['prev']
        raise Shape('output expression %s' % ast.unparse(e)[:40])

    def test(t):
        if isinstance(t, ast.BoolOp):
            vals = [test(v) for v in t.values]
            return all(vals) if isinstance(t.op, ast.And) else any(vals)
        if isinstance(t, ast.UnaryOp) and isinstance(t.op, ast.Not):
            return not test(t.operand)
        if isinstance(t, ast.Compare) and len(t.ops) == 1:
            txt = ast.unparse(t).replace(' ', '')
            if idx and txt in ('%s==len(%s)-1' % (idx, stack), 'len(%s)-1==%s' % (stack, idx)):
                return env['last']
            l, r = val(t.left), val(t.comparators[0])
            op = type(t.ops[0])
            if isinstance(l, str) or isinstance(r, str):
                if op is ast.NotEq:
                    return l != r
                if op is ast.Eq:
                    return l == r
                raise Shape('ordering test on a value in the output pass: %s' % ast.unparse(t))
            return {ast.Lt: l < r, ast.LtE: l <= r, ast.Gt: l > r, ast.GtE: l >= r, ast.Eq: l == r, ast.NotEq: l != r}[op]
        raise Shape('output test %s' % ast.unparse(t)[:40])

    for st in stmts:
        if isinstance(st, ast.If):
            _run_out(st.body if test(st.test) else st.orelse, env, seg, idx, stack, ans, prevname, emitted)
        elif isinstance(st, ast.Expr) and isinstance(st.value, ast.Call) and isinstance(st.value.func, ast.Attribute) and _is_name(st.value.func.value, ans) \
                and st.value.func.attr == 'append':
            a = st.value.args[0]
            if not (isinstance(a, (ast.List, ast.Tuple)) and len(a.elts) == 2):
                raise Shape('emitted sample %s' % ast.unparse(a)[:40])
            emitted.append((val(a.elts[0]), val(a.elts[1])))
        elif isinstance(st, ast.Assign) and prevname and _is_name(st.targets[0], prevname):
            env['prev'] = val(st.value)
        elif isinstance(st, ast.Pass):
            pass
        else:
            raise Shape('output statement %s' % ast.unparse(st)[:50])


# ===================================================================================== R-COMPOSE: since[a,b], until[a,b]
COMPOSE = {
    'since': ('once_timed_operation', 'since_operation', 'historically_timed_operation'),
    'until': ('eventually_timed_operation', 'until_operation', 'always_timed_operation'),
}


def check_compose(ix, rep, f, which, rule='R-COMPOSE'):
    """phi S[a,b] psi = once[a,b] psi  and  historically[0,a](phi S psi)   (the second conjunct is phi S psi itself when a = 0)"""
    from sa.index import FuncInfo
    timed, untimed, glob = COMPOSE[which]
    params = [a.arg for a in f.node.args.args]
    if len(params) != 4:
        rep.error('%s (%s): expected (left, right, begin, end)' % (f.where, f.qual))
        return 0
    L, R, A, B = [('p', p) for p in params]
    zero = ('c', 0)
    first = ('call', timed, (R, A, B))
    su = ('call', untimed, (L, R))
    full = ('call', 'and_operation', frozenset([first, ('call', glob, (su, zero, A))]))
    short = ('call', 'and_operation', frozenset([first, su]))
    slot = 'dense-offline:Timed%s' % which.capitalize()
    n = 0
    bad = []
    try:
        for conds, stmts in _paths(_expand_ifexp(f.node.body)):
            env = {p: ('p', p) for p in params}
            ret = None
            for st in stmts:
                if isinstance(st, ast.Assign) and len(st.targets) == 1 and isinstance(st.targets[0], ast.Name):
                    env[st.targets[0].id] = _term(ix, f, st.value, env)
                elif isinstance(st, ast.Return):
                    ret = _term(ix, f, st.value, env)
                    break
                elif isinstance(st, ast.Expr) and isinstance(st.value, ast.Constant):
                    continue
                else:
                    raise Shape('statement %s' % ast.unparse(st)[:40])
            n += 1
            ctext = ' and '.join(('' if tr else 'not ') + ast.unparse(t) for t, tr in conds) or 'always'
            if ret == full:
                continue
            if ret == short:
                # only when begin = 0: the path condition must exclude begin > 0
                excl = any((not tr) and ast.unparse(t).replace(' ', '').strip('()') in ('%s>0' % params[2], '0<%s' % params[2]) for t, tr in conds) or \
                    any(tr and ast.unparse(t).replace(' ', '').strip('()') in ('%s==0' % params[2], '%s<=0' % params[2]) for t, tr in conds)
                if excl:
                    continue
                bad.append('under `%s` the result is %s without the %s[0,begin] conjunct, although begin may be positive' % (ctext, _tshow(ret), glob.split('_')[0]))
                continue
            bad.append('under `%s` the result is  %s  instead of  %s' % (ctext, _tshow(ret), _tshow(full)))
    except Shape as e:
        rep.error('%s (%s): %s; the composition was decided on the pinned tree' % (f.where, f.qual, e))
        return 0
    if bad:
        rep.fail(rule, f.module.rel, f.qual, slot, '; '.join(bad), f.node.lineno)
    else:
        rep.ok(rule, f.module.rel, f.qual, slot, '%d paths: %s' % (n, _tshow(full)), f.node.lineno)
    return n


def _expand_ifexp(stmts):
    """`v = A if c else B`  ->  if c: v = A  else: v = B   (so that the path enumeration sees the condition)"""
    out = []
    for st in stmts:
        if isinstance(st, ast.Assign) and isinstance(st.value, ast.IfExp):
            a = ast.copy_location(ast.Assign(targets=st.targets, value=st.value.body), st)
            b = ast.copy_location(ast.Assign(targets=st.targets, value=st.value.orelse), st)
            out.append(ast.copy_location(ast.If(test=st.value.test, body=[a], orelse=[b]), st))
        elif isinstance(st, ast.Return) and isinstance(st.value, ast.IfExp):
            a = ast.copy_location(ast.Return(value=st.value.body), st)
            b = ast.copy_location(ast.Return(value=st.value.orelse), st)
            out.append(ast.copy_location(ast.If(test=st.value.test, body=[a], orelse=[b]), st))
        elif isinstance(st, ast.If):
            out.append(ast.copy_location(ast.If(test=st.test, body=_expand_ifexp(st.body), orelse=_expand_ifexp(st.orelse)), st))
        else:
            out.append(st)
    return out


def _term(ix, f, e, env):
    from sa.index import FuncInfo
    if isinstance(e, ast.Name):
        if e.id in env:
            return env[e.id]
        raise Shape('name %s' % e.id)
    if isinstance(e, ast.Constant) and isinstance(e.value, (int, float)):
        return ('c', e.value)
    if isinstance(e, ast.Call):
        tgt = ix.resolve_expr(f.module, e.func)
        if not isinstance(tgt, FuncInfo):
            raise Shape('call %s' % ast.unparse(e.func))
        args = tuple(_term(ix, f, a, env) for a in e.args)
        if e.keywords:
            raise Shape('keyword arguments in %s' % ast.unparse(e)[:40])
        name = tgt.node.name
        if name in ('and_operation', 'or_operation'):
            return ('call', name, frozenset(args))
        return ('call', name, args)
    raise Shape('expression %s' % ast.unparse(e)[:40])


def _tshow(t):
    if t is None:
        return 'nothing'
    if t[0] == 'p':
        return t[1]
    if t[0] == 'c':
        return str(t[1])
    args = sorted(_tshow(a) for a in t[2]) if isinstance(t[2], frozenset) else [_tshow(a) for a in t[2]]
    return '%s(%s)' % (t[1].replace('_operation', ''), ', '.join(args))


# ===================================================================================== R-FORWARD: handler -> kernel
FORWARD = {
    'TimedOnce': ('once_timed_operation', 1), 'TimedHistorically': ('historically_timed_operation', 1),
    'TimedAlways': ('always_timed_operation', 1), 'TimedEventually': ('eventually_timed_operation', 1),
    'TimedSince': ('since_timed_operation', 2), 'TimedUntil': ('until_timed_operation', 2),
}


def check_forward(ix, rep, cls, f, nodename, rule='R-FORWARD'):
    """visitTimedX hands (operand signals in order, begin, end as converted by time_unit_transformer) to the kernel of X"""
    kernel, arity = FORWARD[nodename]
    slot = 'dense-offline:%s' % nodename
    node = f.node.args.args[1].arg
    env = {}
    ret = None
    bypasses = []
    try:
        for st in f.node.body:
            if isinstance(st, ast.Expr) and isinstance(st.value, ast.Constant):
                continue
            if isinstance(st, ast.Assign) and len(st.targets) == 1:
                t = st.targets[0]
                v = st.value
                if isinstance(t, ast.Tuple) and len(t.elts) == 2 and isinstance(v, ast.Call) and ast.unparse(v.func) == 'self.time_unit_transformer' \
                        and len(v.args) == 1 and _is_name(v.args[0], node):
                    env[t.elts[0].id] = ('bound', 0)
                    env[t.elts[1].id] = ('bound', 1)
                    continue
                if isinstance(t, ast.Name):
                    env[t.id] = _hterm(ix, f, v, env, node)
                    continue
            if isinstance(st, ast.Return):
                ret = _hterm(ix, f, st.value, env, node)
                break
            if isinstance(st, ast.If) and not st.orelse and len(st.body) >= 1 and isinstance(st.body[-1], ast.Return) \
                    and all(isinstance(x, (ast.Return, ast.Expr)) and (isinstance(x, ast.Return) or isinstance(x.value, ast.Constant)) for x in st.body):
                bypasses.append((st, st.body[-1]))
                continue
            raise Shape('handler statement %s' % ast.unparse(st)[:50])
    except Shape as e:
        rep.error('%s (%s): %s; the handler was decided on the pinned tree' % (f.where, f.qual, e))
        return False
    want = ('call', kernel, tuple(('child', k) for k in range(arity)) + (('bound', 0), ('bound', 1)))
    for (ifst, r) in bypasses:
        # a path that leaves the handler without the kernel.  Two shortcuts are the kernel's own result: no samples -> no samples, and the
        # window [0,0], which is the operand itself.  Anything else is a second implementation of the operator on that path; in particular
        # an unbounded scan is never the same as a bounded window, however long: the last value is held beyond the last sample, where old
        # samples do leave a window of any finite length
        rvx = r.value
        # a copy of the operand is the operand: list(x), x[:], x.copy()
        if isinstance(rvx, ast.Call) and isinstance(rvx.func, ast.Name) and rvx.func.id == 'list' and len(rvx.args) == 1:
            rvx = rvx.args[0]
        elif isinstance(rvx, ast.Subscript) and isinstance(rvx.slice, ast.Slice) and rvx.slice.lower is None and rvx.slice.upper is None and rvx.slice.step is None:
            rvx = rvx.value
        elif isinstance(rvx, ast.Call) and isinstance(rvx.func, ast.Attribute) and rvx.func.attr == 'copy' and not rvx.args:
            rvx = rvx.func.value
        try:
            rv = _hterm(ix, f, rvx, env, node) if rvx is not None else None
        except Shape:
            rv = ('expr', ast.unparse(r.value)[:60])
        ctext = ast.unparse(ifst.test)
        names = dict(env)
        def _is(e, what):
            return isinstance(e, ast.Name) and names.get(e.id) == what
        t = ifst.test
        empty_guard = (isinstance(t, ast.UnaryOp) and isinstance(t.op, ast.Not) and isinstance(t.operand, ast.Name) and names.get(t.operand.id, (None,))[0] == 'child') or \
                      (isinstance(t, ast.Compare) and len(t.ops) == 1 and isinstance(t.ops[0], ast.Eq) and isinstance(t.left, ast.Call) and ast.unparse(t.left.func) == 'len'
                       and isinstance(t.comparators[0], ast.Constant) and t.comparators[0].value == 0 and t.left.args and isinstance(t.left.args[0], ast.Name)
                       and names.get(t.left.args[0].id, (None,))[0] == 'child')
        def _zero(e, which):
            return isinstance(e, ast.Compare) and len(e.ops) == 1 and isinstance(e.ops[0], (ast.Eq, ast.LtE)) and _is(e.left, ('bound', which)) \
                and isinstance(e.comparators[0], ast.Constant) and e.comparators[0].value == 0
        point_guard = _zero(t, 1) or (isinstance(t, ast.BoolOp) and isinstance(t.op, ast.And) and any(_zero(v, 1) for v in t.values)
                                       and all(_zero(v, 0) or _zero(v, 1) for v in t.values))
        is_empty_value = isinstance(r.value, ast.List) and not r.value.elts
        if empty_guard and (is_empty_value or (rv is not None and rv[0] == 'child')):
            rep.ok(rule, f.module.rel, f.qual, slot + ':shortcut:empty', 'no samples in, no samples out', ifst.lineno)
        elif point_guard and arity == 1 and rv == ('child', 0):
            rep.ok(rule, f.module.rel, f.qual, slot + ':shortcut:[0,0]', 'the window [0,0] is the operand itself', ifst.lineno)
        else:
            rep.fail(rule, f.module.rel, f.qual, slot + ':bypass', 'under `%s` the handler returns  %s  and never reaches  %s : a second implementation of the operator on that '
                     'path (only the empty signal and the window [0,0] have a result that needs no kernel; a scan over the samples is not a bounded window of any length, '
                     'the last value is held beyond the last sample, where older samples do leave the window)' % (ctext[:60], _hshow(rv), _hshow(want)), ifst.lineno)
    if ret == want:
        rep.ok(rule, f.module.rel, f.qual, slot, _hshow(want), f.node.lineno)
        return True
    rep.fail(rule, f.module.rel, f.qual, slot, 'the handler computes  %s  instead of  %s' % (_hshow(ret), _hshow(want)), f.node.lineno)
    return False


def _hterm(ix, f, e, env, node):
    from sa.index import FuncInfo
    if isinstance(e, ast.Name) and e.id in env:
        return env[e.id]
    if isinstance(e, ast.Call) and ast.unparse(e.func) == 'self.visit' and e.args and isinstance(e.args[0], ast.Subscript) \
            and ast.unparse(e.args[0].value) == '%s.children' % node and isinstance(e.args[0].slice, ast.Constant):
        return ('child', e.args[0].slice.value)
    if isinstance(e, ast.Call):
        tgt = ix.resolve_expr(f.module, e.func)
        if isinstance(tgt, FuncInfo) and not e.keywords:
            return ('call', tgt.node.name, tuple(_hterm(ix, f, a, env, node) for a in e.args))
    if isinstance(e, ast.Constant):
        return ('c', e.value)
    raise Shape('handler expression %s' % ast.unparse(e)[:50])


def _hshow(t):
    if t is None:
        return 'nothing'
    if t[0] == 'child':
        return 'operand%d' % t[1]
    if t[0] == 'bound':
        return ('begin', 'end')[t[1]]
    if t[0] == 'c':
        return repr(t[1])
    if t[0] == 'expr':
        return t[1]
    return '%s(%s)' % (t[1], ', '.join(_hshow(a) for a in t[2]))


# ===================================================================================== online composition
ONLINE_KERNELS = {'OnceTimedOperation': 'once_timed', 'HistoricallyTimedOperation': 'historically_timed', 'SinceOperation': 'since',
                  'AndOperation': 'and', 'OrOperation': 'or', 'OnceOperation': 'once', 'HistoricallyOperation': 'historically'}


def check_compose_online(ix, rep, cls, rule='R-COMPOSE'):
    """dense-time online since[a,b]: the sub-operators built in __init__ and how update()/update_final() chain them"""
    from sa.index import ClassInfo
    init = cls.methods.get('__init__')
    slot = 'dense-online:TimedSince'
    if init is None:
        rep.error('%s: no constructor' % cls.name)
        return 0
    params = [a.arg for a in init.node.args.args[1:]]
    objs = {}
    vals = {p: ('p', k) for k, p in enumerate(params)}
    try:
        for st in init.node.body:
            if isinstance(st, ast.Assign) and len(st.targets) == 1 and isinstance(st.targets[0], ast.Attribute) and _is_name(st.targets[0].value, 'self'):
                nm = st.targets[0].attr
                v = st.value
                if isinstance(v, ast.Name) and v.id in vals:
                    vals['self.' + nm] = vals[v.id]
                elif isinstance(v, ast.Call):
                    tgt = ix.resolve_expr(init.module, v.func)
                    if isinstance(tgt, ClassInfo):
                        args = []
                        for a in v.args:
                            if isinstance(a, ast.Constant):
                                args.append(('c', a.value))
                            else:
                                key = ast.unparse(a)
                                if key not in vals:
                                    raise Shape('constructor argument %s' % key)
                                args.append(vals[key])
                        objs[nm] = (tgt.name, tuple(args))
        n = 0
        bad = []
        A, B = ('p', 0), ('p', 1)
        for meth in ('update', 'update_final'):
            f = cls.methods.get(meth)
            if f is None:
                continue
            ps = [a.arg for a in f.node.args.args[1:]]
            env = {ps[0]: ('in', 0), ps[1]: ('in', 1)}
            ret = None
            for st in f.node.body:
                if isinstance(st, ast.Assign) and len(st.targets) == 1 and isinstance(st.targets[0], ast.Name):
                    env[st.targets[0].id] = _oterm(st.value, env, objs, meth)
                elif isinstance(st, ast.Assign) and isinstance(st.targets[0], ast.Attribute):
                    continue   # bookkeeping buffers; R-STATE in C10/C05 looks at them
                elif isinstance(st, ast.Return):
                    ret = _oterm(st.value, env, objs, meth)
                    break
                elif isinstance(st, ast.Expr) and isinstance(st.value, ast.Constant):
                    continue
                else:
                    raise Shape('statement %s' % ast.unparse(st)[:40])
            n += 1
            L, R = ('in', 0), ('in', 1)
            first = ('k', 'once_timed', (A, B), (R,))
            su = ('k', 'since', (), (L, R))
            full = ('k', 'and', (), frozenset([first, ('k', 'historically_timed', (('c', 0), A), (su,))]))
            if ret != full:
                bad.append('%s() computes  %s  instead of  %s' % (meth, _oshow(ret), _oshow(full)))
    except Shape as e:
        rep.error('%s (%s): %s; the composition was decided on the pinned tree' % (init.where, cls.name, e))
        return 0
    f = cls.methods.get('update')
    if bad:
        rep.fail(rule, f.module.rel, '%s.update' % cls.name, slot, '; '.join(bad), f.node.lineno)
    else:
        rep.ok(rule, f.module.rel, '%s.update' % cls.name, slot, _oshow(full), f.node.lineno)
    return n


def _oterm(e, env, objs, meth):
    if isinstance(e, ast.Name) and e.id in env:
        return env[e.id]
    if isinstance(e, ast.Call) and isinstance(e.func, ast.Attribute) and isinstance(e.func.value, ast.Attribute) and _is_name(e.func.value.value, 'self') \
            and e.func.value.attr in objs:
        if e.func.attr != meth:
            raise Shape('%s() calls %s() of a sub-operator' % (meth, e.func.attr))
        cname, cargs = objs[e.func.value.attr]
        k = ONLINE_KERNELS.get(cname)
        if k is None:
            raise Shape('sub-operator class %s' % cname)
        args = tuple(_oterm(a, env, objs, meth) for a in e.args)
        return ('k', k, cargs, frozenset(args) if k in ('and', 'or') else args)
    raise Shape('expression %s' % ast.unparse(e)[:50])


def _oshow(t):
    if t is None:
        return 'nothing'
    if t[0] == 'in':
        return ('left', 'right')[t[1]]
    if t[0] == 'p':
        return ('begin', 'end')[t[1]]
    if t[0] == 'c':
        return repr(t[1])
    args = sorted(_oshow(a) for a in t[3]) if isinstance(t[3], frozenset) else [_oshow(a) for a in t[3]]
    return '%s%s(%s)' % (t[1], ('[%s]' % ', '.join(_oshow(a) for a in t[2])) if t[2] else '', ', '.join(args))


# ===================================================================================== R-CARRY: online emit / carry-over split
def check_carry(ix, rep, f, opname, rule='R-CARRY', slot_prefix=''):
    """dense-time online once[a,b]/historically[a,b]: after the merge, every segment (b0, b1, v) of the stack is split at the frontier
    R = time of the last input sample: the part up to R is emitted, the part beyond R is carried to the next update.  The split only
    compares b0, b1 and R, so it is evaluated on the five weak orderings of R against b0 < b1:
        a sample [b0, v] is emitted iff b0 <= R (it may be dropped only when v equals the previous value);
        the carried segments cover exactly (max(b0, R), b1) with value v when R < b1, and nothing when b1 <= R."""
    slot = '%s%s:carry' % (slot_prefix, opname)
    try:
        info = find_step(f.node)
        return _check_carry(rep, f, opname, rule, slot, info)
    except Shape as e:
        rep.error('%s (%s): %s; the carry-over loop was decided on the pinned tree' % (f.where, f.qual, e))
        return 0


def _check_carry(rep, f, opname, rule, slot, info):
    stack = info['stack']
    loops = [s for s in f.node.body if isinstance(s, ast.For) and any(isinstance(n, ast.Name) and n.id == stack for n in ast.walk(s.iter))]
    if len(loops) != 1:
        raise Shape('%d loops over the segment stack after the merge' % len(loops))
    lp = loops[0]
    it = lp.iter
    idx = None
    if isinstance(it, ast.Call) and isinstance(it.func, ast.Name) and it.func.id == 'enumerate' and _is_name(it.args[0], stack) and isinstance(lp.target, ast.Tuple):
        idx, seg = lp.target.elts[0].id, lp.target.elts[1].id
    elif _is_name(it, stack) and isinstance(lp.target, ast.Name):
        seg = lp.target.id
    else:
        raise Shape('carry loop iterates %s' % ast.unparse(it)[:40])
    # names: frontier attribute, carried list, result list
    frontier = None
    for n in ast.walk(lp):
        if isinstance(n, ast.Compare):
            for x in [n.left] + list(n.comparators):
                if isinstance(x, ast.Attribute) and isinstance(x.value, ast.Name) and x.value.id == 'self':
                    frontier = ast.unparse(x)
    if frontier is None:
        raise Shape('no frontier attribute compared with the segment ends')
    carried_name = None
    for n in ast.walk(lp):
        if isinstance(n, ast.Call) and isinstance(n.func, ast.Attribute) and n.func.attr == 'append' and isinstance(n.func.value, ast.Attribute) \
                and isinstance(n.func.value.value, ast.Name) and n.func.value.value.id == 'self':
            carried_name = ast.unparse(n.func.value)
    if carried_name is None:
        raise Shape('nothing is carried to the next update')
    problems = []
    nstates = 0
    # every way out of update() goes through the split: a return taken after the carried segments were taken out of self.<carry>
    # (e.g. an early return for an empty batch) would drop them
    from sa import flow as _flow
    cfg = _flow.CFG(f.node)
    dom = cfg.dominators()
    takes_out = [st for st in f.node.body if isinstance(st, ast.Assign) and ast.unparse(st.targets[0]) == carried_name and isinstance(st.value, ast.List) and not st.value.elts]
    for r in [x for x in ast.walk(f.node) if isinstance(x, ast.Return)]:
        if takes_out and _before(takes_out[0], r) and not _flow.dominated_by(cfg, dom, r, lambda s_, dn: s_ is lp):
            problems.append(('early-return', 'update() can return (line %d) after the carried segments were taken out of %s and before they are put back: an update that brings '
                             'no new sample (a variable sampled at another rate, a heartbeat) forgets everything carried over' % (r.lineno, carried_name)))
    for pos, (R,) in (('R < b0', (0,)), ('R = b0', (1,)), ('b0 < R < b1', (2,)), ('R = b1', (3,)), ('b1 < R', (4,))):
        b0, b1 = Fraction(1), Fraction(3)
        for veq in (False, True):
            for last in (False, True):
                nstates += 1
                env = {'seg': (b0, b1, 'v'), 'R': Fraction(R), 'prev': 'v' if veq else 'other', 'last': last}
                emitted, carried = [], []
                _run_carry(lp.body, env, seg, idx, stack, frontier, carried_name, emitted, carried)
                Rv = Fraction(R)
                state = '%s, value %s the previous one%s' % (pos, '=' if veq else '!=', ', last segment' if last else '')
                # emission
                must = (b0 <= Rv) and not veq
                if must and not any(t == b0 and v == 'v' for t, v in emitted):
                    problems.append(('emit', 'state %s: the segment starts inside the known region but no sample [b0, v] is emitted' % state))
                for (t, v) in emitted:
                    if v != 'v' or not (t == b0 or t == Rv):
                        problems.append(('emit-what', 'state %s: emits [%s, %s]' % (state, t, v)))
                    if b0 > Rv:
                        problems.append(('emit-early', 'state %s: emits a sample for a segment that starts after the last input sample' % state))
                # carry-over
                if Rv < b1:
                    want_lo = max(b0, Rv)
                    cov = sorted((c[0], c[1]) for c in carried)
                    if not carried:
                        problems.append(('lost', 'state %s: the part of the segment after the last input sample, (%s, b1), is neither emitted nor carried to the next update: '
                                         'its value is forgotten, so feeding the same signal in smaller chunks gives a different result (and a later pop loop can empty the stack)'
                                         % (state, 'b0' if b0 >= Rv else 'R')))
                    elif cov[0][0] != want_lo or cov[-1][1] != b1 or any(x[1] != y[0] for x, y in zip(cov, cov[1:])) or any(c[2] != 'v' for c in carried):
                        problems.append(('carry-what', 'state %s: carries %s instead of (%s, b1, v)' % (state, carried, 'b0' if b0 >= Rv else 'R')))
                elif carried:
                    problems.append(('carry-done', 'state %s: a segment that ends inside the known region is carried again' % state))
    seen = set()
    for key, text in problems:
        if key in seen:
            continue
        seen.add(key)
        rep.fail(rule, f.module.rel, f.qual, '%s:%s' % (slot, key), '%s carry-over: %s' % (opname, text), lp.lineno)
    if not problems:
        rep.ok(rule, f.module.rel, f.qual, slot, '%d states of (frontier vs segment) x (value = previous) x last: emitted up to the frontier, the rest carried' % nstates, lp.lineno)
    return nstates


def _run_carry(stmts, env, seg, idx, stack, frontier, carried_name, emitted, carried):
    def val(e):
        if isinstance(e, ast.Subscript) and _is_name(e.value, seg) and isinstance(e.slice, ast.Constant):
            return env['seg'][e.slice.value]
        if isinstance(e, ast.Attribute) and ast.unparse(e) == frontier:
            return env['R']
        if isinstance(e, ast.Constant) and isinstance(e.value, (int, float)):
            return Fraction(e.value)
        if isinstance(e, ast.Name) and e.id in env.get('locals', {}):
            return env['locals'][e.id]
        if isinstance(e, ast.Name) and e.id == 'prev':
            return env['prev']
        raise Shape('carry expression %s' % ast.unparse(e)[:40])

    def test(t):
        if isinstance(t, ast.BoolOp):
            vals = [test(v) for v in t.values]
            return all(vals) if isinstance(t.op, ast.And) else any(vals)
        if isinstance(t, ast.UnaryOp) and isinstance(t.op, ast.Not):
            return not test(t.operand)
        if isinstance(t, ast.Compare):
            txt = ast.unparse(t).replace(' ', '')
            if idx and txt in ('%s==len(%s)-1' % (idx, stack), 'len(%s)-1==%s' % (stack, idx)):
                return env['last']
            vals = [val(x) for x in [t.left] + list(t.comparators)]
            ok = True
            for x, op, y in zip(vals, t.ops, vals[1:]):
                if isinstance(x, str) or isinstance(y, str):
                    r = {ast.Eq: x == y, ast.NotEq: x != y}.get(type(op))
                    if r is None:
                        raise Shape('ordering test on a value in the carry loop')
                else:
                    r = {ast.Lt: x < y, ast.LtE: x <= y, ast.Gt: x > y, ast.GtE: x >= y, ast.Eq: x == y, ast.NotEq: x != y}[type(op)]
                ok = ok and r
            return ok
        raise Shape('carry test %s' % ast.unparse(t)[:40])

    for st in stmts:
        if isinstance(st, ast.If):
            _run_carry(st.body if test(st.test) else st.orelse, env, seg, idx, stack, frontier, carried_name, emitted, carried)
        elif isinstance(st, ast.Assign) and len(st.targets) == 1 and isinstance(st.targets[0], ast.Name):
            nm = st.targets[0].id
            if nm == 'prev':
                env['prev'] = val(st.value)
            elif isinstance(st.value, (ast.List, ast.Tuple)):
                env.setdefault('locals', {})[nm] = tuple(val(x) for x in st.value.elts)
            else:
                env.setdefault('locals', {})[nm] = val(st.value)
        elif isinstance(st, ast.Expr) and isinstance(st.value, ast.Call) and isinstance(st.value.func, ast.Attribute) and st.value.func.attr == 'append':
            tgt = ast.unparse(st.value.func.value)
            a = st.value.args[0]
            if tgt == carried_name:
                if isinstance(a, ast.Name) and a.id == seg:
                    carried.append(env['seg'])
                elif isinstance(a, ast.Tuple) and len(a.elts) == 3:
                    carried.append(tuple(val(x) for x in a.elts))
                else:
                    raise Shape('carried value %s' % ast.unparse(a)[:40])
            else:
                if isinstance(a, ast.Name) and a.id in env.get('locals', {}):
                    v = env['locals'][a.id]
                    emitted.append((v[0], v[1]))
                elif isinstance(a, (ast.List, ast.Tuple)) and len(a.elts) == 2:
                    emitted.append((val(a.elts[0]), val(a.elts[1])))
                else:
                    raise Shape('emitted value %s' % ast.unparse(a)[:40])
        elif isinstance(st, ast.Pass):
            pass
        else:
            raise Shape('carry statement %s' % ast.unparse(st)[:50])


def check_patchup(ix, rep, f, opname, rule='R-SEGBUILD', slot_prefix=''):
    """online: the influence interval of the last sample of the previous batch was given the provisional end T[k] + end; when the next batch arrives
    its end becomes T[k+1] + end with T[k+1] the first time-stamp of the new batch -- the segment is the last one carried over"""
    slot = '%s%s:patch-up' % (slot_prefix, opname)
    try:
        info = find_step(f.node)
    except Shape as e:
        rep.error('%s (%s): %s' % (f.where, f.qual, e))
        return 0
    stack = info['stack']
    loop = info['loop']
    params = [a.arg for a in f.node.args.args if a.arg != 'self']
    sample = params[0]
    cands = []
    for st in f.node.body:
        if st is loop:
            break
        for n in ast.walk(st):
            if isinstance(n, ast.Call) and isinstance(n.func, ast.Attribute) and n.func.attr == 'append' and _is_name(n.func.value, stack) and n.args \
                    and isinstance(n.args[0], ast.Tuple) and len(n.args[0].elts) == 3:
                cands.append((st, n))
    if not cands:
        rep.fail(rule, f.module.rel, f.qual, slot, 'the provisional end of the last carried segment is never extended when the next batch arrives: the value of the last sample of a batch '
                 'is lost after T + end although it holds until the next sample', f.node.lineno)
        return 1
    st, call = cands[0]
    # local bindings inside the enclosing block
    binds = {}
    removed = False
    for n in ast.walk(st):
        if isinstance(n, ast.Assign) and isinstance(n.targets[0], ast.Name):
            binds[n.targets[0].id] = ast.unparse(n.value).replace(' ', '')
            if binds[n.targets[0].id] in ('%s.pop()' % stack, '%s.pop(-1)' % stack) and _before(n, call):
                # v = out.pop(): reads the top and removes it
                binds[n.targets[0].id] = '%s[-1]' % stack
                removed = True
        if isinstance(n, ast.Delete) and _before(n, call) and any(_top_index(t, stack) == 'end' for t in n.targets):
            removed = True
        if isinstance(n, ast.Expr) and isinstance(n.value, ast.Call) and _before(n, call) \
                and ast.unparse(n.value).replace(' ', '') in ('%s.pop()' % stack, '%s.pop(-1)' % stack):
            removed = True
    if not removed:
        rep.fail(rule, f.module.rel, f.qual, slot + ':replace', 'the last carried segment is not removed before its re-ended copy is pushed: both stay on the stack and the old provisional '
                 'end keeps cutting the value off at T + end', call.lineno)
    else:
        rep.ok(rule, f.module.rel, f.qual, slot + ':replace', 'the carried segment is taken off the stack before its re-ended copy is pushed', call.lineno)

    def norm(e):
        t = ast.unparse(e).replace(' ', '')
        for k_, v_ in binds.items():
            t = t.replace(k_ + '[', '(' + v_ + ')[')
        return t
    import re as _re

    def unparen(t):
        # (x[i])[j] and x[i][j] are one expression: a bound local leaves the parentheses behind, a direct subscript has none
        prev = None
        while prev != t:
            prev = t
            t = _re.sub(r'\((\w+\[[^()\[\]]*(?:\([^()]*\))?[^()\[\]]*\])\)', r'\1', t)
        return t
    e0, e1, e2 = [unparen(norm(x)) for x in call.args[0].elts]
    top = ['%s[len(%s)-1]' % (stack, stack), '%s[-1]' % stack]
    first = '%s[0]' % sample
    endn = [p for p, v in {**{a: a for a in ('end',)}, **{k: v for k, v in _local_bounds(f).items()}}.items() if v == 'end'] + ['self.end']
    ok0 = any(e0 == t + '[0]' for t in top)
    ok2 = any(e2 == t + '[2]' for t in top)
    ok1 = any(e1 in ('%s[0]+%s' % (first, en), '%s+%s[0]' % (en, first)) for en in endn)
    guarded = any(isinstance(g, ast.If) and any(x is call for x in ast.walk(g)) and _mentions(g.test, stack) for g in ast.walk(st)) and \
        (isinstance(st, ast.If) and _mentions(st.test, sample))
    if ok0 and ok1 and ok2 and guarded:
        rep.ok(rule, f.module.rel, f.qual, slot, 'last carried segment re-ended at T[first of the new batch] + end, start and value kept', call.lineno)
    else:
        rep.fail(rule, f.module.rel, f.qual, slot, 'when a new batch arrives the last carried segment becomes (%s, %s, %s)%s; it must keep its start and value and end at %s[0][0] + end' % (
            e0, e1, e2, '' if guarded else ' without checking that a segment was carried and the batch is non-empty', sample), call.lineno)
    return 1


def _local_bounds(f):
    out = {}
    for st in f.node.body:
        if isinstance(st, ast.Assign) and isinstance(st.targets[0], ast.Name) and isinstance(st.value, ast.Attribute) and isinstance(st.value.value, ast.Name) \
                and st.value.value.id == 'self' and st.value.attr in ('begin', 'end'):
            out[st.targets[0].id] = st.value.attr
    return out


def _mentions(e, name):
    return any(isinstance(n, ast.Name) and n.id == name for n in ast.walk(e))
