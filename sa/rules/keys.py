"""R-KEY -- subscript loads on the specification dictionaries must be justified."""
import ast

from sa import flow


def attr_chain(e):
    parts = []
    while isinstance(e, ast.Attribute):
        parts.append(e.attr)
        e = e.value
    if isinstance(e, ast.Name):
        parts.append(e.id)
        return tuple(reversed(parts))
    return None


def dict_loads(func_node, dict_attr):
    """Subscript *loads* ``<anything>.dict_attr[k]`` / ``dict_attr[k]`` in func."""
    out = []
    for n in ast.walk(func_node):
        if isinstance(n, ast.Subscript) and isinstance(n.ctx, ast.Load):
            ch = attr_chain(n.value)
            if ch and ch[-1] == dict_attr:
                out.append(n)
    return out


def _parents(func_node):
    par = {}
    for p in ast.walk(func_node):
        for c in ast.iter_child_nodes(p):
            par[id(c)] = p
    return par


def _membership_test(test, key_src, dict_attr):
    """test (or a conjunct of it) is ``key in <...>.dict_attr``"""
    tests = test.values if isinstance(test, ast.BoolOp) and isinstance(test.op, ast.And) else [test]
    for t in tests:
        if (isinstance(t, ast.Compare) and len(t.ops) == 1 and isinstance(t.ops[0], ast.In)
                and ast.unparse(t.left) == key_src):
            ch = attr_chain(t.comparators[0])
            if ch and ch[-1] == dict_attr:
                return True
    return False


def justification(func_node, load, dict_attr, aliases=None):
    """-> text describing why the load cannot raise KeyError, or None.

    aliases: {name: source text} for simple local copies (``var_name = data[0]``)."""
    par = _parents(func_node)
    key_src = ast.unparse(load.slice)
    keys = {key_src}
    if aliases:
        # close under aliasing both ways
        for a, b in list(aliases.items()):
            if a in keys or b in keys:
                keys |= {a, b}
    # literal key
    n = load
    child = load
    while id(n) in par:
        p = par[id(n)]
        if isinstance(p, ast.If) and child in p.body:
            for k in keys:
                if _membership_test(p.test, k, dict_attr):
                    return 'guarded by `%s in %s`' % (k, dict_attr)
        if isinstance(p, ast.Try) and child in p.body:
            for h in p.handlers:
                names = []
                if h.type is None:
                    names = ['*']
                elif isinstance(h.type, ast.Tuple):
                    names = [ast.unparse(e) for e in h.type.elts]
                else:
                    names = [ast.unparse(h.type)]
                if any(x in ('KeyError', 'LookupError', 'Exception', '*') for x in names):
                    return 'inside try/except %s' % ','.join(names)
        child = p
        n = p
    # dominated by a store D[k] = ...
    cfg = flow.CFG(func_node)
    dom = cfg.dominators()
    st = load
    while id(st) in par and cfg.node(st) is None:
        st = par[id(st)]

    def is_store(s, d):
        for sub in ast.walk(s) if not isinstance(s, (ast.If, ast.For, ast.While, ast.Try, ast.With)) else []:
            if isinstance(sub, ast.Subscript) and isinstance(sub.ctx, ast.Store):
                ch = attr_chain(sub.value)
                if ch and ch[-1] == dict_attr and ast.unparse(sub.slice) in keys:
                    return True
        return False
    if flow.dominated_by(cfg, dom, st, is_store):
        return 'dominated by a store to %s[%s]' % (dict_attr, key_src)
    return None


def simple_aliases(func_node):
    out = {}
    for st in ast.walk(func_node):
        if isinstance(st, ast.Assign) and len(st.targets) == 1 and isinstance(st.targets[0], ast.Name):
            if isinstance(st.value, (ast.Name, ast.Subscript, ast.Attribute)):
                out[st.targets[0].id] = ast.unparse(st.value)
    return out
