"""R-STEP -- within one update() every operator instance is stepped at most once.

Operators live in ``online_operator_dict`` under a key K(node) chosen by the construction visitor.  The parser shares
sub-specification nodes between assertions and two textually equal sub-formulas print the same name, so the update
visitor may reach the same operator along several paths.  The rule accepts exactly one design: the update visitor
memoises its result per update under the same key K(node), and the memo is renewed once per ``update()``.
"""
import ast

from sa.index import AnalysisError, ClassInfo
from sa.index import before as _before
from sa import dispatch as D
from sa import effects as E
from sa.rules import exh, ownrule


def _chain(ix, uv, meth):
    """the method resolved on the update visitor and the base implementations it delegates to (super().meth / Base.meth(self, ...))"""
    out = []
    seen = set()
    mro = [c for c in ix.mro(uv) if hasattr(c, 'methods')]
    for c in mro:
        f = c.methods.get(meth)
        if f is None or id(f) in seen:
            continue
        if out:
            # only reached if the previous one delegates
            prev = out[-1]
            delegates = any(isinstance(n, ast.Call) and isinstance(n.func, ast.Attribute) and n.func.attr == meth and not (isinstance(n.func.value, ast.Name) and n.func.value.id == 'self')
                            for n in ast.walk(prev.node))
            if not delegates:
                break
        seen.add(id(f))
        out.append(f)
    return out


def _dict_key_exprs(ix, uv):
    """key expressions used to look the operator up in visitBinary/visitUnary of the update visitor"""
    keys = {}
    for meth in ('visitBinary', 'visitUnary'):
        chain = _chain(ix, uv, meth)
        if not chain:
            raise AnalysisError('update visitor %s lacks %s' % (uv.name, meth))
        for f in chain:
            nodep = f.node.args.args[1].arg
            for n in ast.walk(f.node):
                if isinstance(n, ast.Subscript) and isinstance(n.ctx, ast.Load) and isinstance(n.value, ast.Name) \
                        and n.value.id == 'online_operator_dict' and meth not in keys:
                    keys[meth] = (ast.unparse(n.slice).replace(nodep, 'node'), f, n)
        if meth not in keys:
            raise AnalysisError('update visitor %s: %s never looks an operator up' % (uv.name, meth))
    return keys


def check_every_path_steps(ix, rep, uv, slotp, rule='R-STEP'):
    """on every path through visitBinary/visitUnary (including overrides that delegate) every child is visited and the operator is
    stepped before the method returns: a path that skips a sub-tree leaves the stateful operators below one sample behind for ever"""
    from sa import flow
    for meth, arity in (('visitBinary', 2), ('visitUnary', 1)):
        for f in _chain(ix, uv, meth):
            nodep = f.node.args.args[1].arg
            cfg = flow.CFG(f.node)
            dom = cfg.dominators()
            parents = {}
            for p in ast.walk(f.node):
                for c in ast.iter_child_nodes(p):
                    parents[id(c)] = p
            rets = [r for r in ast.walk(f.node) if isinstance(r, ast.Return)]
            bad = None
            for r in rets:
                v = r.value
                if isinstance(v, ast.Call) and isinstance(v.func, ast.Attribute) and v.func.attr == meth and not (isinstance(v.func.value, ast.Name) and v.func.value.id == 'self'):
                    continue       # delegation to the base implementation, analysed in its own right
                def visits(k):
                    def pred(s, dn, k=k):
                        return any(isinstance(n, ast.Call) and ast.unparse(n.func) == 'self.visit' and n.args and ast.unparse(n.args[0]) == '%s.children[%d]' % (nodep, k)
                                   for n in ast.walk(s)) and not isinstance(s, (ast.If, ast.For, ast.While, ast.Try))
                    return pred
                def steps(s, dn):
                    return any(isinstance(n, ast.Call) and isinstance(n.func, ast.Attribute) and n.func.attr in ('update', 'update_final') for n in ast.walk(s)) \
                        and not isinstance(s, (ast.If, ast.For, ast.While, ast.Try))
                st = r
                missing = [k for k in range(arity) if not flow.dominated_by(cfg, dom, st, visits(k))]
                if missing:
                    bad = (r, 'returns without visiting operand %d' % missing[0])
                    break
                if not flow.dominated_by(cfg, dom, st, steps):
                    bad = (r, 'returns without stepping the operator of the node')
                    break
            if bad:
                rep.fail(rule, f.module.rel, f.qual, '%s:every-path:%s' % (slotp, meth), '%s of the update visitor %s on some path: the stateful operators of the skipped sub-tree miss that '
                         'sample and stay out of phase with the offline result for every later update' % (meth, bad[1]), bad[0].lineno)
            else:
                rep.ok(rule, f.module.rel, f.qual, '%s:every-path:%s' % (slotp, meth), 'every return is dominated by the visits of all operands and by the operator step', f.node.lineno)


def _update_calls(f):
    return [n for n in ast.walk(f.node) if isinstance(n, ast.Call) and isinstance(n.func, ast.Attribute) and n.func.attr == 'update']


def _hit_test(t):
    """(cache expr, key expr) of a membership test:  key in cache  |  key in cache.keys()  |  cache.get(key) is not None
    (the last form relies on no operation returning None; a test on the truth value of the cached result is NOT a membership test:
    0.0 and [] are legitimate results)"""
    if isinstance(t, ast.Compare) and len(t.ops) == 1:
        if isinstance(t.ops[0], ast.In):
            c = t.comparators[0]
            if isinstance(c, ast.Call) and isinstance(c.func, ast.Attribute) and c.func.attr == 'keys' and not c.args:
                c = c.func.value
            return (c, t.left)
        if isinstance(t.ops[0], ast.IsNot) and isinstance(t.comparators[0], ast.Constant) and t.comparators[0].value is None \
                and isinstance(t.left, ast.Call) and isinstance(t.left.func, ast.Attribute) and t.left.func.attr == 'get' and len(t.left.args) == 1:
            return (t.left.func.value, t.left.args[0])
    return None


def _normalise_visit(fnode):
    """two spellings of the memo brought to the `if key in cache:` form (on a copy):
      key = node.name; if key in self.c: ...          -> the local replaced by what it is bound to (bound once, to an attribute chain)
      try: v = self.c[k] / except KeyError: <miss>    -> if k in self.c: v = self.c[k]; <rest>  followed by <miss>"""
    import copy
    fn = copy.deepcopy(fnode)
    stores = {}
    for n in ast.walk(fn):
        if isinstance(n, ast.Name) and isinstance(n.ctx, ast.Store):
            stores[n.id] = stores.get(n.id, 0) + 1
    binds = {}
    for st in fn.body:
        if isinstance(st, ast.Assign) and len(st.targets) == 1 and isinstance(st.targets[0], ast.Name) and stores.get(st.targets[0].id) == 1 \
                and isinstance(st.value, ast.Attribute) and isinstance(st.value.value, ast.Name):
            binds[st.targets[0].id] = st.value

    class Sub(ast.NodeTransformer):
        def visit_Name(self, n):
            if isinstance(n.ctx, ast.Load) and n.id in binds:
                return ast.copy_location(copy.deepcopy(binds[n.id]), n)
            return n
    if binds:
        fn = Sub().visit(fn)
        fn.body = [st for st in fn.body if not (isinstance(st, ast.Assign) and len(st.targets) == 1 and isinstance(st.targets[0], ast.Name) and st.targets[0].id in binds)]
    # miss first:  if key not in cache: B else: A   ->   if key in cache: A else: B
    for st in fn.body:
        if isinstance(st, ast.If) and st.orelse:
            t = st.test
            pos = None
            if isinstance(t, ast.Compare) and len(t.ops) == 1 and isinstance(t.ops[0], ast.NotIn):
                pos = ast.Compare(left=t.left, ops=[ast.In()], comparators=t.comparators)
            elif isinstance(t, ast.UnaryOp) and isinstance(t.op, ast.Not) and _hit_test(t.operand) is not None:
                pos = t.operand
            elif isinstance(t, ast.Compare) and len(t.ops) == 1 and isinstance(t.ops[0], ast.Is) and isinstance(t.comparators[0], ast.Constant) \
                    and t.comparators[0].value is None and isinstance(t.left, ast.Call) and isinstance(t.left.func, ast.Attribute) and t.left.func.attr == 'get' \
                    and len(t.left.args) == 1:
                pos = ast.Compare(left=t.left, ops=[ast.IsNot()], comparators=t.comparators)
            if pos is not None and _hit_test(pos) is not None:
                st.test = ast.copy_location(pos, t)
                st.body, st.orelse = st.orelse, st.body
                ast.fix_missing_locations(st)
    # single-exit form:  if hit: A else: B; <tail>   ->   if hit: A; <tail>   followed by  B; <tail>
    for k, st in enumerate(fn.body):
        if isinstance(st, ast.If) and st.orelse and _hit_test(st.test) is not None and not isinstance(st.body[-1], (ast.Return, ast.Raise)):
            tail = fn.body[k + 1:]
            st2 = ast.If(test=st.test, body=list(st.body) + [copy.deepcopy(x) for x in tail], orelse=[])
            ast.copy_location(st2, st)
            fn.body = fn.body[:k] + [st2] + list(st.orelse) + tail
            ast.fix_missing_locations(fn)
            break
    out = []
    for k, st in enumerate(fn.body):
        if isinstance(st, ast.Try) and len(st.handlers) == 1 and not st.finalbody and len(st.body) == 1 and isinstance(st.body[0], ast.Assign) \
                and isinstance(st.body[0].value, ast.Subscript) and E.self_loc(st.body[0].value.value) is not None \
                and st.handlers[0].type is not None and ast.unparse(st.handlers[0].type) == 'KeyError' \
                and st.handlers[0].body and isinstance(st.handlers[0].body[-1], (ast.Return, ast.Raise)):
            sub = st.body[0].value
            test = ast.Compare(left=copy.deepcopy(sub.slice), ops=[ast.In()], comparators=[copy.deepcopy(sub.value)])
            hit = ast.If(test=test, body=[st.body[0]] + list(st.orelse) + list(fn.body[k + 1:]), orelse=[])
            ast.copy_location(hit, st)
            ast.fix_missing_locations(hit)
            out.append(hit)
            out.extend(st.handlers[0].body)
            break
        out.append(st)
    fn.body = out
    return fn


def find_memo(ix, uv):
    """Look for the memo in the visit method resolved on the update visitor.
    Returns dict(cache=attr, key=expr text, visit=FuncInfo, hit_stores_results=bool, renew=[(FuncInfo, node)]) or None."""
    v = ix.resolve_method(uv, 'visit')
    if v is None or v.owner.name in ('AbstractAstVisitor',):
        return None
    nodep = v.node.args.args[1].arg
    memo = None
    vnode = _normalise_visit(v.node)
    for st in vnode.body:
        hit = _hit_test(st.test) if isinstance(st, ast.If) else None
        if hit is not None:
            cache = E.self_loc(hit[0])
            if cache is None:
                continue
            key = ast.unparse(hit[1]).replace(nodep, 'node')
            returns = [s for s in ast.walk(ast.Module(body=st.body, type_ignores=[])) if isinstance(s, ast.Return)]
            if not returns:
                continue
            # the value returned on a hit is read from the cache under the same key
            reads = [n for n in ast.walk(ast.Module(body=st.body, type_ignores=[])) if isinstance(n, ast.Subscript)
                     and isinstance(n.ctx, ast.Load) and E.self_loc(n.value) == cache
                     and ast.unparse(n.slice).replace(nodep, 'node') == key]
            stores_res = any(isinstance(n, ast.Subscript) and isinstance(n.ctx, ast.Store) and E.self_loc(n.value) == 'results'
                             for n in ast.walk(ast.Module(body=st.body, type_ignores=[])))
            memo = dict(cache=cache, key=key, visit=v, hit_reads_cache=bool(reads), hit_stores_results=stores_res, line=st.lineno)
            break
    if memo is None:
        return None
    # the miss path delegates and stores under the same key
    stored = False
    delegated = False
    for n in ast.walk(vnode):
        if isinstance(n, ast.Subscript) and isinstance(n.ctx, ast.Store) and E.self_loc(n.value) == memo['cache'] \
                and ast.unparse(n.slice).replace(nodep, 'node') == memo['key']:
            stored = True
        if isinstance(n, ast.Call) and D._delegation(ix, uv, v.owner, n) is not None:
            delegated = True
    memo['miss_stores'] = stored
    memo['delegates'] = delegated
    # renewal: some method on the visitor assigns the cache a fresh dict / clears it
    renew = []
    for c in ix.mro(uv):
        if not isinstance(c, ClassInfo):
            continue
        for name, f in c.methods.items():
            if name in ('__init__', 'visit'):
                continue
            for n in ast.walk(f.node):
                if isinstance(n, ast.Assign) and E.self_loc(n.targets[0]) == memo['cache']:
                    renew.append((f, n))
                if isinstance(n, ast.Call) and isinstance(n.func, ast.Attribute) and n.func.attr == 'clear' and E.self_loc(n.func.value) == memo['cache']:
                    renew.append((f, n))
    memo['renew'] = renew
    return memo


def check_step(ix, rep, mon, rule='R-STEP'):
    uv = ownrule._update_visitor(ix, mon)
    if uv is None:
        raise AnalysisError('no update visitor for %s' % mon.label)
    keys = _dict_key_exprs(ix, uv)
    slotp = mon.kind
    check_every_path_steps(ix, rep, uv, slotp, rule)
    check_no_swallow(ix, rep, mon, rule)
    check_update_every_path(ix, rep, mon, rule)
    # each of visitBinary/visitUnary steps its operator exactly once
    for meth, (key, f, n) in sorted(keys.items()):
        rep.analysed(f)
        rep.unit(f.module.rel)
        calls = _update_calls(f)
        if len(calls) != 1:
            rep.fail(rule, f.module.rel, f.qual, '%s:one-step' % slotp, '%s calls operator.update %d times' % (meth, len(calls)), f.node.lineno)
        else:
            rep.ok(rule, f.module.rel, f.qual, '%s:one-step' % slotp, 'exactly one operator.update per visit', f.node.lineno)
    kset = set(k for k, _, _ in keys.values())
    # construction key (checked by R-EXH to be node.name) must agree with the look-up key
    if len(kset) != 1:
        rep.fail(rule, uv.module.rel, uv.name, '%s:key' % slotp, 'visitBinary and visitUnary look operators up under different keys %s' % sorted(kset))
        return
    key = kset.pop()
    injective = key in ('node', 'id(node)')
    memo = find_memo(ix, uv)
    anyf = keys['visitBinary'][1]
    if memo is None:
        rep.fail(rule, anyf.module.rel, uv.name, '%s:memo' % slotp,
                 'operators are looked up under `%s` (%s) and sub-specification nodes are shared between assertions, but the '
                 'update visitor has no per-update memo: an operator reachable along two paths is stepped twice per update()'
                 % (key, 'the printed formula text: equal sub-formulas share one operator' if not injective else 'the node object'),
                 anyf.node.lineno)
        return
    v = memo['visit']
    rep.analysed(v)
    rep.unit(v.module.rel)
    probs = []
    if memo['key'] != key:
        probs.append('memo is keyed by `%s` but operators are keyed by `%s`: two nodes with one operator are not recognised as the same step'
                     % (memo['key'], key))
    if not memo['hit_reads_cache']:
        probs.append('on a memo hit the cached value is not what is returned')
    if not memo['miss_stores']:
        probs.append('the computed value is never stored in the memo')
    if not memo['delegates']:
        probs.append('the miss path does not delegate to the dispatching visit')
    if probs:
        for p in probs:
            rep.fail(rule, v.module.rel, v.qual, '%s:memo' % slotp, p, memo['line'])
    else:
        rep.ok(rule, v.module.rel, v.qual, '%s:memo' % slotp, 'visit memoises on `%s`, the operator key' % key, memo['line'])
    # renewed exactly on entry of each update(): update() calls updateVisitor.visitAst once; visitAst renews the cache
    upd = ix.resolve_method(mon.cls, 'update')
    rep.analysed(upd)
    entry_calls = [n for n in ast.walk(upd.node) if isinstance(n, ast.Call) and isinstance(n.func, ast.Attribute)
                   and E.self_loc(n.func.value) == 'updateVisitor']
    entry_names = {n.func.attr for n in entry_calls}
    renew_in_entry = [(f, n) for (f, n) in memo['renew'] if f.name in entry_names and ix.resolve_method(uv, f.name) is f]
    renew_in_update = any(isinstance(n, (ast.Assign, ast.Call)) and ('updateVisitor.' + memo['cache']) in ast.unparse(n) for n in ast.walk(upd.node))
    if (renew_in_entry or renew_in_update) and len(entry_calls) == 1:
        rep.ok(rule, v.module.rel, uv.name, '%s:memo-renewed' % slotp, 'the memo is renewed once per update()', (renew_in_entry[0][1].lineno if renew_in_entry else upd.node.lineno))
        # the renewal must dominate the traversal in the entry method
        for (f, n) in renew_in_entry:
            order_ok = True
            for c in ast.walk(f.node):
                if isinstance(c, ast.Call) and (D._delegation(ix, uv, f.owner, c) is not None or D._self_call(c) == 'visit'):
                    if _before(c, n):
                        order_ok = False
            if not order_ok:
                rep.fail(rule, f.module.rel, f.qual, '%s:memo-renewed-first' % slotp, 'the memo is renewed after the traversal started', n.lineno)
    else:
        rep.fail(rule, v.module.rel, uv.name, '%s:memo-renewed' % slotp,
                 'the memo `self.%s` is never renewed per update(): values of the previous update would be returned forever'
                 % memo['cache'], memo['line'])


def check_no_swallow(ix, rep, mon, rule='R-STEP'):
    """an exception raised while the operators are being stepped leaves update(): a handler around the traversal that goes on (returns a
    placeholder) keeps a monitor whose operators have been stepped *in part* -- the ones the walk had reached took the sample, the others did
    not, and which ones those are depends on the evaluation order (a sub-specification is a root of its own and is stepped before the assertion
    that refers to it; written in line it is stepped where it stands).  Handlers that end in `raise` (conversion of the exception type) are fine."""
    n = 0
    for meth in ('update', 'evaluate'):
        f = ix.resolve_method(mon.cls, meth)
        if f is None:
            continue
        for t in ast.walk(f.node):
            if not isinstance(t, ast.Try):
                continue
            body_calls = [c for st in t.body for c in ast.walk(st) if isinstance(c, ast.Call) and isinstance(c.func, ast.Attribute)
                          and c.func.attr in ('visitAst', 'visit', 'visitSpec', 'update')]
            if not body_calls:
                continue
            n += 1
            rep.analysed(f)
            slot = '%s:%s:swallow' % (mon.kind, meth)
            bad = [h for h in t.handlers if not (h.body and isinstance(h.body[-1], ast.Raise))]
            if bad:
                rep.fail(rule, f.module.rel, f.qual, slot, '%s() catches %s around the traversal and carries on: the operators the walk had not reached were not stepped for this sample, '
                         'so from the next sample on the monitor is no function of the samples fed (and a sub-specification, stepped as a root of its own, differs from its inlined '
                         'form)' % (meth, ast.unparse(bad[0].type) if bad[0].type is not None else 'every exception'), bad[0].lineno)
            else:
                rep.ok(rule, f.module.rel, f.qual, slot, 'exceptions raised by the traversal leave %s()' % meth, t.lineno)
    return n


def check_update_every_path(ix, rep, mon, rule='R-STEP'):
    """every update() steps the operators: each normal exit of the interpreter's update() is dominated by the traversal (`updateVisitor.visitAst`).
    A shortcut that answers without it (a repeated time-stamp taken for a re-delivered sample, an empty batch) leaves every stateful operator one
    sample behind for ever -- the i-th update no longer is the value at sample i."""
    f = ix.resolve_method(mon.cls, 'update')
    if f is None:
        return 0
    from sa import flow
    cfg = flow.CFG(f.node)
    dom = cfg.dominators()
    trav = [n for n in cfg.nodes() if cfg.stmt[n] is not None and not isinstance(cfg.stmt[n], (ast.If, ast.For, ast.While, ast.Try))
            and any(isinstance(c, ast.Call) and isinstance(c.func, ast.Attribute) and c.func.attr == 'visitAst' for c in ast.walk(cfg.stmt[n]))]
    rep.analysed(f)
    slot = '%s:update:every-path' % mon.kind
    if not trav:
        rep.fail(rule, f.module.rel, f.qual, slot, 'update() does not run the update visitor over the ast', f.node.lineno)
        return 1
    bad = None
    reach = cfg.reachable()
    for p in cfg.pred[cfg.exit]:
        if p in reach and not any(t in dom[p] or t == p for t in trav):
            bad = cfg.stmt[p] if cfg.stmt[p] is not None else f.node
    if bad is not None:
        rep.fail(rule, f.module.rel, f.qual, slot, 'update() can return (`%s`) without having run the update visitor: the operators are not stepped for that call, and every later '
                 'result is one sample behind' % ast.unparse(bad).split('\n')[0][:60], getattr(bad, 'lineno', f.node.lineno))
    else:
        rep.ok(rule, f.module.rel, f.qual, slot, 'every normal exit of update() is dominated by the traversal', f.node.lineno)
    return 1


def check_nested_steps(ix, rep, opclasses, label, rule='R-STEP'):
    """an online operation that is built from other operations (predicate = comparison over a subtraction, since[a,b] = once, historically, since, and)
    steps each of them once per update(): the sub-operations keep buffers and the attributes derived classes read (the interface-aware predicate reads
    `subtraction_output`).  Every normal exit of update() is dominated by the `.update(...)` of each sub-operation, except for sub-operations whose
    call sits under a test on configuration only (`if self.begin > 0`)."""
    from sa import flow
    n = 0
    for qn, cls in sorted(opclasses.items()):
        init = cls.methods.get('__init__')
        upd = cls.methods.get('update')
        if init is None or upd is None:
            continue
        subs = []
        for st in ast.walk(init.node):
            if isinstance(st, ast.Assign) and len(st.targets) == 1 and isinstance(st.targets[0], ast.Attribute) and isinstance(st.targets[0].value, ast.Name) \
                    and st.targets[0].value.id == 'self' and isinstance(st.value, ast.Call):
                ent = ix.resolve_expr(init.module, st.value.func)
                if hasattr(ent, 'methods') and ix.resolve_method(ent, 'update') is not None:
                    subs.append(st.targets[0].attr)
        if not subs:
            continue
        rep.analysed(upd)
        cfg = flow.CFG(upd.node)
        dom = cfg.dominators()
        parents = {}
        for p in ast.walk(upd.node):
            for c in ast.iter_child_nodes(p):
                parents[id(c)] = p
        for sname in subs:
            calls = [c for c in ast.walk(upd.node) if isinstance(c, ast.Call) and isinstance(c.func, ast.Attribute) and c.func.attr == 'update'
                     and ast.unparse(c.func.value) == 'self.%s' % sname]
            if not calls:
                continue            # stepped elsewhere (update_final) or a helper object: not this rule's business
            n += 1
            # configuration-conditional?
            conf_only = True
            for c in calls:
                q = c
                while id(q) in parents:
                    par = parents[id(q)]
                    if isinstance(par, ast.If) and q is not par.test:
                        names = {x.attr for x in ast.walk(par.test) if isinstance(x, ast.Attribute) and isinstance(x.value, ast.Name) and x.value.id == 'self'} | \
                                {x.id for x in ast.walk(par.test) if isinstance(x, ast.Name)}
                        if not names <= {'begin', 'end', 'self'}:
                            conf_only = False
                    q = par
            stmts = set()
            for c in calls:
                stc = c
                while id(stc) in parents and cfg.node(stc) is None:
                    stc = parents[id(stc)]
                if cfg.node(stc) is not None:
                    stmts.add(cfg.node(stc))
            unconditional = all(isinstance(parents.get(id(c)), (ast.Assign, ast.Expr, ast.Return)) and parents[id(parents[id(c)])] is upd.node for c in calls) if calls else False
            bad = None
            if not (conf_only and not unconditional and all(_under_config_if(c, parents, upd.node) for c in calls)):
                for p_ in cfg.pred[cfg.exit]:
                    if p_ in cfg.reachable() and not (dom[p_] & stmts):
                        bad = cfg.stmt[p_] if cfg.stmt[p_] is not None else upd.node
            slot = '%s:nested:%s.%s' % (label, cls.name, sname)
            if bad is None:
                rep.ok(rule, upd.module.rel, '%s.update' % cls.name, slot, 'self.%s is stepped on every path (or under a test on the bounds only)' % sname, upd.node.lineno)
            else:
                rep.fail(rule, upd.module.rel, '%s.update' % cls.name, slot, 'update() can return (line %d) without stepping self.%s: the sub-operation misses that chunk, and whatever was '
                         'derived from its last result (e.g. `subtraction_output`, which the interface-aware predicate re-reads in sat()) is the previous update\'s -- old samples are '
                         'emitted again' % (getattr(bad, 'lineno', upd.node.lineno), sname), getattr(bad, 'lineno', upd.node.lineno))
    return n


def _under_config_if(c, parents, fnode):
    q = c
    while id(q) in parents:
        par = parents[id(q)]
        if isinstance(par, ast.If) and q is not par.test:
            return True
        q = par
    return False


def check_buffer_every_path(ix, rep, opclasses, label, rule='R-STEP'):
    """a ring-buffer operation (`deque(maxlen=...)`) is a shift register: every update() moves it by exactly one sample.  An exit of update() that
    is not dominated by the append (an early return for a "saturated" input, say) leaves the register one sample behind: every later window is
    read at the wrong offset, and for a window that does not contain the newest sample (begin > 0 -- every delay element the pastifier emits) the
    early value was wrong to begin with."""
    from sa import flow
    n = 0
    for qn, cls in sorted(opclasses.items()):
        init = cls.methods.get('__init__')
        upd = cls.methods.get('update')
        if init is None or upd is None:
            continue
        bufs = []
        for st in ast.walk(init.node):
            if isinstance(st, ast.Assign) and len(st.targets) == 1 and isinstance(st.targets[0], ast.Attribute) and isinstance(st.targets[0].value, ast.Name) \
                    and st.targets[0].value.id == 'self' and isinstance(st.value, ast.Call) and ast.unparse(st.value.func).endswith('deque'):
                bufs.append(st.targets[0].attr)
        if not bufs:
            continue
        rep.analysed(upd)
        cfg = flow.CFG(upd.node)
        dom = cfg.dominators()
        parents = {}
        for p in ast.walk(upd.node):
            for c in ast.iter_child_nodes(p):
                parents[id(c)] = p
        for b in bufs:
            calls = [c for c in ast.walk(upd.node) if isinstance(c, ast.Call) and isinstance(c.func, ast.Attribute) and c.func.attr in ('append', 'appendleft')
                     and ast.unparse(c.func.value) == 'self.%s' % b]
            if not calls:
                continue
            n += 1
            stmts = set()
            for c in calls:
                stc = c
                while id(stc) in parents and cfg.node(stc) is None:
                    stc = parents[id(stc)]
                if cfg.node(stc) is not None:
                    stmts.add(cfg.node(stc))
            bad = None
            for p_ in cfg.pred[cfg.exit]:
                if p_ in cfg.reachable() and not (dom[p_] & stmts):
                    bad = cfg.stmt[p_] if cfg.stmt[p_] is not None else upd.node
            slot = '%s:shift:%s.%s' % (label, cls.name, b)
            if bad is None and len(calls) == 1:
                rep.ok(rule, upd.module.rel, '%s.update' % cls.name, slot, 'exactly one append on every path', upd.node.lineno)
            elif bad is None:
                rep.ok(rule, upd.module.rel, '%s.update' % cls.name, slot, 'an append dominates every exit', upd.node.lineno)
            else:
                rep.fail(rule, upd.module.rel, '%s.update' % cls.name, slot, 'update() can return (line %d) without appending the sample to self.%s: the ring buffer is a shift register, a '
                         'skipped sample puts every later window at the wrong offset; and an early result for a window that does not contain the newest sample (begin > 0, e.g. the '
                         'once[d,d] delays pastify() emits) is not that window\'s value' % (getattr(bad, 'lineno', upd.node.lineno), b), getattr(bad, 'lineno', upd.node.lineno))
    return n
