"""R-SHIFT -- the interval helpers of the explainer, decided as set transformers.

`explain_prev` / `explain_next` translate "which samples of prev(phi)/next(phi) matter" into "which samples of phi matter".  With the
requested set S a union of integer intervals [b,e], 0 <= b <= e <= n-1 (n = number of samples), the operand's set has to be

        { x + d  |  x in S } intersected with [0, n-1]              d = -1 (prev, rise, fall)   d = +1 (next)

The helper is read as a guarded list of output intervals per input interval (loop with if/elif arms appending [lo, hi], or a
comprehension with a filter; lo/hi affine in b, e, n, possibly under max/min), and "x is in some output interval" is compared with
"b <= x - d <= e and 0 <= x <= n-1" for a symbolic integer x: both implications are refuted by Fourier-Motzkin elimination (unit
coefficients: rational and integer feasibility coincide).  No sample values are involved: the set is decided for every n, b, e at once.
"""
import ast
import itertools

from sa.window import Aff, _infeasible


class Unknown(Exception):
    pass


class Helper(object):
    def __init__(self, disjuncts, bname, ename):
        self.disjuncts = disjuncts      # list of lists of Aff (each >= 0) over symbols b, e, n, x


def _affine(e, env):
    if isinstance(e, ast.Constant) and isinstance(e.value, int) and not isinstance(e.value, bool):
        return Aff.const(e.value)
    if isinstance(e, ast.Name):
        if e.id in env and not isinstance(env[e.id], tuple):
            return env[e.id]
        raise Unknown('name %s' % e.id)
    if isinstance(e, ast.Call) and isinstance(e.func, ast.Name) and e.func.id == 'len' and len(e.args) == 1 and isinstance(e.args[0], ast.Name) and env.get('#signal') == e.args[0].id:
        return Aff.sym('n')
    if isinstance(e, ast.BinOp) and isinstance(e.op, (ast.Add, ast.Sub)):
        l, r = _affine(e.left, env), _affine(e.right, env)
        return l + r if isinstance(e.op, ast.Add) else l - r
    if isinstance(e, ast.UnaryOp) and isinstance(e.op, ast.USub):
        return -_affine(e.operand, env)
    if isinstance(e, ast.Call) and isinstance(e.func, ast.Name) and e.func.id == 'int' and len(e.args) == 1 and not e.keywords:
        return _affine(e.args[0], env)      # bounds arrive as whole numbers of samples
    raise Unknown(ast.unparse(e)[:40])


def _bound(e, env, lower):
    """a bound expression -> list of alternatives, each a list of Aff A meaning x >= A (lower) / x <= A (upper)
    max in a lower bound / min in an upper bound are conjunctions; the other way round a disjunction"""
    if isinstance(e, ast.Name) and isinstance(env.get(e.id), tuple) and env[e.id][0] == 'expr':
        return _bound(env[e.id][1], env[e.id][2], lower)
    if isinstance(e, ast.Call) and isinstance(e.func, ast.Name) and e.func.id in ('max', 'min') and len(e.args) >= 2 and not e.keywords:
        parts = [_bound(a, env, lower) for a in e.args]
        conj = (e.func.id == 'max') == lower
        if conj:
            return [sum(combo, []) for combo in itertools.product(*parts)]
        return [alt for p in parts for alt in p]
    return [[_affine(e, env)]]


def _cond(t, env):
    """condition -> DNF: list of conjunctions (lists of Aff >= 0)"""
    if isinstance(t, ast.BoolOp):
        parts = [_cond(v, env) for v in t.values]
        if isinstance(t.op, ast.And):
            return [sum(combo, []) for combo in itertools.product(*parts)]
        return [c for p in parts for c in p]
    if isinstance(t, ast.UnaryOp) and isinstance(t.op, ast.Not):
        return _negate(_cond(t.operand, env))
    if isinstance(t, ast.Compare):
        out = [[]]
        left = t.left
        for op, right in zip(t.ops, t.comparators):
            l, r = _affine(left, env), _affine(right, env)
            if isinstance(op, ast.Lt):
                alts = [[r - l - 1]]
            elif isinstance(op, ast.LtE):
                alts = [[r - l]]
            elif isinstance(op, ast.Gt):
                alts = [[l - r - 1]]
            elif isinstance(op, ast.GtE):
                alts = [[l - r]]
            elif isinstance(op, ast.Eq):
                alts = [[l - r, r - l]]
            elif isinstance(op, ast.NotEq):
                alts = [[l - r - 1], [r - l - 1]]
            else:
                raise Unknown(ast.unparse(t)[:40])
            out = [a + b for a in out for b in alts]
            left = right
        return out
    if isinstance(t, ast.Constant) and t.value is True:
        return [[]]
    raise Unknown(ast.unparse(t)[:40])


def _negate(dnf):
    """not (C1 or C2 ..) = and_i (or_k not a_ik)  -> DNF again"""
    res = [[]]
    for conj in dnf:
        alts = [[(-a) - 1] for a in conj]
        if not alts:
            return []         # negation of True
        res = [r + a for r in res for a in alts]
    return res


def read_helper(fnode):
    """-> list of disjuncts (each a list of Aff >= 0 over b, e, n, x) describing `x in output` for one input interval [b, e]"""
    params = [a.arg for a in fnode.args.args]
    if len(params) not in (2, 4):
        raise Unknown('helper takes %d parameters' % len(params))
    env = {'#signal': params[0]}
    ivs = params[1]
    if len(params) == 4:
        # the bounds of a timed operator, in samples: 0 <= A <= B
        env[params[2]] = Aff.sym('A')
        env[params[3]] = Aff.sym('B')
    x = Aff.sym('x')
    outs = []

    def emit(conds, pair):
        if not (isinstance(pair, (ast.List, ast.Tuple)) and len(pair.elts) == 2):
            raise Unknown('appended value %s' % ast.unparse(pair)[:40])
        for lo in _bound(pair.elts[0], envl, True):
            for hi in _bound(pair.elts[1], envl, False):
                for c in conds:
                    outs.append(list(c) + [x - a for a in lo] + [a - x for a in hi])

    body = [s for s in fnode.body if not (isinstance(s, ast.Expr) and isinstance(s.value, ast.Constant))]
    acc = None
    envl = env
    def union_arg(v):
        # interval_union(X) denotes the same set of samples as X
        if isinstance(v, ast.Call) and isinstance(v.func, ast.Name) and v.func.id == 'interval_union' and len(v.args) == 1:
            return v.args[0]
        return v

    def pick(stmts):
        """`begin, end = intervals[-1]` (or [0]) followed by appends: read as the same statements for every requested interval.  Whether one
        interval may stand for all (only `end` of the last, only `begin` of the first) is R-EXPL-ALL's question"""
        for k, q in enumerate(stmts):
            if isinstance(q, ast.Assign) and len(q.targets) == 1 and isinstance(q.targets[0], (ast.Tuple, ast.List)) and len(q.targets[0].elts) == 2 \
                    and isinstance(q.value, ast.Subscript) and isinstance(q.value.value, ast.Name) and q.value.value.id == ivs:
                el = dict(env)
                el[q.targets[0].elts[0].id] = Aff.sym('b')
                el[q.targets[0].elts[1].id] = Aff.sym('e')
                return el, stmts[k + 1:]
        return None
    for st in body:
        if isinstance(st, ast.Assign) and len(st.targets) == 1 and isinstance(st.targets[0], ast.Name):
            if isinstance(st.value, ast.List) and not st.value.elts:
                acc = st.targets[0].id
                continue
            if acc is not None and st.targets[0].id == acc and isinstance(union_arg(st.value), ast.Name) and union_arg(st.value).id == acc:
                continue        # acc = interval_union(acc)
            env[st.targets[0].id] = _affine(st.value, env)
            continue
        if isinstance(st, ast.If) and not st.orelse and isinstance(st.test, ast.Name) and st.test.id == ivs and pick(st.body) is not None:
            # if intervals: begin, end = intervals[-1]; acc.append([..])
            envl, rest = pick(st.body)
            _arms(rest, [[]], envl, acc, emit)
            continue
        if isinstance(st, ast.If) and isinstance(st.test, ast.UnaryOp) and isinstance(st.test.op, ast.Not) and isinstance(st.test.operand, ast.Name) \
                and st.test.operand.id == ivs and len(st.body) == 1 and isinstance(st.body[0], ast.Return) and isinstance(st.body[0].value, ast.List) and not st.body[0].value.elts:
            continue            # if not intervals: return []   -- nothing requested, nothing returned
        if isinstance(st, ast.For) and isinstance(st.iter, ast.Name) and st.iter.id == ivs and isinstance(st.target, (ast.Tuple, ast.List)) and len(st.target.elts) == 2:
            envl = dict(env)
            envl[st.target.elts[0].id] = Aff.sym('b')
            envl[st.target.elts[1].id] = Aff.sym('e')
            _arms(st.body, [[]], envl, acc, emit)
            continue
        if isinstance(st, ast.Return):
            v = union_arg(st.value)
            if isinstance(v, ast.Name) and v.id == acc:
                return outs
            if isinstance(v, ast.List) and len(v.elts) == 1 and isinstance(v.elts[0], (ast.List, ast.Tuple)) and len(v.elts[0].elts) == 2:
                # return [[lo, hi]] with lo / hi built from intervals[-1][k] / intervals[0][k]: one output interval per request, read per request
                class _P(ast.NodeTransformer):
                    def visit_Subscript(self, n_):
                        self.generic_visit(n_)
                        if isinstance(n_.value, ast.Subscript) and isinstance(n_.value.value, ast.Name) and n_.value.value.id == ivs and isinstance(n_.slice, ast.Constant) \
                                and n_.slice.value in (0, 1):
                            return ast.copy_location(ast.Name(id='__b' if n_.slice.value == 0 else '__e', ctx=ast.Load()), n_)
                        return n_
                import copy as _copy
                pair = _P().visit(_copy.deepcopy(v.elts[0]))
                envl = dict(env)
                envl['__b'] = Aff.sym('b')
                envl['__e'] = Aff.sym('e')
                emit([[]], pair)
                return outs
            if isinstance(v, ast.Name) and v.id == ivs:
                return [[x - Aff.sym('b'), Aff.sym('e') - x]]
            if isinstance(v, ast.ListComp) and len(v.generators) == 1:
                g = v.generators[0]
                if isinstance(g.iter, ast.Name) and g.iter.id == ivs and isinstance(g.target, (ast.Tuple, ast.List)) and len(g.target.elts) == 2:
                    envl = dict(env)
                    envl[g.target.elts[0].id] = Aff.sym('b')
                    envl[g.target.elts[1].id] = Aff.sym('e')
                    conds = [[]]
                    for c in g.ifs:
                        conds = [a + b for a in conds for b in _cond(c, envl)]
                    emit(conds, v.elt)
                    return outs
            raise Unknown('return %s' % ast.unparse(v)[:40])
        raise Unknown('statement %s' % ast.unparse(st)[:40])
    raise Unknown('no return')


def _arms(stmts, pre, env, acc, emit):
    """statements of the loop body under the path conditions `pre` (DNF)"""
    for st in stmts:
        if isinstance(st, ast.If):
            c = _cond(st.test, env)
            _arms(st.body, [a + b for a in pre for b in c], env, acc, emit)
            neg = _negate(c)
            rest = [a + b for a in pre for b in neg]
            if st.orelse:
                _arms(st.orelse, rest, env, acc, emit)
            continue
        if isinstance(st, ast.Expr) and isinstance(st.value, ast.Call) and isinstance(st.value.func, ast.Attribute) and st.value.func.attr == 'append' \
                and isinstance(st.value.func.value, ast.Name) and st.value.func.value.id == acc and len(st.value.args) == 1:
            emit(pre, st.value.args[0])
            continue
        if isinstance(st, (ast.Pass, ast.Continue)):
            continue
        if isinstance(st, ast.Assign) and len(st.targets) == 1 and isinstance(st.targets[0], ast.Name):
            try:
                env[st.targets[0].id] = _affine(st.value, env)
            except Unknown:
                # a clipped bound (`lo = max(begin - b, 0)`): kept as an expression, opened where it is used as a bound
                env[st.targets[0].id] = ('expr', st.value, dict(env))
            continue
        raise Unknown('loop statement %s' % ast.unparse(st)[:40])


def _pre():
    b, e, n = Aff.sym('b'), Aff.sym('e'), Aff.sym('n')
    return [b, e - b, n - 1 - e]


def _ref(d):
    b, e, n, x = Aff.sym('b'), Aff.sym('e'), Aff.sym('n'), Aff.sym('x')
    return [x - d - b, e - (x - d), x, n - 1 - x]


def equivalent(disjuncts, d):
    """None if `x in output` <=> shift-by-d reference under the precondition, else a text describing the direction that fails"""
    P = _pre()
    R = _ref(d)
    # impl => ref
    for D in disjuncts:
        if _infeasible(P + D):
            continue
        for a in R:
            if not _infeasible(P + D + [(-a) - 1]):
                return 'too-many'
    # ref => impl
    live = [D for D in disjuncts if not _infeasible(P + D)]
    if not live:
        return None if _infeasible(P + R) else 'too-few'
    for combo in itertools.product(*[[(-a) - 1 for a in D] for D in live]):
        if not _infeasible(P + R + list(combo)):
            return 'too-few'
    return None


def _pre_timed():
    A, B = Aff.sym('A'), Aff.sym('B')
    return _pre() + [A, B - A]


def same_set(dj1, dj2, timed=False):
    """None if the two descriptions denote the same samples for every request, else 'first-has-more' / 'second-has-more'"""
    P = _pre_timed() if timed else _pre()

    def implies(Ds, Es):
        live = [E for E in Es if not _infeasible(P + E)]
        for D in Ds:
            if _infeasible(P + D):
                continue
            if not live:
                return False
            ok = True
            for combo in itertools.product(*[[(-a) - 1 for a in E] for E in live]):
                if not _infeasible(P + D + list(combo)):
                    ok = False
                    break
            if not ok:
                return False
        return True
    if not implies(dj1, dj2):
        return 'first-has-more'
    if not implies(dj2, dj1):
        return 'second-has-more'
    return None


def timed_reference(direction):
    """the samples a bounded operator over [A, B] evaluated on the request [b, e] reads: [b-B, e-A] clipped at 0 (past), [b+A, e+B] clipped at n-1 (future)"""
    b, e, n, x, A, B = Aff.sym('b'), Aff.sym('e'), Aff.sym('n'), Aff.sym('x'), Aff.sym('A'), Aff.sym('B')
    if direction == 'past':
        # x >= max(b - B, 0), x <= max(e - A, 0)
        return [[x - (b - B), x, (e - A) - x], [x - (b - B), x, -x, -(e - A) - Aff.const(1)]]
    last = n - Aff.const(1)
    # x >= min(b + A, last), x <= min(e + B, last)
    return [[x - (b + A), (e + B) - x, last - x], [x - last, (e + B) - x, last - x], [x - (b + A), (b + A) - last - Aff.const(1), last - x, x - last]]


def read_scan_window(fnode):
    """a helper that scans part of the signal for each request (`for i in range(lo, hi + 1)` inside the loop over the requests): the scanned
    positions as disjuncts over b, e, n, A, B, x"""
    params = [a.arg for a in fnode.args.args]
    if len(params) != 4:
        raise Unknown('not a bounded helper')
    env = {'#signal': params[0], params[2]: Aff.sym('A'), params[3]: Aff.sym('B')}
    x = Aff.sym('x')
    for st in fnode.body:
        if isinstance(st, ast.Assign) and len(st.targets) == 1 and isinstance(st.targets[0], ast.Name) and not (isinstance(st.value, ast.List)):
            try:
                env[st.targets[0].id] = _affine(st.value, env)
            except Unknown:
                pass
        if isinstance(st, ast.For) and isinstance(st.iter, ast.Name) and st.iter.id == params[1] and isinstance(st.target, (ast.Tuple, ast.List)) and len(st.target.elts) == 2:
            el = dict(env)
            el[st.target.elts[0].id] = Aff.sym('b')
            el[st.target.elts[1].id] = Aff.sym('e')
            for q in st.body:
                if isinstance(q, ast.Assign) and len(q.targets) == 1 and isinstance(q.targets[0], ast.Name):
                    try:
                        el[q.targets[0].id] = _affine(q.value, el)
                    except Unknown:
                        el[q.targets[0].id] = ('expr', q.value, dict(el))
                if isinstance(q, ast.For) and isinstance(q.iter, ast.Call) and isinstance(q.iter.func, ast.Name) and q.iter.func.id == 'range' and len(q.iter.args) == 2:
                    lo_alts = _bound(q.iter.args[0], el, True)
                    hi_e = q.iter.args[1]
                    # range(lo, hi + 1): positions lo .. hi
                    if isinstance(hi_e, ast.BinOp) and isinstance(hi_e.op, ast.Add) and isinstance(hi_e.right, ast.Constant) and hi_e.right.value == 1:
                        hi_alts = _bound(hi_e.left, el, False)
                        shift = 0
                    else:
                        hi_alts = _bound(hi_e, el, False)
                        shift = 1
                    outs = []
                    for lo in lo_alts:
                        for hi in hi_alts:
                            outs.append([x - a_ for a_ in lo] + [a_ - Aff.const(shift) - x for a_ in hi])
                    return outs
    raise Unknown('no scan over the signal per request')


def _rename(dj, m):
    out = []
    for D in dj:
        nd = []
        for a in D:
            nd.append(Aff({m.get(k, k): v for k, v in a.c.items()}, a.k))
        out.append(nd)
    return out


def pick_covers_all(dj, which, timed=False):
    """a helper that looks at one requested interval only (the last / the first) and is read per request as `dj`: it honours every request
    iff what it selects for an earlier (later) request is contained in what it selects for the last (first) one.  Requests are disjoint and
    sorted: e1 < b2."""
    r1 = {'b': 'b1', 'e': 'e1'}
    r2 = {'b': 'b2', 'e': 'e2'}
    d1, d2 = _rename(dj, r1), _rename(dj, r2)
    b1, e1, b2, e2, n = Aff.sym('b1'), Aff.sym('e1'), Aff.sym('b2'), Aff.sym('e2'), Aff.sym('n')
    P = [b1, e1 - b1, b2 - e1 - Aff.const(1), e2 - b2, n - Aff.const(1) - e2]
    if timed:
        P += [Aff.sym('A'), Aff.sym('B') - Aff.sym('A')]
    small, big = (d1, d2) if which == 'last' else (d2, d1)
    live = [E for E in big if not _infeasible(P + E)]
    for D in small:
        if _infeasible(P + D):
            continue
        if not live:
            return False
        for combo in itertools.product(*[[(-a) - 1 for a in E] for E in live]):
            if not _infeasible(P + D + list(combo)):
                return False
    return True


def witness(disjuncts, d, nmax=4):
    """small concrete (n, b, e, x) on which the helper's set and the reference differ (evaluating the constraint systems, not the code)"""
    def val(a, m):
        return sum(v * m[s] for s, v in a.c.items()) + a.k
    for n in range(1, nmax + 1):
        for b in range(n):
            for e in range(b, n):
                for x in range(-1, n + 1):
                    m = {'n': n, 'b': b, 'e': e, 'x': x}
                    impl = any(all(val(a, m) >= 0 for a in D) for D in disjuncts)
                    ref = all(val(a, m) >= 0 for a in _ref(d))
                    if impl != ref:
                        return n, b, e, x, impl
    return None


def classify(fnode):
    """-> (d, None) when the helper is the clipped shift by d in {-1, 0, +1}; (None, disjuncts) otherwise"""
    dj = read_helper(fnode)
    for d in (0, -1, 1):
        if equivalent(dj, d) is None:
            return d, dj
    return None, dj


POSITIVE = '''
def explain_prev(op_signal, intervals):
    return [[max(begin - 1, 0), end - 1] for begin, end in intervals if begin > 0]
'''
NEGATIVE = '''
def explain_prev(op_signal, intervals):
    return [[max(begin - 1, 0), end - 1] for begin, end in intervals if end > 0]
'''
NEGATIVE2 = '''
def explain_next(op_signal, intervals):
    last = len(op_signal) - 1
    return [[begin + 1, min(end + 1, last)] for begin, end in intervals if begin < last]
'''


def self_test():
    p = classify(ast.parse(POSITIVE).body[0])[0]
    q = classify(ast.parse(NEGATIVE).body[0])[0]
    r = classify(ast.parse(NEGATIVE2).body[0])[0]
    return p is None and q == -1 and r == 1
