"""R-SHIFT -- the interval helpers of the explainer, decided as set transformers.

`explain_prev` / `explain_next` translate "which samples of prev(phi)/next(phi) matter" into "which samples of phi matter".  With the
requested set S a union of integer intervals [b,e], 0 <= b <= e <= n-1 (n = number of samples), the operand's set has to be

        { x + d  |  x in S } intersected with [0, n-1]              d = -1 (prev, rise, fall)   d = +1 (next)

The helper is read as a guarded list of output intervals per input interval (loop with if/elif arms appending [lo, hi], or a
comprehension with a filter; lo/hi affine in b, e, n, possibly under max/min), and "x is in some output interval" is compared with
"b <= x - d <= e and 0 <= x <= n-1" for a symbolic integer x: both implications are refuted by Fourier-Motzkin elimination (unit
coefficients: rational and integer feasibility coincide).  No sample values are involved: the set is decided for every n, b, e at once.
"""
import ast
import itertools

from sa.window import Aff, _infeasible


class Unknown(Exception):
    pass


class Helper(object):
    def __init__(self, disjuncts, bname, ename):
        self.disjuncts = disjuncts      # list of lists of Aff (each >= 0) over symbols b, e, n, x


def _affine(e, env):
    if isinstance(e, ast.Constant) and isinstance(e.value, int) and not isinstance(e.value, bool):
        return Aff.const(e.value)
    if isinstance(e, ast.Name):
        if e.id in env:
            return env[e.id]
        raise Unknown('name %s' % e.id)
    if isinstance(e, ast.Call) and isinstance(e.func, ast.Name) and e.func.id == 'len' and len(e.args) == 1 and isinstance(e.args[0], ast.Name) and env.get('#signal') == e.args[0].id:
        return Aff.sym('n')
    if isinstance(e, ast.BinOp) and isinstance(e.op, (ast.Add, ast.Sub)):
        l, r = _affine(e.left, env), _affine(e.right, env)
        return l + r if isinstance(e.op, ast.Add) else l - r
    if isinstance(e, ast.UnaryOp) and isinstance(e.op, ast.USub):
        return -_affine(e.operand, env)
    raise Unknown(ast.unparse(e)[:40])


def _bound(e, env, lower):
    """a bound expression -> list of alternatives, each a list of Aff A meaning x >= A (lower) / x <= A (upper)
    max in a lower bound / min in an upper bound are conjunctions; the other way round a disjunction"""
    if isinstance(e, ast.Call) and isinstance(e.func, ast.Name) and e.func.id in ('max', 'min') and len(e.args) >= 2 and not e.keywords:
        parts = [_bound(a, env, lower) for a in e.args]
        conj = (e.func.id == 'max') == lower
        if conj:
            return [sum(combo, []) for combo in itertools.product(*parts)]
        return [alt for p in parts for alt in p]
    return [[_affine(e, env)]]


def _cond(t, env):
    """condition -> DNF: list of conjunctions (lists of Aff >= 0)"""
    if isinstance(t, ast.BoolOp):
        parts = [_cond(v, env) for v in t.values]
        if isinstance(t.op, ast.And):
            return [sum(combo, []) for combo in itertools.product(*parts)]
        return [c for p in parts for c in p]
    if isinstance(t, ast.UnaryOp) and isinstance(t.op, ast.Not):
        return _negate(_cond(t.operand, env))
    if isinstance(t, ast.Compare):
        out = [[]]
        left = t.left
        for op, right in zip(t.ops, t.comparators):
            l, r = _affine(left, env), _affine(right, env)
            if isinstance(op, ast.Lt):
                alts = [[r - l - 1]]
            elif isinstance(op, ast.LtE):
                alts = [[r - l]]
            elif isinstance(op, ast.Gt):
                alts = [[l - r - 1]]
            elif isinstance(op, ast.GtE):
                alts = [[l - r]]
            elif isinstance(op, ast.Eq):
                alts = [[l - r, r - l]]
            elif isinstance(op, ast.NotEq):
                alts = [[l - r - 1], [r - l - 1]]
            else:
                raise Unknown(ast.unparse(t)[:40])
            out = [a + b for a in out for b in alts]
            left = right
        return out
    if isinstance(t, ast.Constant) and t.value is True:
        return [[]]
    raise Unknown(ast.unparse(t)[:40])


def _negate(dnf):
    """not (C1 or C2 ..) = and_i (or_k not a_ik)  -> DNF again"""
    res = [[]]
    for conj in dnf:
        alts = [[(-a) - 1] for a in conj]
        if not alts:
            return []         # negation of True
        res = [r + a for r in res for a in alts]
    return res


def read_helper(fnode):
    """-> list of disjuncts (each a list of Aff >= 0 over b, e, n, x) describing `x in output` for one input interval [b, e]"""
    params = [a.arg for a in fnode.args.args]
    if len(params) != 2:
        raise Unknown('helper takes %d parameters' % len(params))
    env = {'#signal': params[0]}
    ivs = params[1]
    x = Aff.sym('x')
    outs = []

    def emit(conds, pair):
        if not (isinstance(pair, (ast.List, ast.Tuple)) and len(pair.elts) == 2):
            raise Unknown('appended value %s' % ast.unparse(pair)[:40])
        for lo in _bound(pair.elts[0], envl, True):
            for hi in _bound(pair.elts[1], envl, False):
                for c in conds:
                    outs.append(list(c) + [x - a for a in lo] + [a - x for a in hi])

    body = [s for s in fnode.body if not (isinstance(s, ast.Expr) and isinstance(s.value, ast.Constant))]
    acc = None
    envl = env
    for st in body:
        if isinstance(st, ast.Assign) and len(st.targets) == 1 and isinstance(st.targets[0], ast.Name):
            if isinstance(st.value, ast.List) and not st.value.elts:
                acc = st.targets[0].id
                continue
            env[st.targets[0].id] = _affine(st.value, env)
            continue
        if isinstance(st, ast.For) and isinstance(st.iter, ast.Name) and st.iter.id == ivs and isinstance(st.target, (ast.Tuple, ast.List)) and len(st.target.elts) == 2:
            envl = dict(env)
            envl[st.target.elts[0].id] = Aff.sym('b')
            envl[st.target.elts[1].id] = Aff.sym('e')
            _arms(st.body, [[]], envl, acc, emit)
            continue
        if isinstance(st, ast.Return):
            v = st.value
            if isinstance(v, ast.Name) and v.id == acc:
                return outs
            if isinstance(v, ast.Name) and v.id == ivs:
                return [[x - Aff.sym('b'), Aff.sym('e') - x]]
            if isinstance(v, ast.ListComp) and len(v.generators) == 1:
                g = v.generators[0]
                if isinstance(g.iter, ast.Name) and g.iter.id == ivs and isinstance(g.target, (ast.Tuple, ast.List)) and len(g.target.elts) == 2:
                    envl = dict(env)
                    envl[g.target.elts[0].id] = Aff.sym('b')
                    envl[g.target.elts[1].id] = Aff.sym('e')
                    conds = [[]]
                    for c in g.ifs:
                        conds = [a + b for a in conds for b in _cond(c, envl)]
                    emit(conds, v.elt)
                    return outs
            raise Unknown('return %s' % ast.unparse(v)[:40])
        raise Unknown('statement %s' % ast.unparse(st)[:40])
    raise Unknown('no return')


def _arms(stmts, pre, env, acc, emit):
    """statements of the loop body under the path conditions `pre` (DNF)"""
    for st in stmts:
        if isinstance(st, ast.If):
            c = _cond(st.test, env)
            _arms(st.body, [a + b for a in pre for b in c], env, acc, emit)
            neg = _negate(c)
            rest = [a + b for a in pre for b in neg]
            if st.orelse:
                _arms(st.orelse, rest, env, acc, emit)
            continue
        if isinstance(st, ast.Expr) and isinstance(st.value, ast.Call) and isinstance(st.value.func, ast.Attribute) and st.value.func.attr == 'append' \
                and isinstance(st.value.func.value, ast.Name) and st.value.func.value.id == acc and len(st.value.args) == 1:
            emit(pre, st.value.args[0])
            continue
        if isinstance(st, (ast.Pass, ast.Continue)):
            continue
        if isinstance(st, ast.Assign) and len(st.targets) == 1 and isinstance(st.targets[0], ast.Name):
            env[st.targets[0].id] = _affine(st.value, env)
            continue
        raise Unknown('loop statement %s' % ast.unparse(st)[:40])


def _pre():
    b, e, n = Aff.sym('b'), Aff.sym('e'), Aff.sym('n')
    return [b, e - b, n - 1 - e]


def _ref(d):
    b, e, n, x = Aff.sym('b'), Aff.sym('e'), Aff.sym('n'), Aff.sym('x')
    return [x - d - b, e - (x - d), x, n - 1 - x]


def equivalent(disjuncts, d):
    """None if `x in output` <=> shift-by-d reference under the precondition, else a text describing the direction that fails"""
    P = _pre()
    R = _ref(d)
    # impl => ref
    for D in disjuncts:
        if _infeasible(P + D):
            continue
        for a in R:
            if not _infeasible(P + D + [(-a) - 1]):
                return 'too-many'
    # ref => impl
    live = [D for D in disjuncts if not _infeasible(P + D)]
    if not live:
        return None if _infeasible(P + R) else 'too-few'
    for combo in itertools.product(*[[(-a) - 1 for a in D] for D in live]):
        if not _infeasible(P + R + list(combo)):
            return 'too-few'
    return None


def witness(disjuncts, d, nmax=4):
    """small concrete (n, b, e, x) on which the helper's set and the reference differ (evaluating the constraint systems, not the code)"""
    def val(a, m):
        return sum(v * m[s] for s, v in a.c.items()) + a.k
    for n in range(1, nmax + 1):
        for b in range(n):
            for e in range(b, n):
                for x in range(-1, n + 1):
                    m = {'n': n, 'b': b, 'e': e, 'x': x}
                    impl = any(all(val(a, m) >= 0 for a in D) for D in disjuncts)
                    ref = all(val(a, m) >= 0 for a in _ref(d))
                    if impl != ref:
                        return n, b, e, x, impl
    return None


def classify(fnode):
    """-> (d, None) when the helper is the clipped shift by d in {-1, 0, +1}; (None, disjuncts) otherwise"""
    dj = read_helper(fnode)
    for d in (0, -1, 1):
        if equivalent(dj, d) is None:
            return d, dj
    return None, dj


POSITIVE = '''
def explain_prev(op_signal, intervals):
    return [[max(begin - 1, 0), end - 1] for begin, end in intervals if begin > 0]
'''
NEGATIVE = '''
def explain_prev(op_signal, intervals):
    return [[max(begin - 1, 0), end - 1] for begin, end in intervals if end > 0]
'''
NEGATIVE2 = '''
def explain_next(op_signal, intervals):
    last = len(op_signal) - 1
    return [[begin + 1, min(end + 1, last)] for begin, end in intervals if begin < last]
'''


def self_test():
    p = classify(ast.parse(POSITIVE).body[0])[0]
    q = classify(ast.parse(NEGATIVE).body[0])[0]
    r = classify(ast.parse(NEGATIVE2).body[0])[0]
    return p is None and q == -1 and r == 1
