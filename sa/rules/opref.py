"""R-OPSUM -- reference normal forms of the operators (specification, frozen here) and the comparison.

Transcribed from README section "Theory" with the two overrides the properties state: ``prev``/``next`` are weak
(+inf at the trace boundary), ``s_prev``/``s_next`` strong (-inf).  Each entry cites the README line it encodes.
"""
from sa import opsum as O

X0 = ('x', 0, 0, None)
X1 = ('x', 1, 0, None)
ST = ('st',)
mk = O.mk
INF, NINF = O.INF, O.NINF


def x0(d, fill):
    return ('x', 0, d, fill)


def _dist():
    return mk('sub', [X0, X1])


PREDICATE = ('table', tuple(sorted({
    'EQ': O.neg(mk('abs', [_dist()])),      # rho(phi == psi) = -|rho(phi) - rho(psi)|
    'NEQ': mk('abs', [_dist()]),            # rho(phi !== psi) = |rho(phi) - rho(psi)|
    'LEQ': mk('sub', [X1, X0]),             # rho(phi <= psi) = rho(psi) - rho(phi)
    'LESS': mk('sub', [X1, X0]),            # rho(phi < psi)  = rho(psi) - rho(phi)
    'GEQ': mk('sub', [X0, X1]),             # rho(phi >= psi) = rho(phi) - rho(psi)
    'GREATER': mk('sub', [X0, X1]),         # rho(phi > psi)  = rho(phi) - rho(psi)
}.items())))

# node class name -> normal form (discrete time)
DISCRETE = {
    'Abs': ('pointwise', mk('abs', [X0])),
    'Sqrt': ('pointwise', mk('sqrt', [X0])),
    'Exp': ('pointwise', mk('exp', [X0])),
    'Ln': ('pointwise', ('ln', X0)),
    'Negate': ('pointwise', O.neg(X0)),
    'Pow': ('pointwise', mk('pow', [X0, X1])),
    'Log': ('pointwise', ('log', X0, X1)),
    'Addition': ('pointwise', mk('add', [X0, X1])),
    'Subtraction': ('pointwise', mk('sub', [X0, X1])),
    'Multiplication': ('pointwise', mk('mul', [X0, X1])),
    'Division': ('pointwise', mk('div', [X0, X1])),
    'Predicate': ('pointwise', PREDICATE),
    'Neg': ('pointwise', O.neg(X0)),                                   # rho(not phi) = -rho(phi)
    'Conjunction': ('pointwise', mk('min', [X0, X1])),                 # and = min
    'Disjunction': ('pointwise', mk('max', [X0, X1])),                 # or = max
    'Implies': ('pointwise', mk('max', [O.neg(X0), X1])),              # max(-rho(phi), rho(psi))
    'Iff': ('pointwise', O.neg(mk('abs', [_dist()]))),                 # -|rho(phi) - rho(psi)|
    'Xor': ('pointwise', mk('abs', [_dist()])),                        # |rho(phi) - rho(psi)|
    'Rise': ('pointwise', mk('min', [O.neg(x0(-1, NINF)), X0])),       # rho(phi) if t=0; min(-rho(phi,t-1), rho(phi,t))
    'Fall': ('pointwise', mk('min', [x0(-1, INF), O.neg(X0)])),        # -rho(phi) if t=0; min(rho(phi,t-1), -rho(phi,t))
    'Previous': ('pointwise', x0(-1, INF)),                            # weak (property C01)
    'StrongPrevious': ('pointwise', x0(-1, NINF)),                     # strong
    'Next': ('pointwise', x0(+1, INF)),                                # weak
    'StrongNext': ('pointwise', x0(+1, NINF)),                         # strong
    'Once': ('scan', 'fwd', NINF, mk('max', [ST, X0]), 'out'),         # max over [0,t]
    'Historically': ('scan', 'fwd', INF, mk('min', [ST, X0]), 'out'),  # min over [0,t]
    'Since': ('scan', 'fwd', NINF, mk('max', [X1, mk('min', [X0, ST])]), 'out'),   # psi or (phi and prev)
    'Eventually': ('scan', 'bwd', NINF, mk('max', [ST, X0]), 'out'),
    'Always': ('scan', 'bwd', INF, mk('min', [ST, X0]), 'out'),
    'Until': ('scan', 'bwd', NINF, mk('max', [X1, mk('min', [X0, ST])]), 'out'),
}

# operators whose reference is a partial function: a data-dependent raise is allowed there
PARTIAL = ('Sqrt', 'Ln', 'Log', 'Division', 'Pow')

# dense time: since/until are the non-strict variant the property states (phi must hold at the witness point too)
DENSE = dict((k, v) for k, v in DISCRETE.items() if k not in ('Rise', 'Fall', 'Previous', 'StrongPrevious', 'Next', 'StrongNext'))
DENSE['Since'] = ('scan', 'fwd', NINF, mk('max', [mk('min', [X0, X1]), mk('min', [X0, ST])]), 'out')
DENSE['Until'] = ('scan', 'bwd', NINF, mk('max', [mk('min', [X0, X1]), mk('min', [X0, ST])]), 'out')


def describe(nf):
    return O.show(nf) if nf and nf[0] not in ('unknown',) else str(nf)


def diff(got, want):
    """human-readable first difference between two normal forms"""
    if got[0] != want[0]:
        return 'shape %s, expected %s' % (got[0], want[0])
    if got[0] == 'scan':
        names = ('', 'direction', 'initial state', 'output', 'next state')
        for i in range(1, 5):
            if got[i] != want[i]:
                return '%s is %s, expected %s' % (names[i], O.show(got[i]) if isinstance(got[i], tuple) else got[i],
                                                   O.show(want[i]) if isinstance(want[i], tuple) else want[i])
    if got[0] == 'pointwise':
        g, w = got[1], want[1]
        if g[0] == 'table' and w[0] == 'table':
            gd, wd = dict(g[1]), dict(w[1])
            for k in sorted(set(gd) | set(wd)):
                if gd.get(k) != wd.get(k):
                    return 'comparison %s yields %s, expected %s' % (k, O.show(gd[k]) if k in gd else 'nothing', O.show(wd[k]) if k in wd else 'nothing')
        return 'value is %s, expected %s' % (O.show(g), O.show(w))
    return '%s vs %s' % (describe(got), describe(want))
