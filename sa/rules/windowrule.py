"""R-WINDOW -- the index window of every bounded discrete-time operator equals the reference window of README "Theory";
R-INDEX -- every list/ring-buffer index is in range and no min()/max() is applied to an empty slice."""
import ast

from sa import window as W, dispatch as D, model as M
from sa.rules import exh

BOUNDED = ('TimedOnce', 'TimedHistorically', 'TimedSince', 'TimedAlways', 'TimedEventually', 'TimedUntil', 'TimedPrecedes')


def _report(rep, f, sym, slot, cases, it, name, rule='R-WINDOW', which=('R-WINDOW', 'R-INDEX')):
    ref = W.reference(name)
    bad = None
    for facts, term in cases:
        a = W.simplify_under(term, facts)
        b = W.simplify_under(ref, facts)
        if a != b and not W.equal_under(a, b, facts):
            bad = (a, b)
            break
    if 'R-WINDOW' not in which:
        pass
    elif bad:
        rep.fail(rule, f.module.rel, sym, slot, 'the window of %s is  %s  but the semantics requires  %s  (a = begin, b = end in samples; offsets relative to the '
                 'evaluated sample; low/high = value used before the first / after the last sample)' % (name, W.show(bad[0]), W.show(bad[1])), f.node.lineno,
                 {'got': W.show(bad[0]), 'want': W.show(bad[1])})
    else:
        rep.ok(rule, f.module.rel, sym, slot, '%s  (%d case%s)' % (W.show(W.simplify_under(ref, cases[0][0])), len(cases), '' if len(cases) == 1 else 's'), f.node.lineno)
    seen = set()
    nob = 0
    if 'R-INDEX' not in which:
        # the derived window is only meaningful if the index obligations hold (a negative slice bound wraps around in Python)
        broken = [(text, line) for (text, ok, line) in it.obligations if not ok]
        if broken and bad is None:
            rep.fail(rule, f.module.rel, sym, slot, 'the window of %s is read off under index obligations that do not hold: cannot show that %s -- on those inputs the '
                     'operator reads other samples than its window' % (name, broken[0][0]), broken[0][1])
            return False
        return bad is None
    for (text, ok, line) in it.obligations:
        if text.startswith(('the newest sample lies', 'the early return', 'the values are returned in the order', 'equal candidates')):
            # a condition for the derived window to be the operator's value, not an index: reported with the window
            if not ok and 'R-WINDOW' in which and bad is None and text not in seen:
                seen.add(text)
                if text.startswith('equal candidates'):
                    pass        # reported by the pairing rule (monotonic_queue_slip) with an example
                elif text.startswith('the values'):
                    rep.fail(rule, f.module.rel, sym, slot + ':order', 'the result of %s is the right list in the wrong order: cannot show that %s' % (name, text), line)
                else:
                    rep.fail(rule, f.module.rel, sym, slot + ':shortcut', 'the early result of %s is not the value of its window: cannot show that %s' % (name, text), line)
            continue
        nob += 1
        if not ok and text not in seen:
            seen.add(text)
            rep.fail('R-INDEX', f.module.rel, sym, '%s:%s' % (slot, text[:60]), 'cannot show that %s for all 0 <= begin <= end and traces of length >= 1: IndexError / ValueError '
                     '(or a negative index silently wrapping around) on some bound and trace length' % text, line)
    if not seen:
        rep.ok('R-INDEX', f.module.rel, sym, slot, '%d index / non-empty-slice obligations discharged by linear arithmetic' % nob, f.node.lineno)
    return bad is None and not seen


class _Merged(object):
    def __init__(self, its):
        self.obligations = [o for i in its for o in i.obligations]
        self.facts = its[0].facts


def _merge_interps(its):
    return its[0] if len(its) == 1 else _Merged(its)


def monotonic_queue_slip(fnode):
    """the sliding extremum with a queue of candidates: a `while Q and Q[-1] <op> x: Q.pop()` loop keeps the candidates monotone, and the head is
    dropped when it leaves the window.  When the head is recognised *by value* (`if ... Q[0] == <the leaving sample>: Q.popleft()`), equal
    candidates must be kept (strict pop test): with `<=` / `>=` an older copy of the extremum is popped, and the surviving copy is then evicted
    when the older one leaves -- the result is too small (max) / too large (min) on plateaus.  -> (lineno, text) of the slip, or None when the
    function has no such queue or pops strictly."""
    pops = []
    evicts_by_value = []
    for w in ast.walk(fnode):
        if isinstance(w, ast.While) and isinstance(w.test, ast.BoolOp) and isinstance(w.test.op, ast.And):
            for v in w.test.values:
                if isinstance(v, ast.Compare) and len(v.ops) == 1 and isinstance(v.left, ast.Subscript) and isinstance(v.left.slice, ast.UnaryOp) \
                        and ast.unparse(v.left.slice) == '-1' and any(isinstance(x, ast.Call) and isinstance(x.func, ast.Attribute) and x.func.attr == 'pop'
                                                                      and ast.unparse(x.func.value) == ast.unparse(v.left.value) for b in w.body for x in ast.walk(b)):
                    pops.append((ast.unparse(v.left.value), v.ops[0], v))
        if isinstance(w, ast.If):
            for v in ast.walk(w.test):
                if isinstance(v, ast.Compare) and len(v.ops) == 1 and isinstance(v.ops[0], ast.Eq) and isinstance(v.left, ast.Subscript) and ast.unparse(v.left.slice) == '0' \
                        and any(isinstance(x, ast.Call) and isinstance(x.func, ast.Attribute) and x.func.attr == 'popleft'
                                and ast.unparse(x.func.value) == ast.unparse(v.left.value) for b in w.body for x in ast.walk(b)):
                    evicts_by_value.append(ast.unparse(v.left.value))
    for q, op, node in pops:
        if q in evicts_by_value and isinstance(op, (ast.LtE, ast.GtE)):
            return node.lineno, ast.unparse(node)
    return None


def check_offline(ix, rep, mon, which=('R-WINDOW', 'R-INDEX')):
    d = D.dispatch_of(ix, mon.cls)
    out = {}
    n = 0
    for nc in D.node_classes(ix):
        if nc.name not in BOUNDED:
            continue
        meth, _ = d.method_for(nc, ix)
        cat, info, f = D.classify(ix, mon.cls, meth) if meth else ('missing', None, None)
        if cat != 'compute':
            continue
        rep.analysed(f)
        rep.unit(f.module.rel)
        slot = '%s:%s' % (mon.kind, nc.name)
        slip = monotonic_queue_slip(f.node)
        if slip is not None and 'R-WINDOW' in which:
            rep.fail('R-WINDOW', f.module.rel, f.qual, slot + ':monotonic-queue', 'the queue of candidates is evicted by value (`Q[0] == <leaving sample>`) and popped with a non-strict '
                     'test (`%s`): of two equal samples in one window the older is popped, the newer one is evicted when the older leaves, and the extremum of the rest of the window '
                     'is lost -- `once[0:1]` on 5, 5, 1, 0 gives 1 instead of 5 at the third sample' % slip[1], slip[0])
        try:
            helpers = {fn.name: fn for fn in f.module.tree.body if isinstance(fn, ast.FunctionDef)}
            runs = W.with_splits(lambda fx: W.summarize_offline(f.node, nc.name, fx, helpers=helpers))
            cases = [c for _fx, (cs, _it) in runs for c in cs]
            it = _merge_interps([r[1] for _fx, r in runs])
        except W.Unknown as e:
            rep.error('%s (%s): window of %s is not in an interpreted idiom (%s); it was decided on the pinned tree' % (f.where, f.qual, nc.name, e))
            continue
        n += 1
        out[nc.name] = cases
        _report(rep, f, f.qual, slot, cases, it, nc.name, which=which)
    return n, out


def check_online(ix, rep, mon, which=('R-WINDOW', 'R-INDEX')):
    ops = exh.constructed_operations(ix, mon)
    out = {}
    n = 0
    for name, cls in sorted(ops.items()):
        if name not in BOUNDED:
            continue
        f = ix.resolve_method(cls, 'update')
        rep.analysed(f)
        rep.unit(f.module.rel)
        slot = '%s:%s' % (mon.kind, name)
        slip = monotonic_queue_slip(f.node)
        if slip is not None and 'R-WINDOW' in which:
            rep.fail('R-WINDOW', f.module.rel, '%s.update' % cls.name, slot + ':monotonic-queue', 'the queue of candidates is evicted by value (`Q[0] == <leaving sample>`) and popped with a '
                     'non-strict test (`%s`): of two equal samples in one window the older is popped, the newer one is evicted when the older leaves, and the extremum of the rest of '
                     'the window is lost (plateaus, Boolean-valued operands, +-inf)' % slip[1], slip[0])
        try:
            runs = W.with_splits(lambda fx: W.summarize_online(ix, cls, fx))
        except W.Unknown as e:
            rep.error('%s (%s.update): window of %s is not in an interpreted idiom (%s); it was decided on the pinned tree' % (f.where, cls.name, name, e))
            continue
        n += 1
        out[name] = runs[0][1][0]
        cases = [(i2.facts + [W.Aff.sym('t'), W.Aff.sym('n') - W.Aff.const(1) - W.Aff.sym('t')], term) for _fx, (term, i2) in runs]
        _report(rep, f, '%s.update' % cls.name, slot, cases, _merge_interps([r[1] for _fx, r in runs]), name, which=which)
    return n, out
