"""R-PURE (handlers read only their operands, node parameters and configuration), R-TAINT (time column /
io declarations never reach a handler), output pairing of evaluate()."""
import ast
import builtins

from sa.index import ClassInfo, FuncInfo, External, ModuleRef
from sa import effects as E
from sa import dispatch as D
from sa import model as M

AST_OK_ANYWHERE = ('unit', 'U')  # configuration read by time_unit_transformer


def _first_access_is_store(fnode, attr):
    """source-order first access of self.attr in fnode is a store"""
    acc = []
    for n in ast.walk(fnode):
        if isinstance(n, ast.Attribute) and isinstance(n.value, ast.Name) and n.value.id == 'self' and n.attr == attr:
            acc.append((n.lineno, n.col_offset, isinstance(n.ctx, ast.Store)))
    acc.sort()
    # an assignment `self.a = f(self.a)` evaluates the load first although the store is left-most
    if not acc:
        return False
    if acc[0][2]:
        same_line = [a for a in acc if a[0] == acc[0][0] and not a[2]]
        return not same_line
    return False


def handler_attr_writes(ix, cls, handlers):
    w = set()
    for f in handlers:
        w |= set(E.method_effects(f.node).written_attrs())
    return w


def free_names(fnode):
    """names read in fnode that are neither parameters nor assigned locally"""
    params = {a.arg for a in fnode.args.args + fnode.args.kwonlyargs}
    if fnode.args.vararg:
        params.add(fnode.args.vararg.arg)
    if fnode.args.kwarg:
        params.add(fnode.args.kwarg.arg)
    stores = set()
    for n in ast.walk(fnode):
        if isinstance(n, ast.Name) and isinstance(n.ctx, (ast.Store, ast.Del)):
            stores.add(n.id)
        if isinstance(n, ast.ExceptHandler) and n.name:
            stores.add(n.name)
        # parameters of lambdas and nested functions are bound in their own scope (a coarse, sound-enough treatment: bound somewhere in the function)
        if isinstance(n, (ast.Lambda, ast.FunctionDef)) and n is not fnode:
            a = n.args
            for x in a.posonlyargs + a.args + a.kwonlyargs:
                stores.add(x.arg)
            if a.vararg:
                stores.add(a.vararg.arg)
            if a.kwarg:
                stores.add(a.kwarg.arg)
    out = {}
    for n in ast.walk(fnode):
        if isinstance(n, ast.Name) and isinstance(n.ctx, ast.Load) and n.id not in params and n.id not in stores:
            out.setdefault(n.id, n)
    return out


def check_free_names(ix, rep, f, rule, slot):
    """every free name is a builtin, an import, a class/function of the module -- never a module-level data object"""
    bad = []
    # names bound by an import inside the function: resolved like the module-level imports
    local_imports = {}
    for n in ast.walk(f.node):
        if isinstance(n, ast.Import):
            for a in n.names:
                local_imports[(a.asname or a.name).split('.')[0]] = ('mod', a.name)
        elif isinstance(n, ast.ImportFrom) and n.module and not n.level:
            for a in n.names:
                local_imports[a.asname or a.name] = ('from', n.module, a.name)
    for name, node in free_names(f.node).items():
        if hasattr(builtins, name):
            continue
        if name in local_imports:
            imp = local_imports[name]
            if imp[0] == 'mod' or imp[1] not in ix.modules:
                continue
            ent = ix.lookup(ix.modules[imp[1]], imp[2])
            if ent is None and (imp[1] + '.' + imp[2]) in ix.modules:
                continue
        else:
            ent = ix.lookup(f.module, name)
        if isinstance(ent, (ClassInfo, FuncInfo, External, ModuleRef)):
            continue
        if ent is None:
            # unresolved: star import from outside the package or genuinely undefined
            if any(not s.startswith('rtamt') for s in f.module.star):
                continue
            bad.append((name, node, 'is not defined in the module'))
        elif isinstance(ent, tuple) and ent[0] == 'value':
            v = ent[2]
            if isinstance(v, (ast.Constant,)) or (isinstance(v, ast.Call) and isinstance(v.func, ast.Name) and v.func.id in ('float', 'int', 'str', 'frozenset', 'tuple')):
                continue
            bad.append((name, node, 'is a module-level data object (`%s`): a hidden input shared by all specifications' % ast.unparse(v)[:40]))
    for (name, node, why) in bad:
        rep.fail(rule, f.module.rel, f.qual, '%s:global:%s' % (slot, name), 'name `%s` %s' % (name, why), node.lineno)
    return not bad


def pure_handlers(ix, rep, mon, rule='R-PURE'):
    """offline monitor: each compute handler is a function of its children's results and node parameters."""
    d = D.dispatch_of(ix, mon.cls)
    handlers = {}
    for nc in D.node_classes(ix):
        meth, _ = d.method_for(nc, ix)
        if not meth:
            continue
        cat, info, f = D.classify(ix, mon.cls, meth)
        if cat == 'compute':
            handlers[nc.name] = f
    W = handler_attr_writes(ix, mon.cls, list(handlers.values()) + [x for x in [ix.resolve_method(mon.cls, 'evaluate')] if x])
    n = 0
    seen = set()
    for ncname, f in sorted(handlers.items()):
        if id(f) in seen:
            continue
        seen.add(id(f))
        n += 1
        rep.analysed(f)
        rep.unit(f.module.rel)
        ok = check_free_names(ix, rep, f, rule, mon.kind)
        ef = E.method_effects(f.node)
        for attr, nodes in sorted(ef.reads.items()):
            slot = '%s:self.%s' % (mon.kind, attr)
            if ix.resolve_method(mon.cls, attr) is not None:
                continue
            if attr == 'ast':
                # which sub-attributes?
                for nd in nodes:
                    sub = _parent_attr(f.node, nd)
                    if sub in AST_OK_ANYWHERE:
                        continue
                    if sub == 'var_object_dict' and ncname == 'Variable':
                        continue
                    ok = False
                    rep.fail(rule, f.module.rel, f.qual, '%s:self.ast.%s' % (mon.kind, sub),
                             'handler of %s reads self.ast.%s: its value is not a function of the operands alone '
                             '(results/inputs of other nodes are a hidden input)' % (ncname, sub), nd.lineno)
                continue
            if attr in ef.writes and _first_access_is_store(f.node, attr):
                # scratch attribute: written before read in the same call -- unless a recursive visit lies between the write and a
                # read: the handler of a nested operator (possibly this very handler) overwrites it
                clob = _visit_between_store_and_read(f.node, attr) if attr in W else None
                if clob is not None:
                    ok = False
                    rep.fail(rule, f.module.rel, f.qual, slot, 'self.%s is initialised before the operand is visited (line %d) and read afterwards: a nested operator handled by '
                             'the same visitor overwrites it, so the fold starts from the nested operator\'s final value' % (attr, clob), nodes[0].lineno)
                continue
            if attr in W:
                ok = False
                rep.fail(rule, f.module.rel, f.qual, slot,
                         'handler reads self.%s before writing it and some handler writes it: state carried from one '
                         'evaluation (or sibling) to the next' % attr, nodes[0].lineno)
            # else configuration
        # writes that persist: a handler must not leave state another handler reads -- covered by the read rule
        if ok:
            rep.ok(rule, f.module.rel, f.qual, '%s:%s' % (mon.kind, ncname), 'reads operands, node parameters and configuration only', f.node.lineno)
    return n


def _visit_between_store_and_read(fnode, attr):
    """line of a self.visit(...) call that follows the first store of self.attr and precedes a read of it"""
    stores = [n.lineno for n in ast.walk(fnode) if isinstance(n, ast.Attribute) and isinstance(n.ctx, ast.Store) and n.attr == attr
              and isinstance(n.value, ast.Name) and n.value.id == 'self']
    reads = [n.lineno for n in ast.walk(fnode) if isinstance(n, ast.Attribute) and isinstance(n.ctx, ast.Load) and n.attr == attr
             and isinstance(n.value, ast.Name) and n.value.id == 'self']
    visits = [n.lineno for n in ast.walk(fnode) if isinstance(n, ast.Call) and isinstance(n.func, ast.Attribute) and n.func.attr == 'visit'
              and isinstance(n.func.value, ast.Name) and n.func.value.id == 'self']
    if not stores or not reads:
        return None
    first = min(stores)
    for v in visits:
        if v > first and any(r > v for r in reads) and not any(first < s2 <= min(r for r in reads if r > v) and s2 > v for s2 in stores):
            return v
    return None


def _parent_attr(fnode, target):
    for n in ast.walk(fnode):
        if isinstance(n, ast.Attribute) and n.value is target:
            return n.attr
    return None


def pure_updates(ix, rep, opclasses, rule='R-PURE'):
    """online operations: update() reads self.*, its parameters and builtins only."""
    n = 0
    for c in opclasses:
        f = ix.resolve_method(c, 'update')
        if f is None:
            continue
        n += 1
        rep.analysed(f)
        rep.unit(f.module.rel)
        if check_free_names(ix, rep, f, rule, c.name):
            rep.ok(rule, f.module.rel, '%s.update' % c.name, 'inputs', 'a function of self.*, the operands and builtins', f.node.lineno)
    return n


# ------------------------------------------------------------------------------------------------- taint
def _names_in(e):
    return {n.id for n in ast.walk(e) if isinstance(n, ast.Name)}


def time_taint_offline(ix, rep, mon, rule='R-TAINT'):
    f = ix.resolve_method(mon.cls, 'evaluate')
    rep.analysed(f)
    rep.unit(f.module.rel)
    dparam = f.node.args.args[1].arg

    def is_time_read(e):
        return (isinstance(e, ast.Subscript) and isinstance(e.value, ast.Name) and e.value.id == dparam
                and isinstance(e.slice, ast.Constant) and e.slice.value == 'time')
    tainted = set()
    changed = True
    while changed:
        changed = False
        for st in ast.walk(f.node):
            if isinstance(st, ast.Assign) and len(st.targets) == 1 and isinstance(st.targets[0], ast.Name):
                v = st.value
                # len(...) of the time column is the number of samples: not the time-stamps
                if isinstance(v, ast.Call) and isinstance(v.func, ast.Name) and v.func.id == 'len':
                    continue
                dep = any(is_time_read(n) for n in ast.walk(v)) or (_names_in(v) & tainted)
                # a helper that is handed the data set and reads its 'time' column returns something that depends on the time-stamps
                if not dep and isinstance(v, ast.Call) and isinstance(v.func, ast.Attribute) and isinstance(v.func.value, ast.Name) and v.func.value.id == 'self' \
                        and any(isinstance(n, ast.Name) and n.id == dparam for a in v.args for n in ast.walk(a)):
                    h = ix.resolve_method(mon.cls, v.func.attr)
                    if h is not None and any(isinstance(n, ast.Subscript) and isinstance(n.slice, ast.Constant) and n.slice.value == 'time' for n in ast.walk(h.node)):
                        dep = True
                if dep and st.targets[0].id not in tainted:
                    tainted.add(st.targets[0].id)
                    changed = True
    bad = False
    nsites = 0
    for c in ast.walk(f.node):
        if isinstance(c, ast.Call) and isinstance(c.func, ast.Attribute) and c.func.attr in ('visitAst', 'visit', 'visitSpec'):
            nsites += 1
            for a in c.args:
                inner = [n for n in ast.walk(a)]
                lens = [n for n in inner if isinstance(n, ast.Call) and isinstance(n.func, ast.Name) and n.func.id == 'len']
                masked = set()
                for l in lens:
                    masked |= {id(x) for x in ast.walk(l)}
                for n in inner:
                    if id(n) in masked:
                        continue
                    if is_time_read(n) or (isinstance(n, ast.Name) and n.id in tainted):
                        bad = True
                        rep.fail(rule, f.module.rel, f.qual, 'time->visit', 'the time column flows into the evaluation '
                                 '(`%s`): robustness would depend on the numeric time-stamps' % ast.unparse(c)[:70], c.lineno)
    # ... nor into what is stored for the variables: the data-entry call receives the caller's data set, not one rebuilt along the time column
    for c in ast.walk(f.node):
        if isinstance(c, ast.Call) and isinstance(c.func, ast.Attribute) and c.func.attr == 'set_variable_to_ast_from_dataset':
            nsites += 1
            for a in c.args:
                for n in ast.walk(a):
                    if isinstance(n, ast.Name) and n.id in tainted:
                        bad = True
                        rep.fail(rule, f.module.rel, f.qual, 'time->entry', 'the data set handed to the data entry (`%s`) has been rebuilt from the time column: which samples the monitor '
                                 'sees -- and so the robustness -- depends on the numeric time-stamps (two samples with one time-stamp, a later one replacing an earlier one)'
                                 % ast.unparse(a)[:50], c.lineno)
    if nsites == 0:
        rep.fail(rule, f.module.rel, f.qual, 'time->visit', 'evaluate() no longer calls visitAst', f.node.lineno)
    elif not bad:
        rep.ok(rule, f.module.rel, f.qual, 'time->visit', 'time column reaches only results[\'time\'], the jitter counter and the output pairing', f.node.lineno)
    # the variable table never receives the time column
    g = ix.resolve_method(mon.cls, 'set_variable_to_ast_from_dataset')
    rep.analysed(g)
    guard = any(isinstance(n, ast.Compare) and any(isinstance(c, ast.Constant) and c.value == 'time' for c in [n.left] + n.comparators)
                for n in ast.walk(g.node))
    if guard:
        rep.ok(rule, g.module.rel, g.qual, 'time-key-skipped', "the 'time' key is not copied into var_object_dict", g.node.lineno)
    else:
        rep.fail(rule, g.module.rel, g.qual, 'time-key-skipped', "the data set's 'time' column is copied into the variable table", g.node.lineno)
    return tainted


def output_pairing(ix, rep, mon, rule='R-PAIR'):
    """evaluate() returns [[t, v]] built by zipping the time column with the last specification's result.

    Straight-line abstract evaluation of the top-level statements: every name is tagged
    time | all (list of per-spec results) | last (result of the last spec) | paired | other."""
    f = ix.resolve_method(mon.cls, 'evaluate')
    dparam = f.node.args.args[1].arg
    tag = {}

    def ev(e):
        if isinstance(e, ast.Name):
            return tag.get(e.id, 'other')
        if (isinstance(e, ast.Subscript) and isinstance(e.value, ast.Name) and e.value.id == dparam
                and isinstance(e.slice, ast.Constant) and e.slice.value == 'time'):
            return 'time'
        if isinstance(e, ast.Call) and isinstance(e.func, ast.Attribute) and e.func.attr == 'visitAst':
            return 'all'
        if isinstance(e, ast.Subscript):
            b = ev(e.value)
            if b == 'all':
                return 'last' if _is_last_index(e.slice, e.value) else 'notlast'
            return 'other'
        if isinstance(e, ast.ListComp) and len(e.generators) == 1:
            g = e.generators[0]
            if isinstance(g.iter, ast.Call) and isinstance(g.iter.func, ast.Name) and g.iter.func.id == 'zip' and len(g.iter.args) == 2:
                a, b = ev(g.iter.args[0]), ev(g.iter.args[1])
                elt = e.elt
                if a == 'time' and b == 'last' and isinstance(elt, (ast.List, ast.Tuple)) and len(elt.elts) == 2 and not g.ifs:
                    # element must be [pair[0], pair[1]] / [t, v] in that order
                    if isinstance(g.target, ast.Name):
                        want = ['%s[0]' % g.target.id, '%s[1]' % g.target.id]
                    elif isinstance(g.target, ast.Tuple) and len(g.target.elts) == 2:
                        want = [ast.unparse(x) for x in g.target.elts]
                    else:
                        want = None
                    if want == [ast.unparse(x) for x in elt.elts]:
                        return 'paired'
                    return 'mispaired'
                return 'zip(%s,%s)' % (a, b)
        if isinstance(e, ast.Call) and isinstance(e.func, ast.Name) and e.func.id == 'list' and len(e.args) == 1:
            return ev(e.args[0])
        return 'other'
    verdict = None
    for st in f.node.body:
        if isinstance(st, ast.Assign) and len(st.targets) == 1 and isinstance(st.targets[0], ast.Name):
            tag[st.targets[0].id] = ev(st.value)
        elif isinstance(st, ast.Return) and st.value is not None:
            verdict = ev(st.value)
    if verdict == 'paired':
        rep.ok(rule, f.module.rel, f.qual, 'zip(time,last-spec)', 'one [time-stamp, value] pair per sample, values of the last assertion', f.node.lineno)
    else:
        rep.fail(rule, f.module.rel, f.qual, 'zip(time,last-spec)',
                 'evaluate() does not return the time column paired with the result of the last specification (got: %s)' % verdict, f.node.lineno)


def _is_last_index(sl, base):
    s = ast.unparse(sl).replace(' ', '')
    b = ast.unparse(base).replace(' ', '')
    return s in ('-1', 'len(%s)-1' % b)


def check_reflective_state(ix, rep, prefixes=('rtamt/semantics/', 'rtamt/explanation/', 'rtamt/pastifier/'), rule='R-PURE'):
    """the purity, reset and ownership rules see the state of an object through `self.attr` reads and writes.  State reached reflectively --
    ``self.__dict__``, ``vars(self)``, ``setattr(self, ..)``, ``getattr(self, <computed name>)`` -- is state they cannot see: a handler that
    keeps something there between two visits (a window "kept with the operator") makes the second evaluate() start from the end of the
    first.  Evaluation code does not use these forms; one site per use is reported.  (`getattr(self, 'name', default)` with a constant name is
    an ordinary attribute read and is treated as one by the other rules.)"""
    n = 0
    for mod in sorted(ix.modules.values(), key=lambda m: m.rel):
        if not any(mod.rel.startswith(p) for p in prefixes) or ix.unimportable(mod):
            continue
        for fn in ast.walk(mod.tree):
            if not isinstance(fn, ast.FunctionDef):
                continue
            n += 1
            bad = None
            for x in ast.walk(fn):
                if isinstance(x, ast.Attribute) and x.attr == '__dict__' and isinstance(x.value, ast.Name) and x.value.id == 'self':
                    bad = x
                elif isinstance(x, ast.Call) and isinstance(x.func, ast.Name) and x.func.id == 'vars' and x.args and isinstance(x.args[0], ast.Name) and x.args[0].id == 'self':
                    bad = x
                elif isinstance(x, ast.Call) and isinstance(x.func, ast.Name) and x.func.id in ('setattr', 'delattr') and x.args and isinstance(x.args[0], ast.Name) \
                        and x.args[0].id == 'self':
                    bad = x
                elif isinstance(x, ast.Call) and isinstance(x.func, ast.Name) and x.func.id == 'getattr' and len(x.args) >= 2 and isinstance(x.args[0], ast.Name) \
                        and x.args[0].id == 'self' and not isinstance(x.args[1], ast.Constant):
                    bad = x
                elif isinstance(x, ast.Call) and isinstance(x.func, ast.Attribute) and x.func.attr == '__setattr__':
                    bad = x
            owner = None
            for c in ast.walk(mod.tree):
                if isinstance(c, ast.ClassDef) and any(s is fn for s in c.body):
                    owner = c.name
            sym = '%s.%s' % (owner, fn.name) if owner else fn.name
            if bad is not None:
                rep.fail(rule, mod.rel, sym, 'reflective-state', '`%s`: state of the object reached reflectively -- what is kept there is invisible to the purity, reset and ownership '
                         'analyses, and survives from one evaluate()/visit to the next (a second evaluation of the same specification on the same data starts from the leftovers of '
                         'the first)' % ast.unparse(bad)[:60], bad.lineno)
            else:
                rep.ok(rule, mod.rel, sym, 'no-reflective-state', '', fn.lineno)
    return n
