"""R-STATE -- reset() re-establishes the constructor state of everything update() changes."""
import ast

from sa.index import AnalysisError, ClassInfo, unmangle
from sa import effects as E


def _norm(e):
    if e is None:
        return None
    # int(0) == 0, float(0.0) == 0.0: compare literal values
    if isinstance(e, ast.Call) and isinstance(e.func, ast.Name) and e.func.id in ('int', 'float') and len(e.args) == 1 and isinstance(e.args[0], ast.Constant) \
            and isinstance(e.args[0].value, (int, float)):
        return 'const:%r' % (int(e.args[0].value) if e.func.id == 'int' else float(e.args[0].value),)
    if isinstance(e, ast.Constant) and isinstance(e.value, (int, float)) and not isinstance(e.value, bool):
        return 'const:%r' % (e.value,)
    # the spellings of an infinity
    src = ast.unparse(e).replace('"', "'").replace(' ', '')
    if src in ("float('inf')", "math.inf", "float('+inf')", "float('infinity')"):
        return 'const:inf'
    if src in ("-float('inf')", "float('-inf')", "-math.inf", "-float('infinity')"):
        return 'const:-inf'
    return ast.dump(e, annotate_fields=False, include_attributes=False)


def _init_table(ix, cls):
    """location -> initial value expression, from the __init__ resolved on cls.
    Handles ``self.x = E`` and list-of-containers ``self.x = []; self.x.append(E)``."""
    f = ix.resolve_method(cls, '__init__')
    table = {}
    calls_reset = False
    params = []
    if f is None:
        return table, calls_reset, params, None
    params = [a.arg for a in f.node.args.args[1:]]
    appended = {}
    # locals of the constructor bound once (`size = self.end + 1`) stand for their expression
    import copy as _copy
    ldefs = {}
    for st in f.node.body:
        if isinstance(st, ast.Assign) and len(st.targets) == 1 and isinstance(st.targets[0], ast.Name) and st.targets[0].id not in params:
            ldefs.setdefault(st.targets[0].id, []).append(st.value)

    class _Inl(ast.NodeTransformer):
        def visit_Name(self, n_):
            if isinstance(n_.ctx, ast.Load) and len(ldefs.get(n_.id, [])) == 1:
                return ast.copy_location(self.visit(_copy.deepcopy(ldefs[n_.id][0])), n_)
            return n_
    for st in f.node.body:
        if isinstance(st, ast.Assign) and len(st.targets) == 1:
            loc = E.self_loc(st.targets[0])
            if loc is not None:
                table[loc] = _Inl().visit(_copy.deepcopy(st.value)) if ldefs else st.value
                if isinstance(st.value, ast.List) and not st.value.elts:
                    appended[loc] = 0
                # self.x = [E for _ in range(K)] with a literal K: K containers, each built by E
                v_ = st.value
                if isinstance(v_, ast.ListComp) and len(v_.generators) == 1 and not v_.generators[0].ifs and isinstance(v_.generators[0].iter, ast.Call) \
                        and getattr(v_.generators[0].iter.func, 'id', None) == 'range' and len(v_.generators[0].iter.args) == 1 \
                        and isinstance(v_.generators[0].iter.args[0], ast.Constant) and isinstance(v_.generators[0].iter.args[0].value, int) \
                        and not any(isinstance(x_, ast.Name) and x_.id == getattr(v_.generators[0].target, 'id', None) for x_ in ast.walk(v_.elt)):
                    for i_ in range(v_.generators[0].iter.args[0].value):
                        table['%s[%d]' % (loc, i_)] = _Inl().visit(_copy.deepcopy(v_.elt)) if ldefs else v_.elt
        elif isinstance(st, ast.Expr) and isinstance(st.value, ast.Call) and isinstance(st.value.func, ast.Attribute):
            c = st.value
            if c.func.attr == 'append':
                loc = E.self_loc(c.func.value)
                if loc in appended and c.args:
                    table['%s[%d]' % (loc, appended[loc])] = c.args[0]
                    appended[loc] += 1
            if (c.func.attr == 'reset' and isinstance(c.func.value, ast.Name) and c.func.value.id == 'self'):
                calls_reset = True
    return table, calls_reset, params, f


def _deque_maxlen(e):
    """``collections.deque(maxlen=N)`` / ``deque(maxlen=N)`` -> N expr"""
    if isinstance(e, ast.Call):
        fn = e.func
        name = fn.attr if isinstance(fn, ast.Attribute) else getattr(fn, 'id', None)
        if name == 'deque':
            for kw in e.keywords:
                if kw.arg == 'maxlen':
                    return kw.value
            if len(e.args) == 2:
                return e.args[1]
    return None


def _is_constant_expr(e, local_consts):
    if isinstance(e, ast.Constant):
        return True
    if isinstance(e, ast.UnaryOp):
        return _is_constant_expr(e.operand, local_consts)
    if isinstance(e, ast.Call) and isinstance(e.func, ast.Name) and e.func.id in ('float', 'int') and all(isinstance(a, ast.Constant) for a in e.args):
        return True
    if isinstance(e, ast.Name) and e.id in local_consts:
        return True
    return False


def _refills(reset_node):
    """loops ``for _ in range(M): <loc>.append(const)`` in reset -> {loc: M expr}"""
    out = {}
    # locals of reset() bound once (`size = self.end + 1`) stand for their expression
    import copy as _copy
    ldefs = {}
    for st in reset_node.body:
        if isinstance(st, ast.Assign) and len(st.targets) == 1 and isinstance(st.targets[0], ast.Name):
            ldefs.setdefault(st.targets[0].id, []).append(st.value)

    class _Inl(ast.NodeTransformer):
        def visit_Name(self, n_):
            if isinstance(n_.ctx, ast.Load) and len(ldefs.get(n_.id, [])) == 1 and not isinstance(ldefs[n_.id][0], ast.Call):
                return ast.copy_location(self.visit(_copy.deepcopy(ldefs[n_.id][0])), n_)
            return n_
    body_ = [_Inl().visit(_copy.deepcopy(st)) if ldefs else st for st in reset_node.body]
    for st in body_:
        # <loc>.extend([const] * M)  /  <loc>.extend(const for _ in range(M))
        if isinstance(st, ast.Expr) and isinstance(st.value, ast.Call) and isinstance(st.value.func, ast.Attribute) and st.value.func.attr == 'extend' \
                and len(st.value.args) == 1 and not st.value.keywords:
            loc = E.self_loc(st.value.func.value)
            a = st.value.args[0]
            if loc is not None and isinstance(a, ast.BinOp) and isinstance(a.op, ast.Mult):
                for lst, cnt in ((a.left, a.right), (a.right, a.left)):
                    if isinstance(lst, ast.List) and len(lst.elts) == 1 and _is_constant_expr(lst.elts[0], set()):
                        out[loc] = cnt
            elif loc is not None and isinstance(a, (ast.GeneratorExp, ast.ListComp)) and len(a.generators) == 1 and not a.generators[0].ifs \
                    and _is_constant_expr(a.elt, set()):
                it = a.generators[0].iter
                if isinstance(it, ast.Call) and getattr(it.func, 'id', None) == 'range' and len(it.args) == 1:
                    out[loc] = it.args[0]
        if isinstance(st, ast.For) and isinstance(st.iter, ast.Call) and getattr(st.iter.func, 'id', None) == 'range' and len(st.iter.args) == 1:
            consts = set()
            for s in st.body:
                if isinstance(s, ast.Assign) and len(s.targets) == 1 and isinstance(s.targets[0], ast.Name) and _is_constant_expr(s.value, consts):
                    consts.add(s.targets[0].id)
            for s in st.body:
                if isinstance(s, ast.Expr) and isinstance(s.value, ast.Call) and isinstance(s.value.func, ast.Attribute) and s.value.func.attr == 'append':
                    loc = E.self_loc(s.value.func.value)
                    if loc is not None and s.value.args and _is_constant_expr(s.value.args[0], consts):
                        out[loc] = st.iter.args[0]
    return out


def operation_state(ix, rep, cls, rule='R-STATE', interp_rebuilds=False):
    """Check one operation class.  Returns the idiom name that discharged it."""
    up = ix.resolve_method(cls, 'update')
    rs = ix.resolve_method(cls, 'reset')
    file = cls.module.rel
    if up is None or rs is None:
        rep.fail(rule, file, cls.name, 'interface', 'operation lacks update() or reset()', cls.node.lineno)
        return None
    rep.analysed(up)
    rep.analysed(rs)
    rep.unit(file)
    ef = E.transitive_effects(ix, cls, 'update')
    W_loc = set(ef.writes) | set(ef.mutations)
    W = ef.written_attrs()
    if not W:
        rep.ok(rule, file, cls.name, 'I4', 'update() writes no attribute: nothing to reset', up.node.lineno)
        return 'I4'
    if interp_rebuilds:
        rep.ok(rule, file, cls.name, 'I5:' + ','.join(sorted(W)),
               'the interpreter reset() rebuilds every operator from the ast; operation-level reset is not relied on',
               up.node.lineno)
        return 'I5'
    table, init_calls_reset, params, initf = _init_table(ix, cls)
    body = [s for s in rs.node.body if not (isinstance(s, ast.Expr) and isinstance(s.value, ast.Constant))]
    # I1: self.__init__(...)
    for st in body:
        if (isinstance(st, ast.Expr) and isinstance(st.value, ast.Call) and isinstance(st.value.func, ast.Attribute)
                and st.value.func.attr == '__init__' and isinstance(st.value.func.value, ast.Name) and st.value.func.value.id == 'self'):
            args = st.value.args
            if len(args) != len(params):
                rep.fail(rule, file, cls.name, 'I1-arity', 'reset() calls __init__ with %d arguments, constructor takes %d'
                         % (len(args), len(params)), st.lineno)
                return None
            for a, p in zip(args, params):
                loc = E.self_loc(a)
                src = table.get(loc)
                if loc is None or not (isinstance(src, ast.Name) and src.id == p):
                    rep.fail(rule, file, cls.name, 'I1-arg:' + p, 'reset() re-runs __init__ with `%s` which is not the stored '
                             'constructor argument `%s`' % (ast.unparse(a), p), st.lineno)
                    return None
                if E.base_attr(loc) in W:
                    rep.fail(rule, file, cls.name, 'I1-arg:' + p, 'reset() re-runs __init__ with self.%s, but update() modifies '
                             'that attribute: the constructor value is lost' % loc, st.lineno)
                    return None
            missing = [w for w in W if w not in {E.base_attr(l) for l in table}]
            if missing:
                rep.fail(rule, file, cls.name, 'I1-uninit:' + ','.join(sorted(missing)),
                         'update() writes %s which __init__ never initialises: survives reset()' % missing, st.lineno)
                return None
            rep.ok(rule, file, cls.name, 'I1:' + ','.join(sorted(W)), 'reset() re-runs __init__ with the stored constructor arguments', st.lineno)
            return 'I1'
    # I2 / I3 per location
    assigns = {}
    for st in body:
        if isinstance(st, ast.Assign) and len(st.targets) == 1:
            loc = E.self_loc(st.targets[0])
            if loc is not None:
                assigns[loc] = st.value
    refills = _refills(rs.node)
    ok_all = True
    idiom = []
    for loc in sorted(W_loc):
        attr = E.base_attr(loc)
        if loc in assigns or attr in assigns:
            key = loc if loc in assigns else attr
            init = table.get(key)
            if init is None and init_calls_reset:
                # the constructor obtains the initial value from reset() itself: fresh and reset state are the same assignment
                idiom.append('I2')
            elif init is None:
                rep.fail(rule, file, cls.name, 'I2:' + loc, 'reset() assigns self.%s but __init__ does not define its initial value' % key, rs.node.lineno)
                ok_all = False
            elif _norm(init) != _norm(assigns[key]):
                rep.fail(rule, file, cls.name, 'I2:' + loc, 'reset() sets self.%s = %s but a fresh object has %s'
                         % (key, ast.unparse(assigns[key]), ast.unparse(init)), rs.node.lineno)
                ok_all = False
            else:
                idiom.append('I2')
            continue
        # I3: deque refill
        cand = [l for l in refills if l == loc or E.base_attr(l) == attr]
        init = table.get(loc)
        if loc in refills and init is not None and _deque_maxlen(init) is not None:
            N = _deque_maxlen(init)
            M = refills[loc]
            if not init_calls_reset:
                rep.fail(rule, file, cls.name, 'I3:' + loc, 'reset() refills self.%s but __init__ does not call reset(): fresh state differs' % loc, rs.node.lineno)
                ok_all = False
            elif _norm(N) != _norm(M):
                rep.fail(rule, file, cls.name, 'I3:' + loc, 'reset() appends %s values to a deque of maxlen %s: %s'
                         % (ast.unparse(M), ast.unparse(N), 'older samples survive the reset'), rs.node.lineno)
                ok_all = False
            else:
                # maxlen expression must not depend on something update changes
                deps = {E.base_attr(E.self_loc(n)) for n in ast.walk(N) if E.self_loc(n)}
                if deps & W:
                    rep.fail(rule, file, cls.name, 'I3:' + loc, 'refill bound depends on %s which update() modifies' % (deps & W), rs.node.lineno)
                    ok_all = False
                else:
                    idiom.append('I3')
            continue
        rep.fail(rule, file, cls.name, 'state:' + loc,
                 'update() changes self.%s (%s) but reset() does not re-establish it: the value survives reset()'
                 % (loc, 'rebinds' if attr in ef.writes else 'mutates in place'), rs.node.lineno)
        ok_all = False
    if ok_all:
        rep.ok(rule, file, cls.name, '+'.join(sorted(set(idiom))) + ':' + ','.join(sorted(W_loc)),
               'every location update() changes is re-established by reset()', rs.node.lineno)
        return '+'.join(sorted(set(idiom)))
    return None
