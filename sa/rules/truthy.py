"""R-TRUTHY -- a robustness value is never used for its truth value.

0.0 is a legitimate robustness (a sample exactly on the threshold); `if x:`, `x or y`, `not x`, `a if x else b` on a value
treat it like "no value".  Values are recognised by flow (results of self.visit, operands of update(), elements of lists of
them, min/max of them), across calls to helper functions of the same package (parameter kinds come from the call sites).
Lists of values used for their truth value (`if sample:` = non-empty) are fine.
"""
import ast

from sa.index import FuncInfo
from sa.props.c07 import ValueFlow


def _truth_uses(fnode):
    """expressions evaluated for their truth value"""
    out = []
    for n in ast.walk(fnode):
        if isinstance(n, (ast.If, ast.While, ast.IfExp)):
            out += _split(n.test)
        elif isinstance(n, ast.BoolOp):
            out += [v for v in n.values]
        elif isinstance(n, ast.UnaryOp) and isinstance(n.op, ast.Not):
            out.append(n.operand)
        elif isinstance(n, ast.Assert):
            out += _split(n.test)
        elif isinstance(n, ast.comprehension):
            for c in n.ifs:
                out += _split(c)
    return out


def _split(t):
    if isinstance(t, ast.BoolOp):
        r = []
        for v in t.values:
            r += _split(v)
        return r
    if isinstance(t, ast.UnaryOp) and isinstance(t.op, ast.Not):
        return _split(t.operand)
    return [t]


def check_functions(ix, rep, funcs, label, rule='R-TRUTHY', online=False):
    """funcs: FuncInfo list (handlers / update methods); helpers they call inside rtamt.semantics are followed"""
    seeds = {}       # id(FuncInfo) -> {param: kind}
    work = list(funcs)
    done = {}
    rounds = 0
    while work and rounds < 400:
        rounds += 1
        f = work.pop()
        vf = ValueFlow(f.node, False, seed=seeds.get(id(f)))
        done[id(f)] = (f, vf)
        for c in ast.walk(f.node):
            if not isinstance(c, ast.Call):
                continue
            tgt = None
            if isinstance(c.func, ast.Attribute) and isinstance(c.func.value, ast.Name) and c.func.value.id == 'self' and f.owner is not None:
                tgt = ix.resolve_method(f.owner, c.func.attr)
                offset = 1 if (tgt is not None and tgt.node.args.args and tgt.node.args.args[0].arg in ('self', 'cls')) else 0
            elif isinstance(c.func, (ast.Name, ast.Attribute)):
                ent = ix.resolve_expr(f.module, c.func)
                if isinstance(ent, FuncInfo):
                    tgt = ent
                    offset = 1 if (ent.owner is not None and ent.node.args.args and ent.node.args.args[0].arg == 'self') else 0
            if tgt is None or not tgt.module.name.startswith('rtamt.semantics') or tgt.node.name.startswith('visit') or tgt.node.name in ('update', '__init__', 'reset'):
                continue
            params = [a.arg for a in tgt.node.args.args][offset:]
            sd = dict(seeds.get(id(tgt), {}))
            changed = False
            for p, a in zip(params, c.args):
                k = vf.kind_of(a)
                if k and sd.get(p) != 'list' and sd.get(p) != k:
                    sd[p] = k
                    changed = True
            if changed or (id(tgt) not in done and sd):
                seeds[id(tgt)] = sd
                work.append(tgt)
    n = 0
    for fid, (f, vf) in sorted(done.items(), key=lambda kv: (kv[1][0].module.rel, kv[1][0].qual)):
        rep.analysed(f)
        rep.unit(f.module.rel)
        n += 1
        bad = []
        for e in _truth_uses(f.node):
            if isinstance(e, (ast.Name, ast.Attribute, ast.Subscript)) and vf.kind_of(e) == 'scalar':
                bad.append(e)
            elif isinstance(e, ast.Call) and isinstance(e.func, ast.Name) and e.func.id in ('min', 'max') and vf.kind_of(e) == 'scalar':
                bad.append(e)
        slot = '%s:truth-value' % label
        if bad:
            rep.fail(rule, f.module.rel, f.qual, slot, 'the robustness value `%s` is tested for its truth value: a robustness of exactly 0 (a sample on the threshold) is treated '
                     'like "no value"' % ast.unparse(bad[0]), bad[0].lineno)
        else:
            rep.ok(rule, f.module.rel, f.qual, slot, 'no robustness value is used for its truth value', f.node.lineno)
    return n


def check_data_entry(ix, rep, f, kind, rule='R-TRUTHY'):
    """the values a data-entry function takes out of the data set are samples: in the discrete-time online monitor each is one number, and 0.0
    is a number.  Used for its truth value (`if not value: continue`, `value or default`) a zero sample is treated as "no sample" and the
    variable keeps the value of the previous update.  Tainted: everything subscripted or unpacked from the data-set parameter except the
    name component (`data[0]`, the dictionary keys)."""
    if len(f.node.args.args) < 2:
        return 0
    dparam = f.node.args.args[-1].arg
    tainted = {dparam}
    names_only = set()
    changed = True
    while changed:
        changed = False
        for n in ast.walk(f.node):
            pairs = []
            if isinstance(n, ast.Assign) and len(n.targets) == 1 and isinstance(n.targets[0], ast.Name):
                pairs.append((n.targets[0].id, n.value))
            elif isinstance(n, ast.For):
                for t in ast.walk(n.target):
                    if isinstance(t, ast.Name):
                        pairs.append((t.id, n.iter))
                # `for name, value in dataset:` -- the first component of a (name, value) pair is the name
                if isinstance(n.target, ast.Tuple) and len(n.target.elts) == 2 and isinstance(n.target.elts[0], ast.Name) \
                        and any(isinstance(x, ast.Name) and x.id in tainted for x in ast.walk(n.iter)):
                    names_only.add(n.target.elts[0].id)
            for name, val in pairs:
                roots = {x.id for x in ast.walk(val) if isinstance(x, ast.Name)}
                if name in names_only:
                    continue
                if roots & tainted and name not in tainted:
                    # the name component of a (name, value) pair is a string
                    if isinstance(val, ast.Subscript) and isinstance(val.slice, ast.Constant) and val.slice.value == 0 and isinstance(n, ast.Assign):
                        names_only.add(name)
                        continue
                    tainted.add(name)
                    changed = True
    bad = None
    for e in _truth_uses(f.node):
        if isinstance(e, ast.Name) and e.id in tainted and e.id != dparam and e.id not in names_only:
            bad = e
        elif isinstance(e, ast.Subscript) and isinstance(e.value, ast.Name) and e.value.id in tainted and not (isinstance(e.slice, ast.Constant) and e.slice.value == 0):
            bad = e
    slot = '%s:data-entry' % kind
    if bad is not None:
        rep.fail(rule, f.module.rel, f.qual, slot, 'a value taken from the data set (`%s`) is used for its truth value: a sample that is exactly 0 (a legal input, and the robustness of '
                 'a predicate that is met with equality) is treated as "no sample" -- the variable keeps the value of the previous update' % ast.unparse(bad), bad.lineno)
    else:
        rep.ok(rule, f.module.rel, f.qual, slot, 'no value of the data set is tested by truthiness', f.node.lineno)
    # whether an entry is stored depends on its name only: a test on the value (its type, its range, a comparison with what is stored) makes the
    # monitor drop samples silently -- Fraction, Decimal, numpy scalars are numbers too -- and go on with the value of the previous update
    sel = None
    for n in ast.walk(f.node):
        t = n.test if isinstance(n, (ast.If, ast.While, ast.IfExp)) else None
        if t is None:
            continue
        name_parts = {id(x.value) for x in ast.walk(t) if isinstance(x, ast.Subscript) and isinstance(x.slice, ast.Constant) and x.slice.value == 0}
        for x in ast.walk(t):
            if isinstance(x, ast.Name) and x.id in tainted and x.id != dparam and x.id not in names_only and id(x) not in name_parts:
                sel = sel or (x, t)
            elif isinstance(x, ast.Subscript) and isinstance(x.value, ast.Name) and x.value.id in tainted and x.value.id not in names_only \
                    and isinstance(x.slice, ast.Constant) and x.slice.value not in (0,):
                sel = sel or (x, t)
    slot2 = '%s:data-entry:value-test' % kind
    if sel is not None and bad is None:
        rep.fail(rule, f.module.rel, f.qual, slot2, 'whether an entry of the data set is stored depends on its value (`%s` in the test `%s`): samples the test does not accept are dropped '
                 'silently and the variable keeps the value of the previous update' % (ast.unparse(sel[0]), ast.unparse(sel[1])[:80]), sel[1].lineno)
    elif sel is None:
        rep.ok(rule, f.module.rel, f.qual, slot2, 'entries are selected by name only', f.node.lineno)
    return 1


def check_exact_comparisons(ix, rep, prefixes=('rtamt/semantics/',), rule='R-TRUTHY'):
    """robustness values are compared exactly.  `math.isclose(a, b)`, `abs(a - b) <= eps`, `round(a, k) == round(b, k)` treat two different values as
    one: in the sample-merging code a step smaller than the tolerance disappears from the signal (1e9 -> 1e9+1 is a step of 1e-9 relative), in a
    verdict a strict inequality becomes an equality.  Zero sites today; one instance per module scanned."""
    n = 0
    for mod in sorted(ix.modules.values(), key=lambda m: m.rel):
        if not any(mod.rel.startswith(p) for p in prefixes) or ix.unimportable(mod):
            continue
        n += 1
        bad = None
        for x in ast.walk(mod.tree):
            if isinstance(x, ast.Call):
                nm = x.func.attr if isinstance(x.func, ast.Attribute) else (x.func.id if isinstance(x.func, ast.Name) else None)
                if nm in ('isclose', 'allclose', 'approx'):
                    bad = (x, '`%s`' % ast.unparse(x)[:50])
            if isinstance(x, ast.Compare) and len(x.ops) == 1 and isinstance(x.ops[0], (ast.Lt, ast.LtE, ast.Gt, ast.GtE)):
                l, r = x.left, x.comparators[0]
                for a, b in ((l, r), (r, l)):
                    if isinstance(a, ast.Call) and isinstance(a.func, ast.Name) and a.func.id == 'abs' and a.args and isinstance(a.args[0], ast.BinOp) \
                            and isinstance(a.args[0].op, ast.Sub):
                        txt = ast.unparse(b).lower()
                        if 'eps' in txt or 'tol' in txt or (isinstance(b, ast.Constant) and isinstance(b.value, float) and 0 < abs(b.value) < 1e-3):
                            bad = (x, 'the tolerance test `%s`' % ast.unparse(x)[:50])
            if isinstance(x, ast.Compare) and len(x.ops) == 1 and isinstance(x.ops[0], (ast.Eq, ast.NotEq)):
                if all(isinstance(s_, ast.Call) and isinstance(s_.func, ast.Name) and s_.func.id == 'round' for s_ in (x.left, x.comparators[0])):
                    bad = (x, 'the rounded comparison `%s`' % ast.unparse(x)[:50])
        if bad is not None:
            owner = None
            for fn in ast.walk(mod.tree):
                if isinstance(fn, ast.FunctionDef) and any(y is bad[0] for y in ast.walk(fn)):
                    owner = fn.name
            rep.fail(rule, mod.rel, owner or '<module>', 'approximate-comparison', '%s compares values up to a tolerance: two different robustness values count as equal -- where samples are merged '
                     'a small step vanishes from the signal, in a verdict `>` becomes `>=`' % bad[1], bad[0].lineno)
        else:
            rep.ok(rule, mod.rel, '<module>', 'exact-comparisons', 'no comparison up to a tolerance', 1)
    return n


def check_dense_values(ix, rep, funcs, label, rule='R-TRUTHY'):
    """dense-time code: the value component of an emitted sample ([t, v] / (t0, t1, v)) and everything it is computed from through min / max /
    plain copies is a robustness value; using one for its truth value (`if nxt:`, `nxt or ..`, `not v`) treats 0.0 -- a value exactly on the
    threshold -- and None alike.  Names are typed backwards from the emission sites and forwards through copies, per function."""
    n = 0
    for f in funcs:
        values = set()

        def val_names(e, acc):
            if isinstance(e, ast.Name):
                acc.add(e.id)
            elif isinstance(e, ast.Attribute) and isinstance(e.value, ast.Name) and e.value.id == 'self':
                acc.add('self.' + e.attr)
            elif isinstance(e, ast.Call) and isinstance(e.func, ast.Name) and e.func.id in ('min', 'max'):
                for a in e.args:
                    val_names(a, acc)
            elif isinstance(e, ast.UnaryOp) and isinstance(e.op, ast.USub):
                val_names(e.operand, acc)
            elif isinstance(e, ast.IfExp):
                val_names(e.body, acc)
                val_names(e.orelse, acc)

        def key(t):
            if isinstance(t, ast.Name):
                return t.id
            if isinstance(t, ast.Attribute) and isinstance(t.value, ast.Name) and t.value.id == 'self':
                return 'self.' + t.attr
            return None
        for x in ast.walk(f.node):
            if isinstance(x, ast.Call) and isinstance(x.func, ast.Attribute) and x.func.attr in ('append', 'insert') and x.args \
                    and isinstance(x.args[-1], (ast.List, ast.Tuple)) and len(x.args[-1].elts) in (2, 3):
                val_names(x.args[-1].elts[-1], values)
        for _ in range(6):
            before = len(values)
            for x in ast.walk(f.node):
                if isinstance(x, ast.Assign) and len(x.targets) == 1 and key(x.targets[0]) is not None:
                    k = key(x.targets[0])
                    acc = set()
                    val_names(x.value, acc)
                    if k in values:
                        values |= acc                     # what a value is computed from
                    elif acc & values and isinstance(x.value, (ast.Name, ast.Attribute, ast.Call, ast.UnaryOp, ast.IfExp)):
                        values.add(k)                      # a copy / min / max of values
            if len(values) == before:
                break
        if not values:
            continue
        n += 1
        rep.analysed(f)
        bad = []
        for e in _truth_uses(f.node):
            k = key(e)
            if k in values:
                bad.append((e, k))
        if bad:
            for e, k in bad[:3]:
                rep.fail(rule, f.module.rel, f.qual, '%s:truth-of:%s' % (label, k), '`%s` holds a robustness value (it is emitted as the value of a sample, or a value is computed from it) '
                         'and is used for its truth value: a robustness of exactly 0.0 is taken for "nothing there"' % k, e.lineno)
        else:
            rep.ok(rule, f.module.rel, f.qual, '%s:values-not-flags' % label, 'no robustness value is used for its truth value (%d value names)' % len(values), f.node.lineno)
    return n


def check_entry_verbatim(ix, rep, f, kind, rule='R-ENTRY'):
    """the samples the monitor computes with are the samples the caller supplied: what a data-entry function stores for a variable is the value
    it took out of the data set, or a container copy of it (`list(v)`, `v[:]`, `copy(v)`) -- never a conversion of the elements.  `float(v)` of
    an int sample above 2**53 is another number; round(), int(), a numpy cast likewise."""
    if len(f.node.args.args) < 2:
        return 0
    dparam = f.node.args.args[-1].arg
    tainted = {dparam}
    changed = True
    while changed:
        changed = False
        for n in ast.walk(f.node):
            pairs = []
            if isinstance(n, ast.Assign) and len(n.targets) == 1 and isinstance(n.targets[0], ast.Name):
                pairs.append((n.targets[0].id, n.value))
            elif isinstance(n, ast.Assign) and len(n.targets) == 1 and isinstance(n.targets[0], ast.Tuple):
                for t in n.targets[0].elts:
                    if isinstance(t, ast.Name):
                        pairs.append((t.id, n.value))
            elif isinstance(n, (ast.For, ast.comprehension)):
                for t in ast.walk(n.target):
                    if isinstance(t, ast.Name):
                        pairs.append((t.id, n.iter))
            for name, val in pairs:
                if name not in tainted and any(isinstance(x, ast.Name) and x.id in tainted for x in ast.walk(val)):
                    tainted.add(name)
                    changed = True

    local_binds = {}
    for n_ in ast.walk(f.node):
        if isinstance(n_, ast.Assign) and len(n_.targets) == 1 and isinstance(n_.targets[0], ast.Name):
            local_binds.setdefault(n_.targets[0].id, []).append(n_.value)

    def verbatim(v, depth=0):
        if isinstance(v, ast.Name):
            # a local stands for what it is bound to (loop targets and parameters have no binding here: they are elements of the data set)
            if v.id in local_binds and depth < 4:
                return all(verbatim(b, depth + 1) for b in local_binds[v.id])
            return True
        if isinstance(v, ast.Subscript):
            return verbatim(v.value, depth)          # data[k], data[1], v[:]
        if isinstance(v, ast.Attribute):
            return verbatim(v.value, depth)
        if isinstance(v, ast.Call) and not v.keywords and len(v.args) == 1:
            fn = ast.unparse(v.func)
            if fn in ('list', 'copy', 'copy.copy', 'copy.deepcopy', 'deepcopy'):
                return verbatim(v.args[0], depth)
        if isinstance(v, ast.Call) and not v.keywords and not v.args and isinstance(v.func, ast.Attribute) and v.func.attr in ('copy', 'tolist'):
            return verbatim(v.func.value, depth)          # v.copy(), array.tolist(): the same numbers in a new container
        return False
    n = 0
    for st in ast.walk(f.node):
        if not (isinstance(st, ast.Assign) and len(st.targets) == 1):
            continue
        t = st.targets[0]
        is_store = (isinstance(t, ast.Subscript) and 'var_object_dict' in ast.unparse(t.value)) or (isinstance(t, ast.Attribute) and t.attr == 'sample')
        if not is_store:
            continue
        if not any(isinstance(x, ast.Name) and x.id in tainted for x in ast.walk(st.value)):
            continue
        n += 1
        slot = '%s:entry:%s' % (kind, ast.unparse(t)[:40])
        if verbatim(st.value):
            rep.ok(rule, f.module.rel, f.qual, slot, 'the supplied value (or a container copy of it) is stored', st.lineno)
        else:
            rep.fail(rule, f.module.rel, f.qual, slot, 'what is stored for the variable is `%s`, a conversion of the supplied samples: the monitor computes with other numbers than '
                     'the caller gave it (an int sample above 2**53 becomes a different float; the robustness between two such signals loses its sign)'
                     % ast.unparse(st.value)[:70], st.lineno)
    return n


CONVERSIONS = ('float', 'int', 'round', 'complex', 'str', 'repr', 'Decimal', 'Fraction', 'abs', 'bool')


def check_wrapper_verbatim(ix, rep, rule='R-ENTRY'):
    """the specification wrappers (`evaluate`, `update` of rtamt/spec/abstract_specification.py) hand the caller's data to the interpreter as it
    is: they may pack it into containers, they do not convert numbers -- `float(t)` of an integer time-stamp above 2**53 (epoch nanoseconds) is
    another instant, and two samples closer than the double spacing there collapse into one."""
    m = ix.module('rtamt.spec.abstract_specification')
    n = 0
    for cname, c in sorted(m.classes.items()):
        for mname in ('evaluate', 'update'):
            f = c.methods.get(mname)
            if f is None:
                continue
            a = f.node.args
            tainted = {x.arg for x in a.args[1:]} | ({a.vararg.arg} if a.vararg else set()) | ({a.kwarg.arg} if a.kwarg else set())
            if not tainted:
                continue
            changed = True
            while changed:
                changed = False
                for x in ast.walk(f.node):
                    pairs = []
                    if isinstance(x, ast.Assign):
                        for t in x.targets:
                            for y in ast.walk(t):
                                if isinstance(y, ast.Name) and isinstance(y.ctx, ast.Store):
                                    pairs.append((y.id, x.value))
                    elif isinstance(x, (ast.For, ast.comprehension)):
                        for y in ast.walk(x.target):
                            if isinstance(y, ast.Name):
                                pairs.append((y.id, x.iter))
                    for name, val in pairs:
                        if name not in tainted and any(isinstance(z, ast.Name) and z.id in tainted for z in ast.walk(val)):
                            tainted.add(name)
                            changed = True
            n += 1
            rep.analysed(f)
            bad = None
            for x in ast.walk(f.node):
                if isinstance(x, ast.Call) and x.args:
                    fn = x.func.id if isinstance(x.func, ast.Name) else (x.func.attr if isinstance(x.func, ast.Attribute) else None)
                    if fn in CONVERSIONS and any(isinstance(z, ast.Name) and z.id in tainted for z in ast.walk(x.args[0])):
                        bad = bad or x
            slot = '%s.%s:verbatim' % (cname, mname)
            if bad is not None:
                rep.fail(rule, f.module.rel, f.qual, slot, '%s() converts what the caller supplied (`%s`) before the interpreter sees it: an integer time-stamp or sample above 2**53 becomes '
                         'another number, two close samples collapse into one' % (mname, ast.unparse(bad)[:60]), bad.lineno)
            else:
                rep.ok(rule, f.module.rel, f.qual, slot, 'the data set is handed on as supplied (container operations only)', f.node.lineno)
    return n
