"""Rules about the parser front end (C14, C15): R-LISTENER, R-OPT, R-EXC, R-KEY, literal domain, R-GUARD-DOM,
termination shape, R-GRAM, R-TEXTFREE, precedence, LTL front end agreement, unless sugar."""
import ast

from sa.index import AnalysisError, ClassInfo, FuncInfo, External
from sa.index import before as _before
from sa import grammar as G, genparser as GP, flow, dispatch as D, model as M
from sa.rules import keys

SPEC_DICTS = ('var_type_dict', 'var_io_dict', 'var_object_dict', 'const_val_dict', 'const_type_dict', 'var_subspec_dict',
              'modules', 'var_topic_dict', 'phi_name_to_node_dict')


def parser_classes(ix):
    ltl, stl = M.parser_visitors(ix)
    absast = ix.find_class('rtamt.syntax.ast.parser.abstract_ast_parser', 'AbstractAst')
    return ltl, stl, absast


def label_method(label):
    return 'visit' + label[0].upper() + label[1:]


def alt_for_method(rules):
    """{visit method name: (rule name, Alt)} for labelled alternatives and unlabelled single rules"""
    out = {}
    for rname, alts in rules.items():
        for a in alts:
            if a.label:
                out[label_method(a.label)] = (rname, a)
        if all(a.label is None for a in alts):
            # unlabelled rule: one visit method for the rule, union of the alternatives
            out[label_method(rname)] = (rname, alts)
    return out


def optional_elements(entry):
    """names of elements that may be absent in the alternative(s)"""
    rname, a = entry
    alts = a if isinstance(a, list) else [a]
    opt = set()
    present_all = None
    for alt in alts:
        names_here = set()
        for e, o in alt.flat():
            if e.kind in ('token', 'rule'):
                names_here.add(e.value)
                if o:
                    opt.add(e.value)
        present_all = names_here if present_all is None else (present_all & names_here)
    if len(alts) > 1:
        for alt in alts:
            for e, o in alt.flat():
                if e.kind in ('token', 'rule') and e.value not in present_all:
                    opt.add(e.value)
    return opt


# ------------------------------------------------------------------------------------------------- R-LISTENER
def check_listener(ix, rep, grammars, rule='R-LISTENER'):
    ltl, stl, absast = parser_classes(ix)
    f = absast.methods.get('parse')
    if f is None:
        raise AnalysisError('AbstractAst.parse vanished')
    rep.analysed(f)
    rep.unit(f.module.rel)
    lexer_name = parser_name = None
    for st in ast.walk(f.node):
        if isinstance(st, ast.Assign) and isinstance(st.targets[0], ast.Name) and isinstance(st.value, ast.Call):
            fn = ast.unparse(st.value.func)
            if fn == 'self.antrlLexerType':
                lexer_name = st.targets[0].id
            if fn == 'self.antrlParserType':
                parser_name = st.targets[0].id
    if not lexer_name or not parser_name:
        raise AnalysisError('%s: lexer/parser construction not found' % f.where)
    # entry rule
    entry = None
    for n in ast.walk(f.node):
        if isinstance(n, ast.Call) and isinstance(n.func, ast.Attribute) and isinstance(n.func.value, ast.Name) and n.func.value.id == parser_name \
                and not n.func.attr.startswith(('_', 'remove', 'add')):
            entry = n
    if entry is None:
        raise AnalysisError('%s: entry rule call not found' % f.where)
    rules = G.effective_rules(grammars, 'StlParser')
    if GP.entry_rule_ends_with_eof(rules, entry.func.attr):
        rep.ok(rule, f.module.rel, f.qual, 'entry-rule', 'parse() starts at `%s`, which ends in EOF: trailing text is a syntax error' % entry.func.attr, entry.lineno)
    else:
        rep.fail(rule, f.module.rel, f.qual, 'entry-rule', 'parse() starts at rule `%s`, which does not end in EOF: text after a complete specification is silently ignored'
                 % entry.func.attr, entry.lineno)
    # listener installation for both recognisers, before the entry rule
    cfg = flow.CFG(f.node)
    dom = cfg.dominators()
    parents = {}
    for p in ast.walk(f.node):
        for c in ast.iter_child_nodes(p):
            parents[id(c)] = p
    entry_stmt = entry
    while id(entry_stmt) in parents and cfg.node(entry_stmt) is None:
        entry_stmt = parents[id(entry_stmt)]
    guard_if = None
    for who, nm in (('lexer', lexer_name), ('parser', parser_name)):
        installs = []
        for st in ast.walk(f.node):
            if isinstance(st, ast.Assign) and ast.unparse(st.targets[0]) == '%s._listeners' % nm and isinstance(st.value, ast.List) and len(st.value.elts) == 1:
                installs.append((st, st.value.elts[0]))
            if isinstance(st, ast.Expr) and isinstance(st.value, ast.Call) and ast.unparse(st.value.func) == '%s.addErrorListener' % nm:
                removed = any(isinstance(x, ast.Call) and ast.unparse(x.func) == '%s.removeErrorListeners' % nm and _before(x, st) for x in ast.walk(f.node))
                if removed:
                    installs.append((st, st.value.args[0]))
        good = [i for i in installs if 'parserErrorListenerType' in ast.unparse(i[1])]
        before = [i for i in good if _before(i[0], entry)]
        if before:
            rep.ok(rule, f.module.rel, f.qual, who, 'the default listeners of the %s are replaced by the raising listener before parsing starts' % who, before[0][0].lineno)
            # conditional on the listener type being given?
            st = before[0][0]
            p = parents.get(id(st))
            while p is not None and not isinstance(p, ast.FunctionDef):
                if isinstance(p, ast.If):
                    guard_if = p
                p = parents.get(id(p))
        else:
            rep.fail(rule, f.module.rel, f.qual, who,
                     'the ANTLR %s keeps its default console listener: %s' % (who, 'characters outside the token alphabet are reported on stderr and skipped, the text is then accepted'
                                                                                if who == 'lexer' else 'syntax errors are printed and recovered from'), f.node.lineno)
    # the listener type is always supplied and its syntaxError raises RTAMTException
    nsite = 0
    for m in ix.modules.values():
        for call in ast.walk(m.tree):
            if isinstance(call, ast.Call) and isinstance(call.func, ast.Call) and isinstance(call.func.func, ast.Name):
                ent = ix.resolve_expr(m, call.func.func)
                if isinstance(ent, FuncInfo) and ent.name == 'ast_factory':
                    if 'spec/ltl' in m.rel or '.ltl.' in m.name and False:
                        continue
                    nsite += 1
                    rep.unit(m.rel)
                    arg = call.args[2] if len(call.args) >= 3 else None
                    lis = None
                    if arg is not None:
                        lis = _resolve_value(ix, m, arg, call)
                    slot = 'listener-type:%s' % m.name.split('.')[-2]
                    if not isinstance(lis, ClassInfo):
                        rep.fail(rule, m.rel, m.name.split('.')[-1], slot, 'the Ast is built without an error listener type: syntax errors are printed and recovered from', call.lineno)
                        continue
                    se = ix.resolve_method(lis, 'syntaxError')
                    body = D.first_stmts(se) if se is not None else []
                    if se is not None and body and isinstance(body[0], ast.Raise) and D.is_rtamt_exception(ix, D.raised_class(ix, se, body[0])):
                        rep.analysed(se)
                        bad = _deref_of_optional_listener_args(se.node)
                        if bad:
                            rep.fail(rule, se.module.rel, se.qual, slot, 'syntaxError dereferences `%s` while building the message: ANTLR reports lexer errors with offendingSymbol=None '
                                     '(and some parser errors with e=None), so an illegal character raises AttributeError instead of RTAMTException' % ast.unparse(bad), bad.lineno)
                        else:
                            rep.ok(rule, se.module.rel, se.qual, slot, 'syntaxError unconditionally raises RTAMTException', se.node.lineno)
                    else:
                        rep.fail(rule, lis.module.rel, lis.name + '.syntaxError', slot, 'the listener\'s syntaxError does not unconditionally raise RTAMTException', lis.node.lineno)
                    # the other callbacks of the listener are diagnostics of the prediction (ambiguity resolved by precedence, full-context
                    # retry, context sensitivity): the text is in the language, raising from them rejects it -- and only in the spelling
                    # without redundant parentheses
                    for cb in ('reportAmbiguity', 'reportAttemptingFullContext', 'reportContextSensitivity'):
                        g = ix.resolve_method(lis, cb)
                        if g is None:
                            continue
                        raises = [x for x in ast.walk(g.node) if isinstance(x, ast.Raise)]
                        cslot = 'diagnostic:%s:%s' % (m.name.split('.')[-2], cb)
                        if raises:
                            rep.fail(rule, g.module.rel, g.qual, cslot, '%s raises: ANTLR calls it when a prediction needed more context or found two readings and resolved them by the '
                                     'precedence order of the grammar -- the text is derivable, yet parse() fails (`x >= 3 - a` is rejected, `x >= (3 - a)` accepted)' % cb, raises[0].lineno)
                        else:
                            rep.ok(rule, g.module.rel, g.qual, cslot, 'diagnostic callback does not raise', g.node.lineno)
    if nsite == 0:
        raise AnalysisError('no ast_factory(...) call site found')
    return nsite


def _deref_of_optional_listener_args(fn):
    """first attribute/subscript/call on the offendingSymbol or e parameter of syntaxError that no None test protects"""
    params = [a.arg for a in fn.args.args]
    if len(params) < 7:
        return None
    optional = {params[2], params[6]}
    parents = {}
    for p in ast.walk(fn):
        for c in ast.iter_child_nodes(p):
            parents[id(c)] = p
    for n in ast.walk(fn):
        base = None
        if isinstance(n, (ast.Attribute, ast.Subscript)) and isinstance(n.value, ast.Name) and n.value.id in optional:
            base = n.value.id
        if base is None:
            continue
        # protected by an enclosing test that mentions the name (if x is not None / x and ... / ... if x else ...)
        q = parents.get(id(n))
        child = n
        ok = False
        while q is not None and q is not fn:
            if isinstance(q, (ast.If, ast.IfExp)) and child is not q.test and any(isinstance(m_, ast.Name) and m_.id == base for m_ in ast.walk(q.test)):
                ok = True
                break
            if isinstance(q, ast.BoolOp) and isinstance(q.op, ast.And) and any(isinstance(m_, ast.Name) and m_.id == base for v in q.values if v is not child for m_ in ast.walk(v)):
                ok = True
                break
            child = q
            q = parents.get(id(q))
        if not ok:
            return n
    return None


def _resolve_value(ix, m, arg, call):
    """class an argument expression denotes: Name, or ``globals()['X']`` assigned to a local"""
    if isinstance(arg, ast.Name):
        ent = ix.resolve_expr(m, arg)
        if isinstance(ent, ClassInfo):
            return ent
        # local assigned from globals()['X']
        for f in ast.walk(m.tree):
            if isinstance(f, ast.FunctionDef) and any(x is call for x in ast.walk(f)):
                for st in f.body:
                    if isinstance(st, ast.Assign) and isinstance(st.targets[0], ast.Name) and st.targets[0].id == arg.id:
                        v = st.value
                        if isinstance(v, ast.Subscript) and isinstance(v.value, ast.Call) and getattr(v.value.func, 'id', None) == 'globals' \
                                and isinstance(v.slice, ast.Constant):
                            return ix.lookup(m, v.slice.value)
                        if isinstance(v, ast.Name):
                            return ix.resolve_expr(m, v)
    return None


# ------------------------------------------------------------------------------------------------- R-OPT
def _none_test(test, expr_src):
    """-> 'none-in-body' if the test is true when expr is None, 'none-in-else' if true when it is not None, else None"""
    s = ast.unparse(test).replace(' ', '')
    e = expr_src.replace(' ', '')
    if s in ('%s==None' % e, '%sisNone' % e, 'not%s' % e, 'not(%s)' % e, '(%sisNone)' % e):
        return 'none-in-body'
    if s in ('%s!=None' % e, '%sisnotNone' % e, 'not%sisNone' % e, 'not(%sisNone)' % e, e, 'not%s==None' % e):
        return 'none-in-else'
    if isinstance(test, ast.BoolOp) and isinstance(test.op, ast.And):
        for v in test.values:
            r = _none_test(v, expr_src)
            if r == 'none-in-else':
                return r
    return None


def check_optional(ix, rep, cls, rules, contexts, rule='R-OPT'):
    meths = alt_for_method(rules)
    n = 0
    for name, f in sorted(cls.methods.items()):
        if name not in meths:
            continue
        opt = optional_elements(meths[name])
        if not opt:
            continue
        rep.analysed(f)
        rep.unit(f.module.rel)
        ctxp = f.node.args.args[1].arg
        parents = {}
        for p in ast.walk(f.node):
            for c in ast.iter_child_nodes(p):
                parents[id(c)] = p
        for call in ast.walk(f.node):
            if not (isinstance(call, ast.Call) and isinstance(call.func, ast.Attribute) and isinstance(call.func.value, ast.Name)
                    and call.func.value.id == ctxp and call.func.attr in opt):
                continue
            if call.args:
                continue  # indexed access to a repeated element
            src = ast.unparse(call)
            par = parents.get(id(call))
            deref = False
            how = ''
            if isinstance(par, ast.Attribute) and par.value is call:
                deref, how = True, 'calls .%s on it' % par.attr
            if isinstance(par, ast.Call) and call in par.args and D._self_call(par) == 'visit':
                deref, how = True, 'passes it to self.visit()'
            if not deref:
                continue
            n += 1
            # find an enclosing None test placing this use in the non-None branch
            ok = False
            child = call
            p = parents.get(id(call))
            while p is not None:
                if isinstance(p, ast.If):
                    r = _none_test(p.test, src)
                    inbody = any(child is s or any(child is x for x in ast.walk(s)) for s in p.body)
                    if r == 'none-in-body' and not inbody:
                        ok = True
                    if r == 'none-in-else' and inbody:
                        ok = True
                if isinstance(p, ast.IfExp):
                    r = _none_test(p.test, src)
                    if r == 'none-in-else' and (child is p.body or any(child is x for x in ast.walk(p.body))):
                        ok = True
                    if r == 'none-in-body' and (child is p.orelse or any(child is x for x in ast.walk(p.orelse))):
                        ok = True
                child = p
                p = parents.get(id(p))
            # or dominated by an early exit: `if ctx.Y() is None: return/raise`
            if not ok:
                cfg = flow.CFG(f.node)
                dom = cfg.dominators()
                st = call
                while id(st) in parents and cfg.node(st) is None:
                    st = parents[id(st)]

                def pred(s, d):
                    return isinstance(s, ast.If) and _none_test(s.test, src) == 'none-in-body' and s.body and isinstance(s.body[-1], (ast.Return, ast.Raise)) \
                        and not any(x is st for b in s.body for x in ast.walk(b))
                ok = flow.dominated_by(cfg, dom, st, pred)
            slot = '%s:%s' % (name, call.func.attr)
            if ok:
                rep.ok(rule, f.module.rel, f.qual, slot, 'optional `%s` is used only where it was tested to be present' % call.func.attr, call.lineno)
            else:
                rep.fail(rule, f.module.rel, f.qual, slot, '`%s` is optional in alternative %s of the grammar but %s %s without a None test: AttributeError on a text that omits it'
                         % (call.func.attr, name[5:], f.name, how), call.lineno)
    return n


# ------------------------------------------------------------------------------------------------- R-EXC
def check_raises(ix, rep, classes, rule='R-EXC'):
    n = 0
    for cls in classes:
        for name, f in sorted(cls.methods.items()):
            for r in ast.walk(f.node):
                if isinstance(r, ast.Raise) and r.exc is not None:
                    n += 1
                    rep.analysed(f)
                    rep.unit(f.module.rel)
                    ent = D.raised_class(ix, f, r)
                    exc_name = ast.unparse(r.exc.func if isinstance(r.exc, ast.Call) else r.exc)
                    # re-raise of a caught exception object wrapped: raise RTAMTException(err)
                    if D.is_rtamt_exception(ix, ent):
                        rep.ok(rule, f.module.rel, f.qual, 'raise@%s' % _stmt_key(r), 'raises RTAMTException', r.lineno)
                    else:
                        rep.fail(rule, f.module.rel, f.qual, 'raise@%s' % _stmt_key(r), 'the parse path raises %s, not RTAMTException' % exc_name, r.lineno)
    return n


def _stmt_key(n):
    return ast.unparse(n)[:50]


# ------------------------------------------------------------------------------------------------- R-KEY on the parse path
def parse_reachable(ix):
    """methods executed by parse(): parse itself, every visit* builder method, and the self-calls they make (transitively)"""
    ltl, stl, absast = parser_classes(ix)
    concrete = None
    for (m, call, ci) in ix.factory_instances():
        if ci.factory[0].name == 'ast_factory' and ci.factory[1][0] is stl:
            concrete = ci
    if concrete is None:
        raise AnalysisError('concrete Ast class not found')
    work = [absast.methods['parse']]
    for c in (ltl, stl):
        work += [f for n, f in c.methods.items() if n.startswith('visit')]
    seen = {}
    while work:
        f = work.pop()
        if id(f) in seen:
            continue
        seen[id(f)] = f
        for call in ast.walk(f.node):
            if isinstance(call, ast.Call):
                m = D._self_call(call)
                if m and not m.startswith('visit'):
                    g = ix.resolve_method(concrete, m)
                    if g is not None and g.module.name.startswith('rtamt.syntax'):
                        work.append(g)
    return seen


def check_keys(ix, rep, classes, rule='R-KEY'):
    ltl, stl, absast = parser_classes(ix)
    reach = parse_reachable(ix)
    n = 0
    for cls in classes:
        for name, f in sorted(cls.methods.items()):
            if id(f) not in reach:
                continue
            al = keys.simple_aliases(f.node)
            for d in SPEC_DICTS:
                for ld in keys.dict_loads(f.node, d):
                    n += 1
                    rep.analysed(f)
                    rep.unit(f.module.rel)
                    slot = '%s[%s]' % (d, ast.unparse(ld.slice))
                    why = keys.justification(f.node, ld, d, al) or _guard_raise(f, ld, d) or _frozen(ix, rep, cls, f, ld, d)
                    if why:
                        rep.ok(rule, f.module.rel, f.qual, slot, why, ld.lineno)
                    else:
                        rep.fail(rule, f.module.rel, f.qual, slot, 'the dictionary is read with a key that is not known to be present (no membership test, no '
                                 'KeyError handler, no dominating store): KeyError escapes parse()', ld.lineno)
    return n


def _guard_raise(f, load, d):
    key = ast.unparse(load.slice)
    cfg = flow.CFG(f.node)
    dom = cfg.dominators()
    parents = {}
    for p in ast.walk(f.node):
        for c in ast.iter_child_nodes(p):
            parents[id(c)] = p
    st = load
    while id(st) in parents and cfg.node(st) is None:
        st = parents[id(st)]

    def test_pred(t):
        s = ast.unparse(t).replace(' ', '')
        return s.startswith('%snotin' % key.replace(' ', '')) and s.endswith(d) or s == 'not%sin%s' % (key, 'self.' + d)
    if flow.guard_raise_dominates(cfg, dom, st, test_pred):
        return 'dominated by `if %s not in %s: raise`' % (key, d)
    return None


def _frozen(ix, rep, cls, f, load, d):
    """interprocedural justifications, confirmed by reading and re-validated structurally on every run"""
    key = ast.unparse(load.slice)
    ltl, stl, absast = parser_classes(ix)
    # (1) AbstractAst.create_var_from_name: var_type_dict[var_name] -- every caller catches KeyError or stored the key first
    if f.name == 'create_var_from_name' and d == 'var_type_dict':
        bad = []
        ncall = 0
        for c in (ltl, stl, absast):
            for g in c.methods.values():
                for call in ast.walk(g.node):
                    if isinstance(call, ast.Call) and D._self_call(call) == 'create_var_from_name':
                        ncall += 1
                        arg = ast.unparse(call.args[0])
                        fake = ast.Subscript(value=ast.Attribute(value=ast.Name(id='self', ctx=ast.Load()), attr='var_type_dict', ctx=ast.Load()),
                                             slice=call.args[0], ctx=ast.Load())
                        if _in_try_keyerror(g.node, call) or _dominated_by_store(g.node, call, 'var_type_dict', arg):
                            continue
                        bad.append('%s (line %d)' % (g.qual, call.lineno))
        if ncall and not bad:
            return 'every one of the %d callers catches KeyError or stores var_type_dict[name] first' % ncall
        return None
    # (2) visitExprId: var_io_dict[id_head] -- declared variables have an io entry (co-written by declare_var)
    if f.name == 'visitExprId' and d == 'var_io_dict':
        dv = absast.methods.get('declare_var')
        if dv is None:
            return None
        vparam = dv.node.args.args[1].arg
        writes_type = [s for s in dv.node.body if isinstance(s, ast.Assign) and ast.unparse(s.targets[0]) == 'self.var_type_dict[%s]' % vparam]
        writes_io = [s for s in dv.node.body if isinstance(s, ast.Assign) and ast.unparse(s.targets[0]) == 'self.var_io_dict[%s]' % vparam]
        # var_type_dict is written nowhere else
        others = []
        for c in (ltl, stl, absast):
            for g in c.methods.values():
                if g is dv:
                    continue
                for s in ast.walk(g.node):
                    if isinstance(s, ast.Subscript) and isinstance(s.ctx, ast.Store) and isinstance(s.value, ast.Attribute) and s.value.attr == 'var_type_dict':
                        others.append(g.qual)
                    # ... nor through a method that adds entries (setdefault / update / __setitem__), or by re-binding the table
                    if isinstance(s, ast.Call) and isinstance(s.func, ast.Attribute) and s.func.attr in ('setdefault', 'update', '__setitem__') \
                            and isinstance(s.func.value, ast.Attribute) and s.func.value.attr == 'var_type_dict':
                        others.append(g.qual)
                    if isinstance(s, ast.Assign) and g.name != '__init__' and any(isinstance(t, ast.Attribute) and t.attr == 'var_type_dict' for t in s.targets):
                        others.append(g.qual)
        if not (writes_type and writes_io and not others):
            return None
        # the load is preceded by try: create_var_from_name(key) ... except KeyError: (raise | declare_var(...))
        for st in ast.walk(f.node):
            if isinstance(st, ast.Try) and _before(st, load):
                first = st.body[0] if st.body else None
                ok_try = isinstance(first, ast.Assign) and isinstance(first.value, ast.Call) and D._self_call(first.value) == 'create_var_from_name' \
                    and ast.unparse(first.value.args[0]) == key
                ok_exc = False
                for h in st.handlers:
                    if h.type is not None and ast.unparse(h.type) == 'KeyError':
                        # every path through the handler raises or declares
                        ok_exc = _handler_declares_or_raises(h.body, key)
                if ok_try and ok_exc:
                    return ('try: create_var_from_name(%s) succeeded => declared, and declare_var co-writes var_type_dict and var_io_dict; '
                            'except KeyError: raise or declare_var()' % key)
        return None
    # (3) online_operator_dict etc. are not on this path
    return None


def _handler_declares_or_raises(stmts, key=None):
    """every path through the handler raises or declares the variable *under the key that is looked up afterwards*"""
    if not stmts:
        return False
    for st in stmts:
        if isinstance(st, ast.Raise):
            return True
        if isinstance(st, ast.Expr) and isinstance(st.value, ast.Call) and D._self_call(st.value) == 'declare_var':
            if key is None or (st.value.args and ast.unparse(st.value.args[0]) == key):
                return True
        if isinstance(st, ast.If):
            if _handler_declares_or_raises(st.body, key) and _handler_declares_or_raises(st.orelse, key):
                return True
    return False


def _in_try_keyerror(fnode, node):
    parents = {}
    for p in ast.walk(fnode):
        for c in ast.iter_child_nodes(p):
            parents[id(c)] = p
    child = node
    p = parents.get(id(node))
    while p is not None:
        if isinstance(p, ast.Try) and any(child is s or any(child is x for x in ast.walk(s)) for s in p.body):
            for h in p.handlers:
                t = ast.unparse(h.type) if h.type is not None else '*'
                if t in ('KeyError', 'LookupError', 'Exception', '*') or 'KeyError' in t:
                    return True
        child = p
        p = parents.get(id(p))
    return False


def _dominated_by_store(fnode, node, d, key):
    cfg = flow.CFG(fnode)
    dom = cfg.dominators()
    parents = {}
    for p in ast.walk(fnode):
        for c in ast.iter_child_nodes(p):
            parents[id(c)] = p
    st = node
    while id(st) in parents and cfg.node(st) is None:
        st = parents[id(st)]

    def pred(s, dn):
        if isinstance(s, ast.Assign):
            for t in s.targets:
                if isinstance(t, ast.Subscript) and isinstance(t.value, ast.Attribute) and t.value.attr == d and ast.unparse(t.slice) == key:
                    return True
        return False
    return flow.dominated_by(cfg, dom, st, pred)


# ------------------------------------------------------------------------------------------------- literal domain
def check_literal_domain(ix, rep, classes, grammars, rule='R-LITERAL'):
    lx = grammars['LtlLexer']
    forms = set()
    for alt in lx.rules.get('IntegerLiteral', []):
        for e in alt.elems:
            if e.kind == 'token':
                forms.add(e.value)
    nondecimal = sorted(f for f in forms if f in ('HexNumeral', 'BinaryNumeral'))
    n = 0
    for cls in classes:
        for name, f in sorted(cls.methods.items()):
            for c in ast.walk(f.node):
                if isinstance(c, ast.Call) and isinstance(c.func, ast.Name) and c.func.id in ('float', 'Decimal') and c.args:
                    a = c.args[0]
                    src = ast.unparse(a)
                    textual = 'getText()' in src or 'const_val_dict' in src or (isinstance(a, ast.Name) and a.id in ('text', 'val', 'value', 'literal'))
                    if isinstance(a, ast.Name) and not textual:
                        # a local holding literal text?
                        for st in ast.walk(f.node):
                            if isinstance(st, ast.Assign) and isinstance(st.targets[0], ast.Name) and st.targets[0].id == a.id and \
                                    ('getText()' in ast.unparse(st.value) or 'const_val_dict' in ast.unparse(st.value)):
                                textual = True
                    if not textual:
                        continue
                    n += 1
                    rep.analysed(f)
                    rep.unit(f.module.rel)
                    err = 'ValueError' if c.func.id == 'float' else 'ArithmeticError'
                    handled = _in_try(f.node, c, (err, 'Exception', 'decimal.InvalidOperation', 'InvalidOperation', 'DecimalException', 'ArithmeticError', 'ValueError') if c.func.id == 'Decimal' else (err, 'Exception'))
                    slot = '%s(%s)' % (c.func.id, src[:30])
                    if not nondecimal or handled:
                        rep.ok(rule, f.module.rel, f.qual, slot, 'every literal form of the grammar is converted or the converter\'s error is handled', c.lineno)
                    else:
                        rep.fail(rule, f.module.rel, f.qual, slot, 'the grammar admits %s integer literals but the text goes straight into %s(), which rejects them with %s '
                                 '(not RTAMTException)' % ('/'.join(x.replace('Numeral', '').lower() for x in nondecimal), c.func.id, 'ValueError' if c.func.id == 'float' else 'decimal.InvalidOperation'), c.lineno)
    # digit-group underscores: the lexer admits 1__0, 0x1__F; float() and int() accept a single underscore between digits only
    under = sorted(r for r in ('IntegerLiteral', 'RealLiteral') if _lexer_reaches(lx, r, '_'))
    for cls in classes:
        for name, f in sorted(cls.methods.items()):
            for c in ast.walk(f.node):
                if isinstance(c, ast.Call) and isinstance(c.func, ast.Name) and c.func.id in ('float', 'int') and c.args:
                    a = c.args[0]
                    if not _is_literal_text(f.node, a):
                        continue
                    n += 1
                    slot = '%s(%s):underscores' % (c.func.id, ast.unparse(a)[:30])
                    if not under or _underscore_free(f.node, a, c):
                        rep.ok(rule, f.module.rel, f.qual, slot, 'digit-group underscores are removed before the conversion' if under else 'the lexer admits no underscores', c.lineno)
                    else:
                        rep.fail(rule, f.module.rel, f.qual, slot, 'the lexer admits runs of underscores inside %s (1__0, 0x1__F) but the text goes into %s() as it is: ValueError, not '
                                 'RTAMTException' % ('/'.join(under), c.func.id), c.lineno)
    return n


def _lexer_reaches(lx, rule, ch, _seen=None):
    _seen = _seen if _seen is not None else set()
    if rule in _seen or rule not in lx.rules:
        return False
    _seen.add(rule)

    def elems(es):
        for e in es:
            if e.kind == 'lit' and ch in e.value:
                return True
            if e.kind == 'set' and ch in e.value and not e.value.startswith('~'):
                return True
            if e.kind == 'token' and _lexer_reaches(lx, e.value, ch, _seen):
                return True
            if e.kind == 'group' and any(elems(a) for a in e.value):
                return True
        return False
    return any(elems(alt.elems) for alt in lx.rules[rule])


def _is_literal_text(fnode, a):
    src = ast.unparse(a)
    if 'getText()' in src or 'const_val_dict' in src:
        return True
    if isinstance(a, ast.Name):
        if a.id in [x.arg for x in fnode.args.args] and a.id in ('text', 'val', 'value', 'literal'):
            return True
        for st in ast.walk(fnode):
            if isinstance(st, ast.Assign) and isinstance(st.targets[0], ast.Name) and st.targets[0].id == a.id and \
                    ('getText()' in ast.unparse(st.value) or 'const_val_dict' in ast.unparse(st.value) or _is_strip_of_param(fnode, st.value)):
                return True
    return False


def _is_strip_of_param(fnode, v):
    return isinstance(v, ast.Call) and isinstance(v.func, ast.Attribute) and v.func.attr == 'replace' and isinstance(v.func.value, ast.Name) \
        and v.func.value.id in [x.arg for x in fnode.args.args]


def _strips_underscores(e):
    for n in ast.walk(e):
        if isinstance(n, ast.Call) and isinstance(n.func, ast.Attribute) and n.func.attr == 'replace' and len(n.args) == 2 \
                and isinstance(n.args[0], ast.Constant) and n.args[0].value == '_' and isinstance(n.args[1], ast.Constant) and n.args[1].value == '':
            return True
    return False


def _underscore_free(fnode, a, call):
    """the converted text has passed through .replace('_', ''): in the argument itself, or in the only assignments to the name before the call"""
    if _strips_underscores(a):
        return True
    if isinstance(a, ast.Name):
        defs = [st for st in ast.walk(fnode) if isinstance(st, ast.Assign) and any(isinstance(t, ast.Name) and t.id == a.id for t in st.targets)]
        before = [st for st in defs if _before(st, call)]
        # `if isinstance(x, float): x = repr(x)`: the text of a number has no underscores
        before = [st for st in before if not (isinstance(st.value, ast.Call) and isinstance(st.value.func, ast.Name) and st.value.func.id in ('repr', 'str')
                                              and _under_text_guard(fnode, st, a.id))]
        if before and all(_strips_underscores(st.value) for st in before) and all(st in fnode.body or _under_text_guard(fnode, st, a.id) for st in before):
            return True
    return False


def _under_text_guard(fnode, st, name):
    """st is the body of a top-level `if hasattr(name, 'replace'):` / `if isinstance(name, str):` -- a value that is not text has no underscores"""
    for top in fnode.body:
        if isinstance(top, ast.If) and st in top.body and not top.orelse and isinstance(top.test, ast.Call) and isinstance(top.test.func, ast.Name) \
                and top.test.args and isinstance(top.test.args[0], ast.Name) and top.test.args[0].id == name:
            if top.test.func.id == 'hasattr' and len(top.test.args) == 2 and isinstance(top.test.args[1], ast.Constant) and top.test.args[1].value == 'replace':
                return True
            if top.test.func.id == 'isinstance':
                return True
    return False


def _finite_names(f, e):
    """e is (a local bound once to) `T.get(k, 'lit')` / `T[k]` guarded... where T is a class- or module-level dict display whose values are all string
    literals: the attribute name is one of finitely many literals of the source"""
    if isinstance(e, ast.Name):
        binds = [st.value for st in ast.walk(f.node) if isinstance(st, ast.Assign) and len(st.targets) == 1 and isinstance(st.targets[0], ast.Name) and st.targets[0].id == e.id]
        if len(binds) != 1:
            return False
        e = binds[0]
    if not (isinstance(e, ast.Call) and isinstance(e.func, ast.Attribute) and e.func.attr == 'get' and len(e.args) == 2 and isinstance(e.args[1], ast.Constant)
            and isinstance(e.args[1].value, str)):
        return False
    tname = e.func.value.attr if isinstance(e.func.value, ast.Attribute) else (e.func.value.id if isinstance(e.func.value, ast.Name) else None)
    if tname is None:
        return False
    scopes = [f.module.tree.body] + ([f.owner.node.body] if f.owner is not None else [])
    for body in scopes:
        for st in body:
            if isinstance(st, ast.Assign) and len(st.targets) == 1 and isinstance(st.targets[0], ast.Name) and st.targets[0].id == tname and isinstance(st.value, ast.Dict):
                return all(isinstance(v, ast.Constant) and isinstance(v.value, str) for v in st.value.values)
    return False


def check_dynamic(ix, rep, rule='R-EXC'):
    """objects obtained by name at parse time (getattr on an imported module, instantiation of what it returns): AttributeError / TypeError
    must be turned into RTAMTException"""
    n = 0
    for f in sorted(parse_reachable(ix).values(), key=lambda g: (g.module.rel, g.qual)):
        dyn = {}
        for st in ast.walk(f.node):
            if isinstance(st, ast.Assign) and len(st.targets) == 1 and isinstance(st.targets[0], ast.Name) and isinstance(st.value, ast.Call) \
                    and isinstance(st.value.func, ast.Name) and st.value.func.id == 'getattr':
                dyn[st.targets[0].id] = st.value
        for c in ast.walk(f.node):
            if not isinstance(c, ast.Call):
                continue
            if isinstance(c.func, ast.Name) and c.func.id == 'getattr' and len(c.args) == 2 and not isinstance(c.args[1], ast.Constant):
                if _finite_names(f, c.args[1]):
                    continue        # the name comes out of a table of literals written in the source, not out of the specification text
                n += 1
                rep.analysed(f)
                slot = 'getattr(%s)' % ast.unparse(c.args[1])[:30]
                if _in_try_rtamt(f.node, c, ('AttributeError', 'Exception')):
                    rep.ok(rule, f.module.rel, f.qual, slot, 'AttributeError of the look-up by name is turned into RTAMTException', c.lineno)
                else:
                    rep.fail(rule, f.module.rel, f.qual, slot, 'attribute looked up by a name taken from the specification outside a try that turns AttributeError into '
                             'RTAMTException (`from os import nothing` ... )', c.lineno)
            if isinstance(c.func, ast.Name) and c.func.id in dyn:
                n += 1
                rep.analysed(f)
                slot = 'call:%s' % c.func.id
                if _in_try_rtamt(f.node, c, ('TypeError', 'Exception')):
                    rep.ok(rule, f.module.rel, f.qual, slot, 'TypeError of instantiating the looked-up object is turned into RTAMTException', c.lineno)
                else:
                    rep.fail(rule, f.module.rel, f.qual, slot, 'the object looked up by name is called outside a try that turns TypeError into RTAMTException '
                             '(`from os import path` then `path p`: a module is not callable)', c.lineno)
                # ... and it is called only if it is a class: the name comes from the specification text, and a function of an imported module is
                # *run* by the call -- `from sys import exit` then `exit a` raises SystemExit, which no `except Exception` turns into RTAMTException
                n += 1
                slot = 'call:%s:class-only' % c.func.id
                cfg_ = flow.CFG(f.node)
                dom_ = cfg_.dominators()
                nm_ = c.func.id

                def _class_guard(st_, dn_):
                    # `if not isinstance(x, type): raise ...` / `if not inspect.isclass(x): raise ...` dominating the call
                    if not isinstance(st_, ast.If) or not any(isinstance(b_, ast.Raise) for b_ in st_.body):
                        return False
                    t_ = st_.test
                    if not (isinstance(t_, ast.UnaryOp) and isinstance(t_.op, ast.Not)):
                        return False
                    t_ = t_.operand
                    txt_ = ast.unparse(t_).replace(' ', '')
                    return txt_ in ('isinstance(%s,type)' % nm_, 'inspect.isclass(%s)' % nm_, 'isclass(%s)' % nm_)
                holder = c
                parents_ = {}
                for p_ in ast.walk(f.node):
                    for ch_ in ast.iter_child_nodes(p_):
                        parents_[id(ch_)] = p_
                while id(holder) in parents_ and cfg_.node(holder) is None:
                    holder = parents_[id(holder)]
                if flow.dominated_by(cfg_, dom_, holder, _class_guard):
                    rep.ok(rule, f.module.rel, f.qual, slot, 'only a class is instantiated', c.lineno)
                else:
                    rep.fail(rule, f.module.rel, f.qual, slot, 'whatever the imported module has under the type name is called: `from sys import exit` followed by `exit a` runs sys.exit() and '
                             'SystemExit leaves parse() (a BaseException: no handler for Exception converts it)', c.lineno)
    return n


def _in_try_rtamt(fnode, node, names):
    """node lies in a try body with a handler for one of names whose body raises RTAMTException"""
    parents = {}
    for p in ast.walk(fnode):
        for ch in ast.iter_child_nodes(p):
            parents[id(ch)] = p
    child = node
    p = parents.get(id(node))
    while p is not None:
        if isinstance(p, ast.Try) and any(child is s for s in p.body):
            for h in p.handlers:
                t = ast.unparse(h.type) if h.type is not None else '*'
                if t == '*' or any(nm in t for nm in names):
                    if any(isinstance(r, ast.Raise) and r.exc is not None and 'RTAMTException' in ast.unparse(r.exc) for r in ast.walk(h)):
                        return True
        child = p
        p = parents.get(id(p))
    return False


def _in_try(fnode, node, names):
    parents = {}
    for p in ast.walk(fnode):
        for c in ast.iter_child_nodes(p):
            parents[id(c)] = p
    child = node
    p = parents.get(id(node))
    while p is not None:
        if isinstance(p, ast.Try) and any(child is s or any(child is x for x in ast.walk(s)) for s in p.body):
            for h in p.handlers:
                t = ast.unparse(h.type) if h.type is not None else '*'
                if t == '*' or any(nm in t for nm in names):
                    return True
        child = p
        p = parents.get(id(p))
    return False


def check_string_index(ix, rep, rule='R-EXC'):
    """parse(): no constant index into the specification text unless it is known to be non-empty"""
    ltl, stl, absast = parser_classes(ix)
    f = absast.methods['parse']
    bad = []
    for n in ast.walk(f.node):
        if isinstance(n, ast.Subscript) and isinstance(n.ctx, ast.Load) and isinstance(n.value, ast.Name) and isinstance(n.slice, (ast.Constant, ast.UnaryOp)):
            if isinstance(n.slice, ast.Constant) and not isinstance(n.slice.value, int):
                continue
            if n.value.id in ('entire_spec', 'spec', 'text'):
                bad.append(n)
    if bad:
        rep.fail(rule, f.module.rel, f.qual, 'text-index', '`%s` indexes the specification text, which may be empty: IndexError instead of RTAMTException' % ast.unparse(bad[0]), bad[0].lineno)
    else:
        rep.ok(rule, f.module.rel, f.qual, 'text-index', 'the specification text is never indexed by position', f.node.lineno)
    # the omitted final ';': decided where the lexer would see the last token, i.e. before the white space and comments it skips
    _check_terminator(ix, rep, f)


def _lexer_skips(ix):
    """(set of white-space characters the lexer skips, has line comments, has block comments, line-comment terminators)"""
    lx = G.load(ix.repo)['LtlLexer']
    ws = set()
    line = block = False
    term = set()
    for name, alts in lx.rules.items():
        for alt in alts:
            if not any(e.kind == 'cmd' and e.value == 'skip' for e in alt.elems):
                continue
            for e in alt.elems:
                if e.kind == 'set' and not e.value.startswith('~'):
                    body = e.value[1:-1]
                    body = body.replace('\\t', '\t').replace('\\r', '\r').replace('\\n', '\n').replace('\\u000C', '\x0c').replace('\\f', '\x0c')
                    ws |= set(body)
                if e.kind == 'lit' and e.value == '//':
                    line = True
                if e.kind == 'lit' and e.value == '/*':
                    block = True
                if e.kind == 'set' and e.value.startswith('~'):
                    body = e.value[2:-1].replace('\\r', '\r').replace('\\n', '\n')
                    term |= set(body)
    return ws, line, block, term


def _check_terminator(ix, rep, f, rule='R-GRAM'):
    import re as _re
    ws, line, block, term = _lexer_skips(ix)
    src = ast.unparse(f.node).replace(' ', '')
    appends = [n for n in ast.walk(f.node) if (isinstance(n, ast.AugAssign) and isinstance(n.value, ast.Constant) and n.value.value == ';')
               or (isinstance(n, ast.BinOp) and isinstance(n.op, ast.Add) and any(isinstance(x, ast.Constant) and x.value == ';' for x in ast.walk(n)))]
    slot = 'final-semicolon'
    if not appends:
        rep.fail(rule, f.module.rel, f.qual, slot, "parse() never adds the omitted final ';'", f.node.lineno)
        return
    # which tail does the test skip?
    regexes = []
    for m_ in (ix.modules.values()):
        if m_ is not f.module:
            continue
        for n in ast.walk(m_.tree):
            if isinstance(n, ast.Call) and isinstance(n.func, ast.Attribute) and isinstance(n.func.value, ast.Name) and n.func.value.id == 're' \
                    and n.args and isinstance(n.args[0], ast.Constant) and isinstance(n.args[0].value, str):
                regexes.append((n, n.args[0].value))
    skipped_ws = None
    knows_line = knows_block = False
    line_term = set()
    how = None
    # (e) the lexer itself is asked for the last token: exact by construction
    lexes = []
    scope = [f] + [g for g in (ix.resolve_method(f.owner, c.func.attr) for c in ast.walk(f.node)
                               if isinstance(c, ast.Call) and isinstance(c.func, ast.Attribute) and isinstance(c.func.value, ast.Name) and c.func.value.id == 'self') if g is not None]
    for g in scope:
        builds_lexer = any(isinstance(c, ast.Call) and ast.unparse(c.func) == 'self.antrlLexerType' for c in ast.walk(g.node))
        walks_tokens = any(isinstance(c, ast.Call) and isinstance(c.func, ast.Attribute) and c.func.attr in ('nextToken', 'getAllTokens', 'fill') for c in ast.walk(g.node))
        if builds_lexer and walks_tokens and g is not f:
            lexes.append(g)
    cmp_text = any(isinstance(c, ast.Compare) and any(isinstance(x, ast.Attribute) and x.attr == 'text' for x in ast.walk(c))
                   and any(isinstance(x, ast.Constant) and x.value == ';' for x in ast.walk(c)) for c in ast.walk(f.node))
    if lexes and cmp_text:
        g = lexes[0]
        listener = any('parserErrorListenerType' in ast.unparse(n) and isinstance(n, ast.Assign) for n in ast.walk(g.node))
        # the offset of the last token is an offset into the text that was scanned: the ';' has to be spliced into that same text
        scanned = [ast.unparse(c.args[0]) for c in ast.walk(f.node) if isinstance(c, ast.Call) and isinstance(c.func, ast.Attribute) and isinstance(c.func.value, ast.Name)
                   and c.func.value.id == 'self' and c.func.attr == g.node.name and c.args]
        spliced = []
        for st in ast.walk(f.node):
            if isinstance(st, ast.Assign) and len(st.targets) == 1 and isinstance(st.targets[0], ast.Name) and any(isinstance(x, ast.Constant) and x.value == ';' for x in ast.walk(st.value)):
                bases = {ast.unparse(x.value) for x in ast.walk(st.value) if isinstance(x, ast.Subscript) and isinstance(x.slice, ast.Slice)}
                spliced.append((st, bases))
        mism = [(st, b) for st, b in spliced if b and scanned and not (b <= set(scanned))]
        if mism:
            rep.fail(rule, f.module.rel, f.qual, slot + ':offset', "the last token is looked for in `%s` but its offset is used to splice the ';' into `%s`: with sub-specifications in front the "
                     "';' lands inside the text, the terminated and the unterminated spelling no longer parse alike" % (scanned[0], sorted(mism[0][1])[0]), mism[0][0].lineno)
            return
        if listener:
            rep.ok(rule, f.module.rel, f.qual, slot, 'the lexer is asked for the last token (%s): white space, comments and `//` inside identifiers are handled exactly as in the parse proper; '
                   'its errors go to the raising listener' % g.qual, appends[0].lineno)
        else:
            rep.fail(rule, f.module.rel, f.qual, slot + ':listener', 'the auxiliary lexer run (%s) keeps the console listener: an illegal character is printed and skipped there' % g.qual, g.node.lineno)
        return
    ident_chars = set()
    lxg = G.load(ix.repo)['LtlLexer']
    for rn in ('IdentifierPart', 'IdentifierStart', 'Identifier'):
        for alt in lxg.rules.get(rn, []):
            for e in alt.flat():
                if e[0].kind == 'lit':
                    ident_chars |= set(e[0].value)
    if regexes:
        import re._parser as sre
        n, pat = regexes[0]
        try:
            tree = sre.parse(pat, _re.DOTALL)
        except Exception as e:
            rep.error('%s (%s): regular expression %r not parsed (%s)' % (f.where, f.qual, pat, e))
            return
        skipped_ws = set()

        def walk(items):
            nonlocal knows_line, knows_block
            items = list(items)
            lits = ''.join(chr(a) for op, a in items if str(op) == 'LITERAL')
            if lits.startswith('//'):
                knows_line = True
                for op, a in items:
                    if str(op) == 'NOT_LITERAL':
                        line_term.add(chr(a))
                    if str(op) in ('MAX_REPEAT', 'MIN_REPEAT'):
                        for op2, a2 in a[2]:
                            if str(op2) == 'IN' and a2 and str(a2[0][0]) == 'NEGATE':
                                for op3, a3 in a2[1:]:
                                    if str(op3) == 'LITERAL':
                                        line_term.add(chr(a3))
                            if str(op2) == 'NOT_LITERAL':
                                line_term.add(chr(a2))
            if lits.startswith('/*'):
                knows_block = True
            for op, a in items:
                so = str(op)
                if so == 'IN':
                    if a and str(a[0][0]) == 'NEGATE':
                        continue
                    for op2, a2 in a:
                        if str(op2) == 'LITERAL':
                            skipped_ws.add(chr(a2))
                        if str(op2) == 'CATEGORY' and 'SPACE' in str(a2) and 'NOT' not in str(a2):
                            skipped_ws.update(' \t\r\n\x0c\x0b')
                elif so == 'LITERAL' and chr(a) in ' \t\r\n\x0c' and len(items) == 1:
                    skipped_ws.add(chr(a))
                elif so == 'CATEGORY' and 'SPACE' in str(a) and 'NOT' not in str(a):
                    skipped_ws.update(' \t\r\n\x0c\x0b')
                elif so in ('MAX_REPEAT', 'MIN_REPEAT'):
                    walk(a[2])
                elif so == 'SUBPATTERN':
                    walk(a[3])
                elif so == 'BRANCH':
                    for br in a[1]:
                        walk(br)
        walk(tree)
        how = 'regular expression %r' % pat
    elif '.rstrip().endswith(\';\')' in src or '.strip().endswith(\';\')' in src:
        skipped_ws = set(' \t\r\n\x0c\x0b')
        how = 'rstrip().endswith(";")'
    elif "[-1]!=';'" in src:
        skipped_ws = set()
        how = 'last character'
    else:
        rep.error('%s (%s): the test for the final ";" is in no recognised form' % (f.where, f.qual))
        return
    missing = sorted(ws - skipped_ws)
    probs = []
    if missing:
        probs.append(('white-space', 'the test (%s) does not skip %s, which the lexer skips: a final ";" followed by it is not recognised and a second one is added' % (
            how, ', '.join(repr(c) for c in missing))))
    if line and not knows_line:
        probs.append(('line-comment', 'the lexer skips `// ...` comments but the test (%s) does not: `phi // c` gets its ";" appended inside the comment and is rejected, while `phi; // c` '
                      'is accepted -- the omitted final ";" changes the result' % how))
    if block and not knows_block:
        probs.append(('block-comment', 'the lexer skips `/* ... */` comments but the test (%s) does not: `phi; /* c */` gets a second ";" and is rejected' % how))
    if knows_line and '/' in ident_chars:
        probs.append(('identifier-slash', 'the test takes every `//` for the start of a comment, but `/` may occur inside an identifier (`robot//speed` is one token): the ";" is inserted '
                      'in front of the rest of the line, which the lexer then skips as a comment -- trailing garbage and illegal characters are silently accepted'))
    if knows_line and term and not term <= line_term:
        probs.append(('line-comment-end', 'a `//` comment ends at %s in the lexer but the test lets it run past %s' % (sorted(term), sorted(term - line_term))))
    for key, text in probs:
        rep.fail(rule, f.module.rel, f.qual, '%s:%s' % (slot, key), text, appends[0].lineno)
    if not probs:
        rep.ok(rule, f.module.rel, f.qual, slot, 'the final ";" is looked for before the white space and comments the lexer skips (%s)' % how, appends[0].lineno)


# ------------------------------------------------------------------------------------------------- interval guard
def check_interval_guard(ix, rep, rule='R-GUARD-DOM'):
    ltl, stl, absast = parser_classes(ix)
    f = stl.methods.get('visitInterval')
    rep.analysed(f)
    cfg = flow.CFG(f.node)
    dom = cfg.dominators()
    target = None
    for st in f.node.body:
        for c in ast.walk(st):
            if isinstance(c, ast.Call) and isinstance(c.func, ast.Name) and c.func.id == 'Interval':
                target = st

    # the two bounds are whatever the results of intervalTime(0) / intervalTime(1) are called; a local that holds a bound scaled by its unit stands for it
    bvar, evar = 'begin', 'end'
    binds = {}
    stores = {}
    for n_ in ast.walk(f.node):
        if isinstance(n_, ast.Name) and isinstance(n_.ctx, ast.Store):
            stores[n_.id] = stores.get(n_.id, 0) + 1
    for st in f.node.body:
        if isinstance(st, ast.Assign) and isinstance(st.targets[0], ast.Tuple) and len(st.targets[0].elts) == 2 and isinstance(st.targets[0].elts[0], ast.Name):
            v_ = ast.unparse(st.value).replace(' ', '')
            if 'intervalTime(0)' in v_:
                bvar = st.targets[0].elts[0].id
            if 'intervalTime(1)' in v_:
                evar = st.targets[0].elts[0].id
        if isinstance(st, ast.Assign) and len(st.targets) == 1 and isinstance(st.targets[0], ast.Name) and stores.get(st.targets[0].id) == 1:
            binds[st.targets[0].id] = st.value

    def mentions(e, var, depth=0):
        for x in ast.walk(e):
            if isinstance(x, ast.Name):
                if x.id == var:
                    return True
                if x.id in binds and depth < 3 and mentions(binds[x.id], var, depth + 1):
                    return True
        return False

    def test_pred(t, negated=False):
        if isinstance(t, ast.UnaryOp) and isinstance(t.op, ast.Not):
            return test_pred(t.operand, not negated)
        if isinstance(t, ast.BoolOp) and isinstance(t.op, ast.Or) and not negated:
            return any(test_pred(v) for v in t.values)
        if isinstance(t, ast.Compare) and len(t.ops) == 1 and isinstance(t.ops[0], (ast.Gt, ast.Lt, ast.GtE, ast.LtE)):
            op = type(t.ops[0])
            if negated:
                op = {ast.Gt: ast.LtE, ast.Lt: ast.GtE, ast.GtE: ast.Lt, ast.LtE: ast.Gt}[op]
            lb, le = mentions(t.left, bvar), mentions(t.left, evar)
            rb, re_ = mentions(t.comparators[0], bvar), mentions(t.comparators[0], evar)
            return (op is ast.Gt and lb and not le and re_ and not rb) or (op is ast.Lt and le and not lb and rb and not re_)
        return False
    if target is None:
        raise AnalysisError('%s: Interval construction not found' % f.where)
    ok = flow.guard_raise_dominates(cfg, dom, target, test_pred)
    # the guard raises RTAMTException
    exc_ok = False
    for st in f.node.body:
        if isinstance(st, ast.If) and test_pred(st.test) and st.body and isinstance(st.body[-1], ast.Raise):
            exc_ok = D.is_rtamt_exception(ix, D.raised_class(ix, f, st.body[-1]))
    if ok and exc_ok:
        rep.ok(rule, f.module.rel, f.qual, 'begin<=end', 'Interval(...) is dominated by a guard rejecting begin > end with RTAMTException', target.lineno)
    else:
        rep.fail(rule, f.module.rel, f.qual, 'begin<=end', 'an interval whose lower bound exceeds its upper bound is accepted: no guard `begin > end -> raise RTAMTException` '
                 'dominates the construction of the Interval', target.lineno)


# ------------------------------------------------------------------------------------------------- termination shape
def check_termination(ix, rep, classes, rule='R-TERM'):
    n = 0
    for cls in classes:
        for name, f in sorted(cls.methods.items()):
            if not name.startswith('visit'):
                continue
            n += 1
            rep.analysed(f)
            ctxp = f.node.args.args[1].arg if len(f.node.args.args) > 1 else None
            probs = []
            for x in ast.walk(f.node):
                if isinstance(x, ast.While):
                    probs.append((x.lineno, 'contains a while loop'))
                if isinstance(x, ast.Call) and D._self_call(x) == 'visit' and x.args:
                    a = x.args[0]
                    if isinstance(a, ast.Name) and a.id == ctxp:
                        probs.append((x.lineno, 'visits its own context again (unbounded recursion)'))
                    elif not (isinstance(a, ast.Call) and isinstance(a.func, ast.Attribute) and isinstance(a.func.value, ast.Name) and a.func.value.id == ctxp):
                        probs.append((x.lineno, 'visits `%s`, which is not a child context' % ast.unparse(a)[:30]))
            if probs:
                for line, msg in probs:
                    rep.fail(rule, f.module.rel, f.qual, 'shape', 'builder method %s' % msg, line)
            else:
                rep.ok(rule, f.module.rel, f.qual, 'shape', 'no loop; recursion only into child contexts', f.node.lineno)
    return n


# ================================================================================================= C15
ALIASES = {  # the property's table: operator -> spellings
    'AlwaysOperator': {'always', 'G'}, 'EventuallyOperator': {'eventually', 'F'}, 'UntilOperator': {'until', 'U'},
    'UnlessOperator': {'unless', 'W'}, 'SinceOperator': {'since', 'S'}, 'OnceOperator': {'once', 'O'},
    'HistoricallyOperator': {'historically', 'H'}, 'NextOperator': {'next', 'X'}, 'PreviousOperator': {'prev', 'Y'},
    'StrongNextOperator': {'s_next', 'sX'}, 'StrongPreviousOperator': {'s_prev', 'sY'}, 'NotOperator': {'not', '!'},
    'AndOperator': {'and', '&'}, 'OrOperator': {'or', '|'}, 'ImpliesOperator': {'implies', '->'}, 'IffOperator': {'iff', '<->'},
}


def check_aliases(ix, rep, grammars, rule='R-GRAM'):
    lx = grammars['LtlLexer']
    views = {}
    for tag, modn in (('stl', 'rtamt.antlr.parser.stl.LtlLexer'), ('ltl', 'rtamt.antlr.parser.ltl.LtlLexer')):
        m = ix.module(modn)
        rep.unit(m.rel)
        views[tag] = GP.token_spellings(m)
    n = 0
    for tok, want in sorted(ALIASES.items()):
        g = lx.token_literals(tok)
        n += 1
        if g != want:
            rep.fail(rule, 'rtamt/antlr/grammar/tl/LtlLexer.g4', tok, 'alias:grammar', 'the lexer grammar gives %s the spellings %s; the documented aliases are %s'
                     % (tok, sorted(g) if g else g, sorted(want)))
        else:
            rep.ok(rule, 'rtamt/antlr/grammar/tl/LtlLexer.g4', tok, 'alias:grammar', '%s' % sorted(want))
        for tag, sp in views.items():
            got = sp.get(tok)
            if got != want:
                rep.fail(rule, 'rtamt/antlr/parser/%s/LtlLexer.py' % tag, tok, 'alias:generated-%s' % tag,
                         'the generated %s lexer accepts %s for %s; the documented aliases are %s (generated lexer out of date with the grammar?)'
                         % (tag, sorted(got) if got else got, tok, sorted(want)))
            else:
                rep.ok(rule, 'rtamt/antlr/parser/%s/LtlLexer.py' % tag, tok, 'alias:generated-%s' % tag, 'automaton accepts exactly %s' % sorted(want))
    # no other token steals an alias spelling with higher priority (earlier rule, same text)
    spell = views['stl']
    order = GP.lexer_atn(ix.module('rtamt.antlr.parser.stl.LtlLexer'))[1]
    for tok, want in ALIASES.items():
        for s in want:
            for other in order[:order.index(tok)]:
                so = spell.get(other)
                if so and s in so and other not in lx.fragments:
                    rep.fail(rule, 'rtamt/antlr/grammar/tl/LtlLexer.g4', tok, 'alias-shadow:%s' % s, 'the spelling %r of %s is also matched by the earlier token %s, which wins' % (s, tok, other))
    return n


def check_textfree(ix, rep, classes, grammars, rules, rule='R-TEXTFREE'):
    """the AST builder inspects token text only for single-spelling tokens / identifiers / literals, and its text comparisons are
    exhaustive over the sub-rule's alternatives"""
    lx = grammars['LtlLexer']
    multi = {t for t in lx.rules if (lx.token_literals(t) or set()) and len(lx.token_literals(t)) > 1}
    n = 0
    for cls in classes:
        for name, f in sorted(cls.methods.items()):
            ctxp = f.node.args.args[1].arg if len(f.node.args.args) > 1 else None
            for c in ast.walk(f.node):
                if isinstance(c, ast.Call) and isinstance(c.func, ast.Attribute) and c.func.attr == 'getText':
                    tgt = c.func.value
                    # ctx.X().getText() or ctx.X(i).getText()
                    if isinstance(tgt, ast.Call) and isinstance(tgt.func, ast.Attribute):
                        acc = tgt.func.attr
                        n += 1
                        rep.analysed(f)
                        rep.unit(f.module.rel)
                        slot = '%s:%s.getText' % (name, acc)
                        if acc in multi:
                            rep.fail(rule, f.module.rel, f.qual, slot, 'the builder reads the text of token %s, which has several spellings %s: aliases would build '
                                     'different trees' % (acc, sorted(lx.token_literals(acc))), c.lineno)
                            continue
                        if acc in rules:
                            # a sub-rule: the text is one of the alternatives' spellings; comparisons must be exhaustive
                            alts = []
                            for a in rules[acc]:
                                toks = [e.value for e, _ in a.flat() if e.kind == 'token']
                                sp = set()
                                for t in toks:
                                    lit = lx.token_literals(t)
                                    if lit is None:
                                        sp = None
                                        break
                                    sp |= lit
                                alts.append(sp)
                            if any(a is None for a in alts):
                                rep.ok(rule, f.module.rel, f.qual, slot, 'free text (identifier/literal/type name)', c.lineno)
                                continue
                            if any(len(a) > 1 for a in alts):
                                rep.fail(rule, f.module.rel, f.qual, slot, 'sub-rule %s has an alternative with several spellings' % acc, c.lineno)
                                continue
                            rep.ok(rule, f.module.rel, f.qual, slot, 'sub-rule with single-spelling alternatives %s' % sorted(x for a in alts for x in a), c.lineno)
                        else:
                            rep.ok(rule, f.module.rel, f.qual, slot, 'single-spelling token or free text', c.lineno)
    return n


def check_text_comparisons(ix, rep, grammars, rules, rule='R-TEXTFREE'):
    """if/elif chains comparing operator text cover the alternatives of the sub-rule with at most one default"""
    lx = grammars['LtlLexer']
    ltl, stl, absast = parser_classes(ix)
    targets = {'visitExprAddSub': 'addsubOp', 'visitExprMultDiv': 'multdivOp', 'str_to_op_type': 'comparisonOp'}
    for name, sub in targets.items():
        f = ix.resolve_method(stl, name)
        if f is None:
            raise AnalysisError('%s vanished' % name)
        rep.analysed(f)
        spell = []
        for a in rules[sub]:
            for e, _ in a.flat():
                if e.kind == 'token':
                    spell.append(sorted(lx.token_literals(e.value))[0])
        compared = {}
        chain = [s for s in f.node.body if isinstance(s, ast.If)]
        if not chain:
            raise AnalysisError('%s: no comparison chain' % f.where)
        n = chain[0]
        default_seen = False
        order = []
        while True:
            strs = [c.value for c in ast.walk(n.test) if isinstance(c, ast.Constant) and isinstance(c.value, str)]
            built = _what(n.body)
            for s in strs:
                compared[s] = built
            order.append((strs, built))
            if len(n.orelse) == 1 and isinstance(n.orelse[0], ast.If):
                n = n.orelse[0]
            else:
                default = _what(n.orelse)
                break
        rest = [s for s in spell if s not in compared]
        slot = '%s:exhaustive' % name
        if len(rest) <= 1 and (rest == [] or default is not None):
            rep.ok(rule, f.module.rel, f.qual, slot, 'comparisons %s + default cover the alternatives %s of %s' % (sorted(k for k in compared if k in spell), spell, sub), f.node.lineno)
        else:
            rep.fail(rule, f.module.rel, f.qual, slot, 'alternatives %s of %s fall into one default arm' % (rest, sub), f.node.lineno)
        # each spelling maps to the right constructor / enum member
        want = {'+': 'Addition', '-': 'Subtraction', '*': 'Multiplication', '/': 'Division',
                '<': 'LESS', '<=': 'LEQ', '>=': 'GEQ', '>': 'GREATER', '==': 'EQUAL', '!==': 'NEQ'}
        for s in spell:
            got = compared.get(s, default)
            if got == want[s]:
                rep.ok(rule, f.module.rel, f.qual, '%s:%s' % (name, s), '%r -> %s' % (s, got), f.node.lineno)
            else:
                rep.fail(rule, f.module.rel, f.qual, '%s:%s' % (name, s), 'operator text %r builds %s, expected %s' % (s, got, want[s]), f.node.lineno)


def _what(stmts):
    for st in stmts:
        for c in ast.walk(st):
            if isinstance(c, ast.Call) and isinstance(c.func, ast.Name) and c.func.id[:1].isupper():
                return c.func.id
            if isinstance(c, ast.Return) and isinstance(c.value, ast.Attribute):
                return c.value.attr
    return None


def check_builder_shape(ix, rep, rule='R-GRAM'):
    """visitInterval ignores the separator; visitExprParen returns the child's result; visitAssertion defaults the head to `out`"""
    ltl, stl, absast = parser_classes(ix)
    f = stl.methods['visitInterval']
    acc = {c.func.attr for c in ast.walk(f.node) if isinstance(c, ast.Call) and isinstance(c.func, ast.Attribute) and isinstance(c.func.value, ast.Name)
           and c.func.value.id == f.node.args.args[1].arg}
    if acc == {'intervalTime'}:
        rep.ok(rule, f.module.rel, f.qual, 'separator', 'only intervalTime(0/1) is read: "," and ":" build the same interval', f.node.lineno)
    else:
        rep.fail(rule, f.module.rel, f.qual, 'separator', 'visitInterval reads %s: the separator must not influence the interval' % sorted(acc - {'intervalTime'}), f.node.lineno)
    for meth in ('visitExprParen', 'visitExpr'):
        g = ix.resolve_method(stl, meth)
        body = D.first_stmts(g)
        ok = len(body) == 1 and isinstance(body[0], ast.Return) and D._self_call(body[0].value) == 'visit' \
            and ast.unparse(body[0].value.args[0]) == '%s.expression()' % g.node.args.args[1].arg
        if ok:
            rep.ok(rule, g.module.rel, g.qual, 'transparent', 'returns the node of the enclosed expression', g.node.lineno)
        else:
            rep.fail(rule, g.module.rel, g.qual, 'transparent', 'redundant parentheses are not transparent: %s does not return the enclosed expression\'s node unchanged' % meth, g.node.lineno)
    a = ix.resolve_method(stl, 'visitAssertion')
    src = ast.unparse(a.node).replace(' ', '').replace('"', "'")
    binds = {}
    for n_ in ast.walk(a.node):
        if isinstance(n_, ast.Assign) and len(n_.targets) == 1 and isinstance(n_.targets[0], ast.Name):
            binds.setdefault(n_.targets[0].id, []).append(n_.value)
    ctxp = a.node.args.args[1].arg

    def _ident(e, depth=0):
        if isinstance(e, ast.Name) and len(binds.get(e.id, ())) == 1 and depth < 3:
            return _ident(binds[e.id][0], depth + 1)
        return ast.unparse(e).replace(' ', '') == '%s.Identifier()' % ctxp

    def _missing(t, depth=0):
        if isinstance(t, ast.Name) and len(binds.get(t.id, ())) == 1 and depth < 3:
            return _missing(binds[t.id][0], depth + 1)
        if isinstance(t, ast.UnaryOp) and isinstance(t.op, ast.Not):
            return _present(t.operand)
        if isinstance(t, ast.Compare) and len(t.ops) == 1 and isinstance(t.ops[0], (ast.Is, ast.Eq)) and isinstance(t.comparators[0], ast.Constant) and t.comparators[0].value is None:
            return _ident(t.left)
        return False

    def _present(t, depth=0):
        if isinstance(t, ast.Name) and len(binds.get(t.id, ())) == 1 and depth < 3 and not _ident(t):
            return _present(binds[t.id][0], depth + 1)
        if isinstance(t, ast.UnaryOp) and isinstance(t.op, ast.Not):
            return _missing(t.operand)
        if isinstance(t, ast.Compare) and len(t.ops) == 1 and isinstance(t.ops[0], (ast.IsNot, ast.NotEq)) and isinstance(t.comparators[0], ast.Constant) and t.comparators[0].value is None:
            return _ident(t.left)
        return _ident(t)

    def _text(e):
        return isinstance(e, ast.Call) and isinstance(e.func, ast.Attribute) and e.func.attr == 'getText' and _ident(e.func.value)

    def _out(e):
        return isinstance(e, ast.Constant) and e.value == 'out'
    by_expr = any(isinstance(x, ast.IfExp) and ((_missing(x.test) and _out(x.body) and _text(x.orelse)) or (_present(x.test) and _text(x.body) and _out(x.orelse))) for x in ast.walk(a.node))
    if "ifnotctx.Identifier():id='out'" in src.replace('\n', '') or by_expr:
        rep.ok(rule, a.module.rel, a.qual, 'default-head', "an omitted assertion head is `out`", a.node.lineno)
    else:
        rep.fail(rule, a.module.rel, a.qual, 'default-head', "an omitted assertion head is not defaulted to `out`", a.node.lineno)


def check_precedence(ix, rep, grammars, rule='R-GRAM'):
    n = 0
    tables = {}
    for gname, modn in (('StlParser', 'rtamt.antlr.parser.stl.StlParser'), ('LtlParser', 'rtamt.antlr.parser.ltl.LtlParser')):
        rules = G.effective_rules(grammars, gname)
        alts = rules['expression']
        # binary alternatives: expression OP expression  (left-recursive on both ends)
        binary = [a.label for a in alts if a.elems and a.elems[0].kind == 'rule' and a.elems[0].value == 'expression'
                  and a.elems[-1].kind == 'rule' and a.elems[-1].value == 'expression']
        m = ix.module(modn)
        rep.unit(m.rel)
        table = GP.precedence_table(m)
        tables[gname] = [(c, p, r) for c, p, r in table]
        gen_order = [c[:-len('Context')] for c, p, r in table]
        if gen_order != binary:
            rep.fail(rule, m.rel, gname, 'precedence:order', 'the generated parser orders the binary alternatives %s, the grammar %s (generated parser out of date?)'
                     % (gen_order, binary))
            continue
        rep.ok(rule, m.rel, gname, 'precedence:order', 'binary alternatives in grammar order: %s' % ' > '.join(binary))
        prev = None
        rassoc = {a.label for a in alts if a.right_assoc}
        for lab_ in sorted(rassoc):
            rep.fail(rule, 'rtamt/antlr/grammar/tl/%s.g4' % gname, gname, 'assoc:%s' % lab_, 'alternative %s is declared right-associative: chains of that operator no longer group '
                     'left to right like every other binary operator (and like the other front end)' % lab_)
        for c, p, r in table:
            n += 1
            lab = c[:-len('Context')]
            if prev is not None and not p < prev:
                rep.fail(rule, m.rel, gname, 'precedence:%s' % lab, 'precedence level %d of %s is not below the preceding alternative (%d)' % (p, lab, prev))
            elif r != p + 1:
                rep.fail(rule, m.rel, gname, 'precedence:%s' % lab, 'right operand of %s is parsed at level %s, expected %d (left-associative)' % (lab, r, p + 1))
            else:
                rep.ok(rule, m.rel, gname, 'precedence:%s' % lab, 'level %d, right operand at %d (left-associative)' % (p, r))
            prev = p
    if 'StlParser' in tables and 'LtlParser' in tables:
        if tables['StlParser'] == tables['LtlParser']:
            rep.ok(rule, 'rtamt/antlr/parser/ltl/LtlParser.py', 'StlParser~LtlParser', 'precedence:agree', 'both front ends group binary operators identically')
        else:
            rep.fail(rule, 'rtamt/antlr/parser/ltl/LtlParser.py', 'StlParser~LtlParser', 'precedence:agree', 'the LTL and STL parsers group binary operators differently')
    return n


def check_ltl_front_end(ix, rep, grammars, rule='R-GRAM'):
    """LTL builder vs STL builder on untimed formulas; accessors exist on the generated contexts; constructor arity"""
    ltl, stl, absast = parser_classes(ix)
    nodes = {c.name: c for c in D.node_classes(ix)}
    ctx_of = {'ltl': GP.context_classes(ix.module('rtamt.antlr.parser.ltl.LtlParser')), 'stl': GP.context_classes(ix.module('rtamt.antlr.parser.stl.StlParser'))}
    n = 0
    # accessors
    for tag, cls in (('ltl', ltl), ('stl', stl)):
        for name, f in sorted(cls.methods.items()):
            if not name.startswith('visit') or len(f.node.args.args) < 2:
                continue
            cname = name[len('visit'):] + 'Context'
            cname = cname[0].upper() + cname[1:]
            ctxs = ctx_of[tag]
            if cname not in ctxs:
                # STL methods inherited rules (Spec..): look in either
                continue
            ctxp = f.node.args.args[1].arg
            for c in ast.walk(f.node):
                if isinstance(c, ast.Call) and isinstance(c.func, ast.Attribute) and isinstance(c.func.value, ast.Name) and c.func.value.id == ctxp:
                    acc = c.func.attr
                    if acc in ('getText', 'getChild', 'getChildCount', 'accept'):
                        continue
                    n += 1
                    if acc in ctxs[cname]['accessors']:
                        rep.ok(rule, f.module.rel, f.qual, 'accessor:%s.%s' % (cname, acc), 'exists on the generated %s context' % tag.upper(), c.lineno)
                    else:
                        rep.fail(rule, f.module.rel, f.qual, 'accessor:%s.%s' % (cname, acc),
                                 'the %s builder calls ctx.%s() but %sParser.%s has no such accessor (the %s grammar alternative has no such element): AttributeError'
                                 % (tag.upper(), acc, tag.capitalize(), cname, tag.upper()), c.lineno)
    # constructor arity
    for cls in (ltl, stl):
        for name, f in sorted(cls.methods.items()):
            for c in ast.walk(f.node):
                if isinstance(c, ast.Call) and isinstance(c.func, ast.Name) and c.func.id in nodes:
                    init = ix.resolve_method(nodes[c.func.id], '__init__')
                    a = init.node.args
                    npos = len(a.args) - 1
                    nreq = npos - len(a.defaults)
                    n += 1
                    if nreq <= len(c.args) <= npos:
                        rep.ok(rule, f.module.rel, f.qual, 'arity:%s@%s' % (c.func.id, name), '%d arguments' % len(c.args), c.lineno)
                    else:
                        rep.fail(rule, f.module.rel, f.qual, 'arity:%s@%s' % (c.func.id, name), '%s(...) is called with %d arguments, its constructor takes %d..%d'
                                 % (c.func.id, len(c.args), nreq, npos), c.lineno)
    # untimed arm of every overridden method builds what the LTL method builds
    for name, fs in sorted(stl.methods.items()):
        fl = ltl.methods.get(name)
        if fl is None or not name.startswith('visitExpr'):
            continue
        n += 1
        built_ltl = _built_classes(fl.node)
        arm = None
        for st in fs.node.body:
            if isinstance(st, ast.If) and 'interval' in ast.unparse(st.test):
                r = _none_test(st.test, '%s.interval()' % fs.node.args.args[1].arg)
                arm = st.body if r == 'none-in-body' else st.orelse if r == 'none-in-else' else None
        if arm is None:
            continue
        built_stl = _built_classes(ast.Module(body=list(arm), type_ignores=[]))
        # the tree returned without an interval, as a constructor term: the same tree however the statements are arranged
        ts, tl = _return_term(fs.node, True), _return_term(fl.node, True)
        if ts is not None and tl is not None and built_stl != built_ltl:
            if ts == tl:
                rep.ok(rule, fs.module.rel, fs.qual, 'untimed=%s' % name, 'without interval returns the tree %s like the LTL front end' % (_show_term(ts),), fs.node.lineno)
            else:
                rep.fail(rule, fs.module.rel, fs.qual, 'untimed=%s' % name, 'without interval the STL builder returns %s, the LTL builder %s' % (_show_term(ts), _show_term(tl)), fs.node.lineno)
            continue
        if built_stl == built_ltl:
            rep.ok(rule, fs.module.rel, fs.qual, 'untimed=%s' % name, 'without interval builds %s like the LTL front end' % built_ltl, fs.node.lineno)
        else:
            rep.fail(rule, fs.module.rel, fs.qual, 'untimed=%s' % name, 'without interval the STL builder constructs %s, the LTL builder %s' % (built_stl, built_ltl), fs.node.lineno)
    return n


def _show_term(t):
    if isinstance(t, tuple) and t and t[0] == 'build':
        return '%s(%s)' % (t[1], ', '.join(_show_term(a) for a in t[2]))
    if isinstance(t, tuple) and t and t[0] == 'child':
        return 'child%d' % t[1]
    return str(t[1]) if isinstance(t, tuple) and len(t) > 1 else str(t)


def _return_term(fnode, interval_none):
    """the value a builder method returns on the path on which ctx.interval() is None (interval_none) / is present, as a term over
    ('child', k) = self.visit(ctx.expression(k)) and ('build', Class, args); None when a statement is not interpreted"""
    ctxp = fnode.args.args[1].arg
    env = {}

    def term(e):
        if isinstance(e, ast.Name) and e.id in env:
            return env[e.id]
        if isinstance(e, ast.Call) and isinstance(e.func, ast.Attribute) and e.func.attr == 'visit' and isinstance(e.func.value, ast.Name) and e.func.value.id == 'self' \
                and len(e.args) == 1 and isinstance(e.args[0], ast.Call) and isinstance(e.args[0].func, ast.Attribute) and isinstance(e.args[0].func.value, ast.Name) \
                and e.args[0].func.value.id == ctxp:
            acc = e.args[0]
            if acc.func.attr == 'expression':
                k = acc.args[0].value if acc.args and isinstance(acc.args[0], ast.Constant) else 0
                return ('child', k)
            return ('visit', acc.func.attr)
        if isinstance(e, ast.Call) and isinstance(e.func, ast.Name) and e.func.id[:1].isupper() and not e.keywords:
            return ('build', e.func.id, tuple(term(a) for a in e.args))
        return ('?', ast.unparse(e).replace(' ', ''))

    def run(stmts):
        for st in stmts:
            if isinstance(st, ast.Expr):
                continue
            if isinstance(st, ast.Assign) and len(st.targets) == 1 and isinstance(st.targets[0], ast.Name):
                env[st.targets[0].id] = term(st.value)
                continue
            if isinstance(st, ast.Assign) and len(st.targets) == 1 and isinstance(st.targets[0], ast.Tuple) and isinstance(st.value, ast.Tuple) \
                    and len(st.targets[0].elts) == len(st.value.elts) and all(isinstance(t, ast.Name) for t in st.targets[0].elts):
                vals = [term(v) for v in st.value.elts]
                for t, v in zip(st.targets[0].elts, vals):
                    env[t.id] = v
                continue
            if isinstance(st, ast.Assign):
                continue        # stores into tables (registration): judged by R-NAMES
            if isinstance(st, ast.If):
                r = _none_test(st.test, '%s.interval()' % ctxp)
                if r is None:
                    return ('stop',)
                none_arm, some_arm = (st.body, st.orelse) if r == 'none-in-body' else (st.orelse, st.body)
                out = run(none_arm if interval_none else some_arm)
                if out is not None:
                    return out
                continue
            if isinstance(st, ast.Return):
                return ('ret', term(st.value) if st.value is not None else None)
            return ('stop',)
        return None
    out = run(fnode.body)
    if out is None or out[0] != 'ret':
        return None
    return out[1]


def _built_classes(node):
    out = []
    for c in ast.walk(node):
        if isinstance(c, ast.Call) and isinstance(c.func, ast.Name) and c.func.id[:1].isupper() and c.func.id not in ('Interval', 'RTAMTException'):
            out.append('%s(%s)' % (c.func.id, ', '.join(ast.unparse(a) for a in c.args)))
    return sorted(out)


def check_unless_sugar(ix, rep, rule='R-GRAM'):
    ltl, stl, absast = parser_classes(ix)
    f = stl.methods['visitExprUnless']
    rep.analysed(f)
    ctxp = f.node.args.args[1].arg
    timed = None
    for st in f.node.body:
        if isinstance(st, ast.If):
            r = _none_test(st.test, '%s.interval()' % ctxp)
            timed = st.orelse if r == 'none-in-body' else st.body if r == 'none-in-else' else None
    if timed is None:
        rep.fail(rule, f.module.rel, f.qual, 'unless-sugar', 'no bounded branch', f.node.lineno)
        return
    env = {}
    for st in f.node.body:
        if isinstance(st, ast.Assign) and isinstance(st.targets[0], ast.Name):
            env[st.targets[0].id] = ast.unparse(st.value).replace(' ', '')
    for st in timed:
        if isinstance(st, ast.Assign) and isinstance(st.targets[0], ast.Name):
            env[st.targets[0].id] = ast.unparse(st.value).replace(' ', '')

    def expand(s, depth=0):
        import re
        if depth > 4:
            return s
        for k in sorted(env, key=len, reverse=True):
            s = re.sub(r'(?<![\w.])%s(?![\w(])' % re.escape(k), lambda m: env[k], s) if k in ('left', 'right', 'interval_left', 'node') else s
        return s
    node = env.get('node', '')
    full = expand(expand(node))
    want = 'Disjunction(TimedAlways(child1,Interval(0,interval.end,interval.begin_unit,interval.end_unit)),TimedUntil(child1,child2,interval))'
    c1 = env.get('child1') == 'self.visit(%s.expression(0))' % ctxp
    c2 = env.get('child2') == 'self.visit(%s.expression(1))' % ctxp
    iv = env.get('interval') == 'self.visit(%s.interval())' % ctxp
    if full == want and c1 and c2 and iv:
        rep.ok(rule, f.module.rel, f.qual, 'unless-sugar', 'phi unless[a,b] psi = always[0,b] phi or phi until[a,b] psi, units carried', f.node.lineno)
    else:
        rep.fail(rule, f.module.rel, f.qual, 'unless-sugar', 'bounded unless builds `%s`; the documented sugar is always[0,b] phi or phi until[a,b] psi with both units carried' % full, f.node.lineno)


# ------------------------------------------------------------------------------------------------- every alternative has its builder
# label of an `expression` alternative -> node classes its builder constructs (LTL front end); transcribed from the grammar's
# labels and README "Specification Language"; the STL front end adds the Timed variant where the alternative admits an interval
LABEL_BUILDS = {
    'ExprNegate': {'Negate'}, 'ExprAbs': {'Abs'}, 'ExprSqrt': {'Sqrt'}, 'ExprExp': {'Exp'}, 'ExprPow': {'Pow'}, 'ExprLog': {'Log'}, 'ExprLn': {'Ln'},
    'ExprMultDiv': {'Multiplication', 'Division'}, 'ExprAddSub': {'Addition', 'Subtraction'}, 'ExprPredicate': {'Predicate'}, 'ExprNot': {'Neg'},
    'ExprAlways': {'Always'}, 'ExprEv': {'Eventually'}, 'ExprHist': {'Historically'}, 'ExpreOnce': {'Once'}, 'ExprPrevious': {'Previous'},
    'ExprNext': {'Next'}, 'ExprStrongPrevious': {'StrongPrevious'}, 'ExprStrongNext': {'StrongNext'}, 'ExprUntil': {'Until'},
    'ExprUnless': {'Always', 'Until', 'Disjunction'}, 'ExprSince': {'Since'}, 'ExprAnd': {'Conjunction'}, 'ExprOr': {'Disjunction'},
    'ExprImplies': {'Implies'}, 'ExprIff': {'Iff'}, 'ExprXor': {'Xor'}, 'ExprRise': {'Rise'}, 'ExprFall': {'Fall'},
    'ExprId': {'Constant', 'Variable'}, 'ExprLiteral': {'Constant'}, 'ExprParen': set(),
}
MUST_HAVE_BUILDER = ('SpecificationId', 'modImport', 'rosTopic', 'intervalTimeLiteral', 'constantTimeLiteral')


def check_builder_exhaustive(ix, rep, grammars, rule='R-GRAM'):
    ltl, stl, absast = parser_classes(ix)
    nodes = {c.name for c in D.node_classes(ix)}
    n = 0
    for tag, gname, cls in (('LTL', 'LtlParser', ltl), ('STL', 'StlParser', stl)):
        rules = G.effective_rules(grammars, gname)
        for rname, alts in sorted(rules.items()):
            for a in alts:
                if not a.label:
                    continue
                if rname != 'expression' and a.label not in MUST_HAVE_BUILDER:
                    continue
                n += 1
                mname = label_method(a.label)
                f = ix.resolve_method(cls, mname)
                slot = 'builder:%s:%s' % (tag, a.label)
                if f is None or f.module.name.startswith('rtamt.antlr'):
                    rep.fail(rule, cls.module.rel, '%s.%s' % (cls.name, mname), slot, 'the %s front end has no builder for the grammar alternative #%s: the generated visitor\'s visitChildren '
                             'returns the node of the last operand, so the operator silently disappears from the formula' % (tag, a.label), cls.node.lineno)
                    continue
                rep.analysed(f)
                if rname != 'expression':
                    rep.ok(rule, f.module.rel, f.qual, slot, 'builder defined', f.node.lineno)
                    continue
                if a.label not in LABEL_BUILDS:
                    rep.error('%s: grammar alternative #%s is not in the label table of the checker' % (f.where, a.label))
                    continue
                want = set(LABEL_BUILDS[a.label])
                has_interval = any(e.kind == 'rule' and e.value == 'interval' for e, _o in a.flat())
                if has_interval:
                    want |= {'Timed' + c for c in LABEL_BUILDS[a.label] if 'Timed' + c in nodes and c not in ('Disjunction',)}
                built = {c.func.id for c in ast.walk(f.node) if isinstance(c, ast.Call) and isinstance(c.func, ast.Name) and c.func.id in nodes}
                if built == want:
                    rep.ok(rule, f.module.rel, f.qual, slot, 'builds %s' % sorted(built), f.node.lineno)
                else:
                    rep.fail(rule, f.module.rel, f.qual, slot, 'the builder of #%s constructs %s; the alternative denotes %s' % (a.label, sorted(built) or 'no node', sorted(want)), f.node.lineno)
    return n


def check_interval_guard_units(ix, rep, rule='R-GUARD-DOM'):
    """the begin <= end guard compares the bounds as the durations the monitors will use: a bound without unit takes the other bound's
    unit, else the default unit -- the same resolution as both time_unit_transformer functions (R-DIM in C08)"""
    from sa.rules import units as UN
    from sa import alg
    ltl, stl, absast = parser_classes(ix)
    f = stl.methods.get('visitInterval')
    n = 0
    for b_empty in (False, True):
        for e_empty in (False, True):
            case = 'begin_unit=%s,end_unit=%s' % ('absent' if b_empty else 'present', 'absent' if e_empty else 'present')
            run = UN.TransformerRun(f, b_empty, e_empty)
            guard = None
            try:
                for st in f.node.body:
                    if isinstance(st, ast.Assign) and isinstance(st.targets[0], ast.Tuple) and len(st.targets[0].elts) == 2 and isinstance(st.value, ast.Call) \
                            and 'intervalTime' in ast.unparse(st.value):
                        which = 'b' if 'intervalTime(0)' in ast.unparse(st.value).replace(' ', '') else 'e'
                        vn, un = [e.id for e in st.targets[0].elts]
                        run.nums[vn] = alg.RatFun.sym(which)
                        run.units[un] = ('EMPTY' if (b_empty if which == 'b' else e_empty) else ('B' if which == 'b' else 'E'))
                        continue
                    if isinstance(st, ast.If) and isinstance(st.test, ast.Compare) and len(st.test.ops) == 1 and isinstance(st.test.ops[0], (ast.Gt, ast.Lt, ast.GtE, ast.LtE)) \
                            and st.body and isinstance(st.body[-1], ast.Raise):
                        # the guard that relates the two bounds (a guard on one bound alone -- `begin < 0` -- is another obligation)
                        sides = [st.test.left, st.test.comparators[0]]
                        if any(isinstance(x, ast.Constant) for x in sides):
                            continue
                        guard = st
                        break
                    run.stmt(st)
            except (AnalysisError, ValueError) as ex:
                rep.error('%s (%s): guard of visitInterval not interpreted (%s)' % (f.where, f.qual, ex))
                return n
            if guard is None:
                continue     # reported by the dominance rule
            n += 1
            l, _ = run.num_of(guard.test.left)
            r, _ = run.num_of(guard.test.comparators[0])
            if isinstance(guard.test.ops[0], (ast.Lt, ast.LtE)):
                l, r = r, l          # normalise to  lower ? upper
            ub, ue = UN.expected_unit('b', b_empty, e_empty), UN.expected_unit('e', b_empty, e_empty)
            wl = alg.RatFun.sym('b') * alg.RatFun.sym('U[%s]' % ub)
            wr = alg.RatFun.sym('e') * alg.RatFun.sym('U[%s]' % ue)
            slot = 'begin<=end:units:%s' % case
            # both sides may be scaled by one common positive factor
            if (l * wr).same(r * wl) and not l.same(alg.RatFun.const(0)):
                rep.ok(rule, f.module.rel, f.qual, slot, 'compares begin*U[%s unit] with end*U[%s unit]' % (ub, ue), guard.lineno)
            else:
                rep.fail(rule, f.module.rel, f.qual, slot, 'with %s the guard compares %r with %r; the monitors read the bounds as begin*U[%s] and end*U[%s] (B/E = unit written on the '
                         'lower/upper bound, D = default unit): an interval whose lower bound exceeds its upper bound is accepted, or a legal one rejected' % (case, l, r, ub, ue), guard.lineno)
    return n


def _exit_dominated(cfg, dom, pred):
    """every normal exit of the function (explicit return or falling off the end) is dominated by a statement satisfying pred;
    returns the offending ast node (or the function) of the first exit that is not"""
    for p in cfg.pred[cfg.exit]:
        if p not in cfg.reachable():
            continue
        if not any(cfg.stmt[d] is not None and pred(cfg.stmt[d]) for d in dom[p]):
            return cfg.stmt[p] if cfg.stmt[p] is not None else cfg.func
    return None


def check_parse_every_path(ix, rep, rule='R-EVERYPATH'):
    """"exactly the language" is decided by the recogniser; a parse() that can return without running it accepts whatever text it was
    given on that path (a memo on part of the input, an early return for a text 'already seen').  Every normal exit of
    specification.parse() is dominated by the call of ast.parse(); every normal exit of ast.parse() by the entry rule of the
    generated parser and by the visit of its result."""
    n = 0
    ltl, stl, absast = parser_classes(ix)
    spec_base = ix.find_class('rtamt.spec.abstract_specification', 'AbstractSpecification')
    if spec_base is None:
        raise AnalysisError('AbstractSpecification vanished')
    owners = [spec_base] + [c for c in ix.subclasses_of(spec_base) if 'parse' in c.methods]
    seen = set()
    for c in owners:
        f = c.methods.get('parse')
        if f is None or id(f) in seen:
            continue
        seen.add(id(f))
        missing = ix.unimportable(c.module)
        if missing:
            rep.note('%s: not analysed, the module imports %s, which does not exist (it cannot be imported)' % (c.module.rel, missing))
            continue
        rep.analysed(f)
        cfg = flow.CFG(f.node)
        dom = cfg.dominators()

        def forwards(st):
            return not isinstance(st, (ast.If, ast.For, ast.While, ast.Try)) and any(
                isinstance(x, ast.Call) and isinstance(x.func, ast.Attribute) and x.func.attr == 'parse'
                and (ast.unparse(x.func.value) == 'self.ast' or (isinstance(x.func.value, ast.Call) and ast.unparse(x.func.value.func) == 'super'))
                for x in ast.walk(st))
        bad = _exit_dominated(cfg, dom, forwards)
        n += 1
        if bad is None:
            rep.ok(rule, f.module.rel, f.qual, 'parse:forwards', 'every normal exit passes through self.ast.parse()', f.node.lineno)
        else:
            rep.fail(rule, f.module.rel, f.qual, 'parse:forwards', 'parse() can return without calling self.ast.parse(): on that path the text of the specification (and of the '
                     'sub-specifications added to it) is never shown to the recogniser, so an illegal text is accepted silently', getattr(bad, 'lineno', f.node.lineno))
    f = absast.methods.get('parse')
    rep.analysed(f)
    cfg = flow.CFG(f.node)
    dom = cfg.dominators()
    parser_name = None
    for st in ast.walk(f.node):
        if isinstance(st, ast.Assign) and isinstance(st.targets[0], ast.Name) and isinstance(st.value, ast.Call) and ast.unparse(st.value.func) == 'self.antrlParserType':
            parser_name = st.targets[0].id

    def runs_parser(st):
        return not isinstance(st, (ast.If, ast.For, ast.While, ast.Try)) and any(
            isinstance(x, ast.Call) and isinstance(x.func, ast.Attribute) and isinstance(x.func.value, ast.Name) and x.func.value.id == parser_name
            and not x.func.attr.startswith(('_', 'remove', 'add')) for x in ast.walk(st))

    def visits(st):
        return not isinstance(st, (ast.If, ast.For, ast.While, ast.Try)) and any(
            isinstance(x, ast.Call) and ast.unparse(x.func) in ('self.visit', 'self.visitSpecification', 'self.visitSpecification_file') for x in ast.walk(st))
    for slot, pred, what in (('parse:recogniser', runs_parser, 'running the entry rule of the generated parser'),
                             ('parse:builder', visits, 'visiting the parse tree (the declaration and reference checks live in the builder)')):
        bad = _exit_dominated(cfg, dom, pred)
        n += 1
        if bad is None:
            rep.ok(rule, f.module.rel, f.qual, slot, 'every normal exit passes through it', f.node.lineno)
        else:
            rep.fail(rule, f.module.rel, f.qual, slot, 'AbstractAst.parse() can return without %s: the text is accepted unchecked on that path' % what,
                     getattr(bad, 'lineno', f.node.lineno))
    # what is shown to the recogniser is the whole text: the stream is built from an expression that contains both self.modular_spec and self.spec
    stream = None
    for st in ast.walk(f.node):
        if isinstance(st, ast.Call) and ast.unparse(st.func) == 'InputStream' and st.args:
            stream = st
    if stream is None:
        raise AnalysisError('%s: InputStream construction not found' % f.where)
    from sa.rules.astpure import _root
    srcs = set()
    work = [stream.args[0]]
    seen_names = set()
    while work:
        e = work.pop()
        for x in ast.walk(e):
            if isinstance(x, ast.Attribute) and isinstance(x.value, ast.Name) and x.value.id == 'self':
                srcs.add(x.attr)
            if isinstance(x, ast.Name) and x.id not in seen_names:
                seen_names.add(x.id)
                for a in ast.walk(f.node):
                    if isinstance(a, ast.Assign) and any(isinstance(t, ast.Name) and t.id == x.id for t in a.targets):
                        work.append(a.value)
    n += 1
    if {'spec', 'modular_spec'} <= srcs:
        rep.ok(rule, f.module.rel, f.qual, 'parse:whole-text', 'the recogniser reads modular_spec + spec', stream.lineno)
    else:
        rep.fail(rule, f.module.rel, f.qual, 'parse:whole-text', 'the text handed to the lexer is not built from both self.modular_spec and self.spec (%s): part of what the user '
                 'supplied is never checked' % sorted(srcs), stream.lineno)
    return n


def check_swallow(ix, rep, rule='R-EXC'):
    """a fault found while the text is checked leaves parse() as an RTAMTException -- unless something on the way throws it away.  Two shapes do:
    a `return` / `break` / `continue` inside a `finally:` (Python discards the exception in flight), and a handler for everything
    (`except:` / `except Exception` / `BaseException`) whose body neither raises nor records anything.  Checked in every function parse() reaches;
    the first shape also in the rest of rtamt/syntax and rtamt/spec (zero sites today)."""
    n = 0
    reach = parse_reachable(ix)
    funcs = {id(f): f for f in reach.values()}
    for mod in ix.modules.values():
        if (mod.rel.startswith('rtamt/syntax/') or mod.rel.startswith('rtamt/spec/')) and '/antlr/' not in mod.rel and not ix.unimportable(mod):
            for c in mod.classes.values():
                for f in c.methods.values():
                    funcs.setdefault(id(f), f)
            for f in mod.functions.values():
                funcs.setdefault(id(f), f)
    for f in sorted(funcs.values(), key=lambda g: (g.module.rel, g.qual)):
        n += 1
        bad = None
        for t in ast.walk(f.node):
            if isinstance(t, ast.Try):
                for st in t.finalbody:
                    for x in ast.walk(st):
                        if isinstance(x, (ast.FunctionDef, ast.Lambda)):
                            break
                        if isinstance(x, (ast.Return, ast.Break, ast.Continue)):
                            bad = (x, '`%s` inside `finally:` discards the exception in flight: a semantic fault found by the builder (begin > end, undeclared constant, duplicate '
                                      'declaration) never leaves parse(), the text is accepted' % type(x).__name__.lower())
                for h in t.handlers:
                    broad = h.type is None or (isinstance(h.type, ast.Name) and h.type.id in ('Exception', 'BaseException'))
                    if broad and id(f) in {id(g) for g in reach.values()}:
                        acts = [x for b in h.body for x in ast.walk(b) if isinstance(x, (ast.Raise, ast.Call))]
                        if not acts:
                            bad = (h, 'a handler for every exception that neither raises nor reports: whatever went wrong while checking the text is dropped')
        if bad:
            rep.fail(rule, f.module.rel, f.qual, 'swallow', bad[1], bad[0].lineno)
        else:
            rep.ok(rule, f.module.rel, f.qual, 'no-swallow', 'no exception is discarded on the way out', f.node.lineno)
    return n


def check_exception_constructor(ix, rep, rule='R-EXC'):
    """raise RTAMTException(x) has to succeed whatever x is: the library raises it with texts *and* with caught exception objects
    (`except AttributeError as err: raise RTAMTException(err)`).  The constructor (and __str__) may render its argument with str()/format()
    but not call methods of it or index it: `args[0].strip()` on an exception object raises AttributeError while the RTAMTException is being
    built, and that is what leaves parse()."""
    exc = ix.find_class('rtamt.exception.exception', 'RTAMTException')
    if exc is None:
        raise AnalysisError('RTAMTException vanished')
    n = 0
    for name in ('__init__', '__str__', '__repr__'):
        f = exc.methods.get(name)
        if f is None:
            continue
        n += 1
        rep.analysed(f)
        rep.unit(f.module.rel)
        # names that hold a constructor argument (or the message stored from one)
        arg_names = {a.arg for a in f.node.args.args[1:]}
        if f.node.args.vararg:
            arg_names.add(f.node.args.vararg.arg)
        bad = None
        for x in ast.walk(f.node):
            if isinstance(x, ast.Call) and isinstance(x.func, ast.Attribute):
                recv = x.func.value
                base = recv
                while isinstance(base, ast.Subscript):
                    base = base.value
                is_arg = (isinstance(base, ast.Name) and base.id in arg_names) or (isinstance(base, ast.Attribute) and isinstance(base.value, ast.Name)
                                                                                   and base.value.id == 'self' and base.attr == 'message')
                if is_arg and x.func.attr not in ('format',) and not (isinstance(recv, ast.Name) and recv.id in arg_names and x.func.attr in ('__len__',)):
                    bad = x
            if isinstance(x, ast.BinOp) and isinstance(x.op, (ast.Add, ast.Mod)):
                for side in (x.left, x.right):
                    b2 = side
                    while isinstance(b2, ast.Subscript):
                        b2 = b2.value
                    if isinstance(b2, ast.Name) and b2.id in arg_names and isinstance(side, ast.Subscript) and isinstance(x.op, ast.Add):
                        bad = bad or x
        slot = 'constructor:%s' % name
        if bad is not None:
            rep.fail(rule, f.module.rel, f.qual, slot, '`%s` treats the argument of the exception as text: RTAMTException is also raised with caught exception objects '
                     '(raise RTAMTException(err)), for which this raises AttributeError/TypeError while the RTAMTException is being constructed -- another exception '
                     'type leaves parse()' % ast.unparse(bad)[:60], bad.lineno)
        else:
            rep.ok(rule, f.module.rel, f.qual, slot, 'the argument is only stored / rendered with format()', f.node.lineno)
    return n


def check_subspec_registration(ix, rep, rule='R-EVERYPATH'):
    """what parse() hands to the recogniser is everything the user registered: add_sub_spec() extends modular_spec with its argument on every
    path (a 'seen before' test on the accumulated *text* is a substring test: a fragment that occurs inside an earlier sub-specification is
    dropped and the text that is parsed is not the text that was given)."""
    ltl, stl, absast = parser_classes(ix)
    f = absast.methods.get('add_sub_spec')
    if f is None:
        raise AnalysisError('AbstractAst.add_sub_spec vanished')
    rep.analysed(f)
    p = f.node.args.args[1].arg
    cfg = flow.CFG(f.node)
    ext = [n for n in cfg.nodes() if isinstance(cfg.stmt[n], (ast.Assign, ast.AugAssign)) and 'modular_spec' in ast.unparse(cfg.stmt[n].targets[0] if isinstance(cfg.stmt[n], ast.Assign) else cfg.stmt[n].target)
           and any(isinstance(x, ast.Name) and x.id == p for x in ast.walk(cfg.stmt[n].value))]
    ext += [n for n in cfg.nodes() if isinstance(cfg.stmt[n], ast.Expr) and isinstance(cfg.stmt[n].value, ast.Call) and isinstance(cfg.stmt[n].value.func, ast.Attribute)
            and cfg.stmt[n].value.func.attr == 'append' and ast.unparse(cfg.stmt[n].value.func.value).startswith('self.')
            and any(isinstance(x, ast.Name) and x.id == p for a_ in cfg.stmt[n].value.args for x in ast.walk(a_))]
    blocked = set(ext)
    seen = set()
    stack = [cfg.entry]
    while stack:
        n = stack.pop()
        if n in seen or n in blocked:
            continue
        seen.add(n)
        stack.extend(cfg.succ[n])
    if ext and cfg.exit not in seen:
        rep.ok(rule, f.module.rel, f.qual, 'add_sub_spec', 'every path appends the given text to modular_spec', f.node.lineno)
    else:
        rep.fail(rule, f.module.rel, f.qual, 'add_sub_spec', 'a path through add_sub_spec() returns without appending the given text to modular_spec: what parse() checks is then not what '
                 'the user registered (a text that is not in the language is accepted because part of it was dropped)', f.node.lineno)
    return 1


def check_dispatch_transparent(ix, rep, rule='R-FRESH'):
    """every occurrence of a sub-formula in the text is a node of its own (only an identifier that names a sub-specification stands for an existing node):
    the pastifier gives each occurrence the delay of *its* position and re-points names at the first node it meets, get_value() reads results[node].
    The builders reach their operands through `self.visit(ctx.x())`, the dispatch inherited from the ANTLR runtime.  If a parser visitor class
    overrides `visit`, each of its returns has to be the result of the delegating call for that very tree -- not an entry of a table filled by an
    earlier call (a memo keyed by the text, which drops the white space between `H` and `x`, or by the printed name)."""
    n = 0
    ltl, stl, absast = parser_classes(ix)
    for cls in (ltl, stl):
        f = cls.methods.get('visit')
        n += 1
        slot = '%s.visit' % cls.name
        if f is None:
            rep.ok(rule, cls.module.rel, cls.name, slot, 'the dispatch of the ANTLR runtime is used as it is', cls.node.lineno)
            continue
        rep.analysed(f)
        deleg = {}
        for st in ast.walk(f.node):
            if isinstance(st, ast.Assign) and len(st.targets) == 1 and isinstance(st.targets[0], ast.Name):
                deleg.setdefault(st.targets[0].id, []).append(st.value)

        def is_delegation(e, depth=0):
            if isinstance(e, ast.Call) and isinstance(e.func, ast.Attribute) and e.func.attr == 'visit' and isinstance(e.func.value, ast.Call) \
                    and isinstance(e.func.value.func, ast.Name) and e.func.value.func.id == 'super':
                return True
            if isinstance(e, ast.Call) and isinstance(e.func, ast.Attribute) and e.func.attr in ('visit', 'accept') and not ast.unparse(e.func.value).startswith('self.'):
                return ast.unparse(e.func.value) not in ('self',)          # Base.visit(self, tree) / tree.accept(self)
            if isinstance(e, ast.Name) and e.id in deleg and depth < 3:
                return all(is_delegation(v, depth + 1) for v in deleg[e.id])
            return False
        bad = [r for r in ast.walk(f.node) if isinstance(r, ast.Return) and not (r.value is not None and is_delegation(r.value))]
        if bad:
            rep.fail(rule, f.module.rel, f.qual, slot, 'the parser\'s visit() can return `%s`, which is not the node built for this occurrence: two occurrences share one node (the pastifier '
                     'delays a shared node by the look-ahead of the first position it is met at, and a name bound to it follows), and a table keyed by the text or the printed name '
                     'takes `H x` for the identifier `Hx`' % (ast.unparse(bad[0].value)[:60] if bad[0].value is not None else 'None'), bad[0].lineno)
        else:
            rep.ok(rule, f.module.rel, f.qual, slot, 'every return is the result of the delegating call', f.node.lineno)
    return n
