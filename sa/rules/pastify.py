"""R-HORIZON (look-ahead added by the horizon visitor = look-ahead consumed by the pastifier) and
R-DELAY (every pastifier handler rebuilds its own node class from the rewritten children and delays *that* node).

Both are decided by a small abstract interpretation of the handler bodies over the symbols
R (remaining horizon = args[0]), H (own horizon = subformula_horizons[node]), BEGIN, END (normalised bounds).
"""
import ast

from sa.index import AnalysisError, ClassInfo, FuncInfo
from sa import alg, dispatch as D
from sa.rules import unitflow

FUTURE_IMAGE = {'TimedEventually': 'TimedOnce', 'TimedAlways': 'TimedHistorically', 'TimedUntil': 'TimedPrecedes'}
DELTA = {'TimedEventually': 'END', 'TimedAlways': 'END', 'TimedUntil': 'END', 'Next': '1', 'StrongNext': '1'}


def _sym(s):
    return alg.RatFun.sym(s)


class HandlerInterp(object):
    def __init__(self, ix, cls, f, nodes):
        self.ix = ix
        self.cls = cls
        self.f = f
        self.nodes = nodes
        self.nodep = f.node.args.args[1].arg
        self.env = {}
        self.ret = None
        self.stored = {}

    # numeric ---------------------------------------------------------------------------------------
    def leaf(self, e):
        s = ast.unparse(e)
        if s == 'args[0]':
            return _sym('R')
        if s in ('self.subformula_horizons[%s]' % self.nodep, 'self.horizons[%s]' % self.nodep):
            return _sym('H')
        if s == '%s.end' % self.nodep:
            return _sym('END')
        if s == '%s.begin' % self.nodep:
            return _sym('BEGIN')
        if isinstance(e, ast.Call) and isinstance(e.func, (ast.Name, ast.Attribute)) and not (isinstance(e.func, ast.Name) and e.func.id == 'max'):
            ent = self.ix.resolve_expr(self.f.module, e.func)
            if isinstance(ent, FuncInfo) and unitflow.is_period_normaliser(ent):
                return _sym('PERIOD')
        if isinstance(e, ast.Call) and isinstance(e.func, ast.Name) and e.func.id == 'max' and len(e.args) == 2:
            a, b = [self.num(x) for x in e.args]
            return _sym('max(%s)' % ','.join(sorted([repr(a), repr(b)])))
        return None

    def num(self, e):
        env = {k: v[1] for k, v in self.env.items() if v[0] == 'num'}
        return alg.AlgEval(env, self.leaf).ev(e)

    # values ----------------------------------------------------------------------------------------
    def val(self, e):
        if isinstance(e, ast.Name) and e.id in self.env:
            return self.env[e.id]
        if not isinstance(e, ast.Name):
            sp = self._split(e)
            if sp is not None:
                return sp
        if isinstance(e, ast.IfExp):
            try:
                return ('cond', self._test(e.test), self.val(e.body), self.val(e.orelse))
            except ValueError:
                return ('other', ast.unparse(e)[:40])
        if isinstance(e, ast.Call) and isinstance(e.func, ast.Name) and e.func.id == 'max' and len(e.args) == 2 and not e.keywords \
                and any(isinstance(a, ast.Constant) and a.value == 0 and not isinstance(a.value, bool) for a in e.args):
            # max(x, 0): x where x > 0, else 0
            x = [a for a in e.args if not (isinstance(a, ast.Constant) and a.value == 0)]
            if len(x) == 1:
                try:
                    nx = self.num(x[0])
                    return ('cond', ('>0', nx), ('num', nx), ('num', alg.RatFun.const(0)))
                except ValueError:
                    pass
        if isinstance(e, ast.Name) and e.id == self.nodep:
            return ('visited-node',)
        if isinstance(e, ast.Call):
            if D._self_call(e) == 'visit' and e.args:
                a0 = e.args[0]
                k = None
                if isinstance(a0, ast.Subscript) and ast.unparse(a0.value) == '%s.children' % self.nodep and isinstance(a0.slice, ast.Constant):
                    k = a0.slice.value
                rem = None
                if len(e.args) >= 2 and not isinstance(e.args[1], ast.Starred):
                    try:
                        rem = self.num(e.args[1])
                    except ValueError:
                        rem = None
                elif len(e.args) >= 2 and isinstance(e.args[1], ast.Starred):
                    rem = _sym('R')
                return ('child', k, rem)
            if isinstance(e.func, ast.Name):
                ent = self.ix.resolve_expr(self.f.module, e.func)
                if isinstance(ent, ClassInfo) and ent.name == 'Interval':
                    try:
                        return ('interval', self.num(e.args[0]), self.num(e.args[1]), len(e.args))
                    except ValueError as ex:
                        return ('interval?', str(ex))
                if isinstance(ent, ClassInfo) and ent in self.nodes:
                    return ('build', ent.name, tuple(self.val(a) for a in e.args))
        if isinstance(e, ast.Attribute) and isinstance(e.value, ast.Name) and e.value.id == self.nodep:
            if e.attr in ('begin', 'end'):
                return ('num', self.num(e))
            return ('attr', e.attr)
        try:
            return ('num', self.num(e))
        except ValueError:
            return ('other', ast.unparse(e)[:40])

    def run(self):
        self.block(self.f.node.body)
        return self.ret

    def block(self, stmts):
        stmts = list(stmts)
        for pos_, st in enumerate(stmts):
            if self.ret is not None:
                return
            if isinstance(st, ast.Expr) and isinstance(st.value, ast.Constant):
                continue
            if isinstance(st, ast.Pass):
                continue
            if isinstance(st, ast.Assign) and len(st.targets) == 1:
                t = st.targets[0]
                if isinstance(t, ast.Name):
                    self.env[t.id] = self.val(st.value)
                    continue
                if isinstance(t, ast.Tuple) and isinstance(st.value, ast.Tuple) and len(t.elts) == len(st.value.elts):
                    vals = [self.val(e) for e in st.value.elts]
                    for te, v in zip(t.elts, vals):
                        self.env[te.id] = v
                    continue
                if isinstance(t, ast.Tuple) and isinstance(st.value, ast.Call):
                    callee = None
                    if isinstance(st.value.func, (ast.Name, ast.Attribute)):
                        ent = self.ix.resolve_expr(self.f.module, st.value.func)
                        callee = ent if isinstance(ent, FuncInfo) else None
                    if callee is not None and unitflow.is_normaliser(callee) and len(t.elts) == 2:
                        self.env[t.elts[0].id] = ('num', _sym('BEGIN'))
                        self.env[t.elts[1].id] = ('num', _sym('END'))
                        continue
                if isinstance(t, ast.Subscript) and ast.unparse(t) == 'self.horizons[%s]' % self.nodep:
                    self.stored['horizons'] = self.val(st.value)
                    continue
                raise AnalysisError('%s: assignment `%s` not interpreted' % (self.f.where, ast.unparse(st)[:60]))
            if isinstance(st, ast.If) and isinstance(st.test, ast.UnaryOp) and isinstance(st.test.op, ast.Not):
                # `if not T: A else: B` is `if T: B else: A`
                st = ast.copy_location(ast.If(test=st.test.operand, body=list(st.orelse) or [ast.Pass()], orelse=list(st.body)), st)
            if isinstance(st, ast.If):
                try:
                    test = self._test(st.test)
                except ValueError as ex:
                    raise AnalysisError('%s: condition `%s` not interpreted' % (self.f.where, ast.unparse(st.test)))
                before = dict(self.env)
                self.block(st.body)
                a, ra = self.env, self.ret
                self.ret = None
                self.env = dict(before)
                self.block(st.orelse)
                b, rb = self.env, self.ret
                self.ret = None
                if ra is not None or rb is not None:
                    # an arm returns: the statements behind the `if` are the rest of the other arm
                    rest = stmts[pos_ + 1:]
                    if ra is None:
                        self.env = a
                        self.block(rest)
                        ra, self.ret = self.ret, None
                    if rb is None:
                        self.env = b
                        self.block(rest)
                        rb, self.ret = self.ret, None
                    self.ret = ra if ra == rb else ('cond', test, ra, rb)
                    return
                merged = {}
                for k in set(a) | set(b):
                    if a.get(k) == b.get(k):
                        merged[k] = a.get(k)
                    else:
                        merged[k] = ('cond', test, a.get(k, before.get(k)), b.get(k, before.get(k)))
                self.env = merged
                continue
            if isinstance(st, ast.For):
                # LTL style: for i in range(horizon): node = Previous(node)
                if isinstance(st.iter, ast.Call) and getattr(st.iter.func, 'id', None) == 'range' and len(st.iter.args) == 1 and len(st.body) == 1 \
                        and isinstance(st.body[0], ast.Assign) and isinstance(st.body[0].targets[0], ast.Name):
                    tgt = st.body[0].targets[0].id
                    inner = self.val(st.body[0].value)
                    if inner[0] == 'build' and len(inner[2]) == 1 and inner[2][0] == self.env.get(tgt):
                        self.env[tgt] = ('repeat', inner[1], self.num(st.iter.args[0]), self.env.get(tgt))
                        continue
                raise AnalysisError('%s: loop not interpreted' % self.f.where)
            if isinstance(st, ast.Return):
                self.ret = self.val(st.value)
                return
            raise AnalysisError('%s: statement `%s` not interpreted' % (self.f.where, ast.unparse(st)[:60]))

    def _test(self, t):
        if isinstance(t, ast.Compare) and len(t.ops) == 1 and isinstance(t.comparators[0], ast.Constant):
            op = {ast.Gt: '>', ast.GtE: '>=', ast.Lt: '<', ast.LtE: '<=', ast.Eq: '==', ast.NotEq: '!='}.get(type(t.ops[0]), '?')
            return ('%s%s' % (op, t.comparators[0].value), self.num(t.left))
        if isinstance(t, ast.Compare) and len(t.ops) == 1 and isinstance(t.ops[0], (ast.Gt, ast.Lt)):
            # x > y  is  x - y > 0
            l, r = self.num(t.left), self.num(t.comparators[0])
            return ('>0', l - r if isinstance(t.ops[0], ast.Gt) else r - l)
        raise ValueError('test')

    def _split(self, e):
        """an expression over a local that holds a two-way choice (`s = h if h > 0 else 0`, `max(h, 0)`) is the choice between the two readings"""
        for n in ast.walk(e):
            if isinstance(n, ast.Name) and isinstance(n.ctx, ast.Load) and n.id in self.env and self.env[n.id][0] == 'cond' \
                    and self.env[n.id][2][0] == 'num' and self.env[n.id][3][0] == 'num':
                c = self.env[n.id]
                saved = self.env
                try:
                    self.env = dict(saved)
                    self.env[n.id] = c[2]
                    va = self.val(e)
                    self.env = dict(saved)
                    self.env[n.id] = c[3]
                    vb = self.val(e)
                finally:
                    self.env = saved
                return va if va == vb else ('cond', c[1], va, vb)
        return None


def _eq_num(a, b):
    return a is not None and b is not None and a.same(b)


def check_horizon(ix, rep, hcls, pcls, rule='R-HORIZON'):
    nodes = D.node_classes(ix)
    hd = D.dispatch_of(ix, hcls)
    pd = D.dispatch_of(ix, pcls)
    binary = ix.find_class('rtamt.syntax.node.binary_node', 'BinaryNode')
    unary = ix.find_class('rtamt.syntax.node.unary_node', 'UnaryNode')
    n = 0
    deltas = {}
    for nc in nodes:
        meth, _ = hd.method_for(nc, ix)
        if not meth:
            continue
        cat, info, f = D.classify(ix, hcls, meth)
        if cat != 'compute':
            continue
        rep.analysed(f)
        rep.unit(f.module.rel)
        n += 1
        slot = 'delta:%s' % nc.name
        val = _horizon_value(ix, hcls, f, nodes)
        nchildren = 2 if ix.is_subclass(nc, binary) else 1 if ix.is_subclass(nc, unary) else 0
        base = {0: alg.RatFun.const(0), 1: _sym('c0'), 2: _sym('max(c0,c1)')}[nchildren]
        want_delta = DELTA.get(nc.name, '0')
        dsym = {'0': alg.RatFun.const(0), '1': alg.RatFun.const(1), 'END': _sym('END')}[want_delta]
        got_delta = val['ret'] - base
        deltas[nc.name] = got_delta
        if got_delta.same(dsym) or (want_delta == '1' and got_delta.same(_sym('PERIOD'))):
            # `next` looks one sample ahead: the number 1, or one sampling period when look-aheads are durations (R-DIM decides which is right)
            rep.ok(rule, f.module.rel, f.qual, slot, 'adds %s to the look-ahead of its operands' % want_delta, f.node.lineno)
        else:
            extra = ''
            rep.fail(rule, f.module.rel, f.qual, slot, 'horizon of %s is operands + %r; the property counts %s%s'
                     % (nc.name, got_delta, {'0': 'nothing for this operator', '1': 'next as 1', 'END': 'the upper bound of a bounded future operator'}[want_delta], extra),
                     f.node.lineno)
        if val['stored'] is None or not val['stored'].same(val['ret']):
            rep.fail(rule, f.module.rel, f.qual, 'stored:%s' % nc.name, 'the value stored in horizons[node] differs from the value returned: the '
                     'pastifier reads the stored one', f.node.lineno)
    return n, deltas


def _horizon_value(ix, cls, f, nodes):
    """evaluate a horizon handler with the children's horizons as symbols c0, c1"""
    nodep = f.node.args.args[1].arg
    env = {}
    pairs = set()
    out = {'ret': None, 'stored': None}

    def leaf(e):
        if isinstance(e, ast.Call) and D._self_call(e) == 'visit' and e.args:
            a0 = e.args[0]
            if isinstance(a0, ast.Subscript) and isinstance(a0.slice, ast.Constant):
                return _sym('c%d' % a0.slice.value)
        if isinstance(e, ast.Call) and isinstance(e.func, ast.Name) and e.func.id == 'max' and len(e.args) == 2:
            a, b = [alg.AlgEval(env, leaf).ev(x) for x in e.args]
            if {repr(a), repr(b)} == {'c0', 'c1'}:
                return _sym('max(c0,c1)')
            return _sym('max(%s)' % ','.join(sorted([repr(a), repr(b)])))
        if isinstance(e, ast.IfExp) and isinstance(e.test, ast.Compare) and len(e.test.ops) == 1 and isinstance(e.test.ops[0], (ast.Gt, ast.GtE, ast.Lt, ast.LtE)):
            # a if a > b else b: the larger of the two
            ev_ = alg.AlgEval(env, leaf).ev
            l, r, bv, ov = ev_(e.test.left), ev_(e.test.comparators[0]), ev_(e.body), ev_(e.orelse)
            greater = isinstance(e.test.ops[0], (ast.Gt, ast.GtE))
            if {repr(bv), repr(ov)} == {repr(l), repr(r)} and repr(l) != repr(r):
                which = 'max' if (repr(bv) == repr(l)) == greater else 'min'
                if which == 'max' and {repr(l), repr(r)} == {'c0', 'c1'}:
                    return _sym('max(c0,c1)')
                return _sym('%s(%s)' % (which, ','.join(sorted([repr(l), repr(r)]))))
        if isinstance(e, ast.Subscript) and isinstance(e.value, ast.Name) and e.value.id in pairs and isinstance(e.slice, ast.Constant) and e.slice.value in (0, 1):
            return _sym('BEGIN' if e.slice.value == 0 else 'END')
        if isinstance(e, ast.Subscript) and isinstance(e.value, ast.Call) and isinstance(e.value.func, (ast.Name, ast.Attribute)) and isinstance(e.slice, ast.Constant) \
                and e.slice.value in (0, 1):
            # normaliser(..)[1]: the converted upper bound, without a name for the pair
            ent = ix.resolve_expr(f.module, e.value.func)
            if isinstance(ent, FuncInfo) and unitflow.is_normaliser(ent):
                return _sym('BEGIN' if e.slice.value == 0 else 'END')
        if isinstance(e, ast.Call) and isinstance(e.func, ast.Name) and e.func.id in ('min', 'sum', 'abs') and e.args:
            args = [alg.AlgEval(env, leaf).ev(x) for x in e.args]
            return _sym('%s(%s)' % (e.func.id, ','.join(sorted(repr(a) for a in args))))
        if isinstance(e, ast.Call) and isinstance(e.func, (ast.Name, ast.Attribute)):
            ent = ix.resolve_expr(f.module, e.func)
            if isinstance(ent, FuncInfo) and unitflow.is_period_normaliser(ent):
                return _sym('PERIOD')
        s = ast.unparse(e)
        if s == '%s.end' % nodep:
            return _sym('END')
        if s == '%s.begin' % nodep:
            return _sym('BEGIN')
        return None
    for st in f.node.body:
      try:
        if isinstance(st, ast.Assign) and len(st.targets) == 1:
            t = st.targets[0]
            if isinstance(t, ast.Name) and isinstance(st.value, ast.Call) and isinstance(st.value.func, (ast.Name, ast.Attribute)) \
                    and isinstance(ix.resolve_expr(f.module, st.value.func), FuncInfo) and unitflow.is_normaliser(ix.resolve_expr(f.module, st.value.func)):
                # bounds = normaliser(..): bounds[0], bounds[1]
                pairs.add(t.id)
            elif isinstance(t, ast.Name):
                env[t.id] = alg.AlgEval(env, leaf).ev(st.value)
            elif isinstance(t, ast.Tuple) and isinstance(st.value, ast.Call):
                ent = ix.resolve_expr(f.module, st.value.func) if isinstance(st.value.func, (ast.Name, ast.Attribute)) else None
                if isinstance(ent, FuncInfo) and unitflow.is_normaliser(ent) and len(t.elts) == 2:
                    env[t.elts[0].id] = _sym('BEGIN')
                    env[t.elts[1].id] = _sym('END')
                else:
                    raise AnalysisError('%s: `%s` not interpreted' % (f.where, ast.unparse(st)[:50]))
            elif isinstance(t, ast.Subscript) and ast.unparse(t) == 'self.horizons[%s]' % nodep:
                out['stored'] = alg.AlgEval(env, leaf).ev(st.value)
            else:
                raise AnalysisError('%s: `%s` not interpreted' % (f.where, ast.unparse(st)[:50]))
        elif isinstance(st, ast.Return):
            if ast.unparse(st.value) == 'self.horizons[%s]' % nodep and out['stored'] is not None:
                out['ret'] = out['stored']       # returns what it has just stored
            else:
                out['ret'] = alg.AlgEval(env, leaf).ev(st.value)
        elif isinstance(st, ast.Expr) and isinstance(st.value, ast.Constant):
            continue
        else:
            raise AnalysisError('%s: `%s` not interpreted' % (f.where, ast.unparse(st)[:50]))
      except ValueError as ex:
        raise AnalysisError('%s: `%s` not interpreted (%s)' % (f.where, ast.unparse(st)[:50], ex))
    if out['ret'] is None:
        raise AnalysisError('%s: no return' % f.where)
    return out


def _simplify_cond(v, known=()):
    """cond(T, cond(T, a, b), cond(T, c, d)) is cond(T, a, d): inside an arm the test has the value that selected the arm"""
    if not isinstance(v, tuple):
        return v
    if v and v[0] == 'cond':
        for (t, truth) in known:
            if t == v[1]:
                return _simplify_cond(v[2] if truth else v[3], known)
        a = _simplify_cond(v[2], known + ((v[1], True),))
        b = _simplify_cond(v[3], known + ((v[1], False),))
        return a if a == b else ('cond', v[1], a, b)
    return tuple(_simplify_cond(x, known) for x in v)


def check_delay(ix, rep, pcls, rule='R-DELAY'):
    nodes = D.node_classes(ix)
    pd = D.dispatch_of(ix, pcls)
    binary = ix.find_class('rtamt.syntax.node.binary_node', 'BinaryNode')
    unary = ix.find_class('rtamt.syntax.node.unary_node', 'UnaryNode')
    R, H = _sym('R'), _sym('H')
    n = 0
    consumed = {}
    for nc in nodes:
        meth, _ = pd.method_for(nc, ix)
        if not meth:
            continue
        cat, info, f = D.classify(ix, pcls, meth)
        if cat != 'compute':
            continue
        rep.analysed(f)
        rep.unit(f.module.rel)
        n += 1
        ret = _simplify_cond(HandlerInterp(ix, pcls, f, nodes).run())
        slot = 'shape:%s' % nc.name
        k = 2 if ix.is_subclass(nc, binary) else 1 if ix.is_subclass(nc, unary) else 0
        why = _judge(nc.name, k, ret, R, H, consumed)
        if why is None:
            rep.ok(rule, f.module.rel, f.qual, slot, 'rebuilds %s and delays the rebuilt node by the remaining look-ahead' % FUTURE_IMAGE.get(nc.name, nc.name), f.node.lineno)
        else:
            rep.fail(rule, f.module.rel, f.qual, slot, why, f.node.lineno, {'value': repr(ret)})
    return n, consumed


def _children_ok(args, k, rem):
    """first k constructor args are child(0, rem), child(1, rem) in order"""
    for i in range(k):
        if i >= len(args):
            return 'constructor gets %d children, needs %d' % (len(args), k)
        a = args[i]
        if a[0] != 'child':
            return 'argument %d of the rebuilt node is not a rewritten child' % i
        if a[1] != i:
            return 'children are passed in the wrong order (argument %d is child %s)' % (i, a[1])
        if not _eq_num(a[2], rem):
            return 'child %d is rewritten with remaining look-ahead %r, expected %r' % (i, a[2], rem)
    return None


def _judge(name, k, ret, R, H, consumed):
    zero = alg.RatFun.const(0)
    END, BEGIN = _sym('END'), _sym('BEGIN')
    if ret is None:
        return 'handler returns nothing'
    if name in ('Next', 'StrongNext'):
        consumed[name] = alg.RatFun.const(1)
        if ret[0] == 'child' and ret[1] == 0 and _eq_num(ret[2], R - alg.RatFun.const(1)):
            return None
        if ret[0] == 'child' and ret[1] == 0 and _eq_num(ret[2], R - _sym('PERIOD')):
            consumed[name] = _sym('PERIOD')
            return None
        return 'next must return its operand rewritten with remaining look-ahead R-1 (got %r)' % (ret,)
    if name in ('TimedEventually', 'TimedAlways'):
        consumed[name] = END
        img = FUTURE_IMAGE[name]
        inner_ok = lambda v: v[0] == 'child' and v[1] == 0 and _eq_num(v[2], R - END)
        if ret[0] == 'cond' and ret[1][0] == '>0' and _eq_num(ret[1][1], END - BEGIN):
            a, b = ret[2], ret[3]
            if not inner_ok(b):
                return 'for a point interval the operand must be rewritten with remaining look-ahead R-end (got %r)' % (b,)
            if a[0] == 'build' and a[1] == img and len(a[2]) == 2 and inner_ok(a[2][0]) and a[2][1][0] == 'interval' \
                    and _eq_num(a[2][1][1], zero) and _eq_num(a[2][1][2], END - BEGIN):
                return None
            return '%s[a,b] must become %s[0,b-a] of the operand delayed by b (got %r)' % (name, img, a)
        return '%s handler has not the shape `if end-begin > 0: %s(child, [0,end-begin])`' % (name, img)
    if name == 'TimedUntil':
        consumed[name] = END
        if ret[0] == 'build' and ret[1] == 'TimedPrecedes' and len(ret[2]) == 3:
            e = _children_ok(ret[2], 2, R - END)
            if e:
                return e
            iv = ret[2][2]
            if iv[0] == 'interval' and _eq_num(iv[1], BEGIN) and _eq_num(iv[2], END):
                return None
            return 'precedes must keep the interval [begin,end] (got %r)' % (iv,)
        return 'bounded until must become TimedPrecedes(child0, child1, [begin,end]) of operands delayed by end'
    consumed[name] = zero
    # style A
    def base_ok(v):
        if v[0] == 'other' or (v[0] == 'build' and any(isinstance(x, tuple) and x and x[0] == 'other' for x in v[2])):
            raise AnalysisError('pastifier handler of %s: the rebuilt value `%s` is not read' % (name, (v[1] if v[0] == 'other' else [x for x in v[2] if x[0] == 'other'][0][1])))
        if v[0] != 'build':
            return 'the rebuilt value is not a constructor call'
        if v[1] != name:
            return 'visiting %s rebuilds a %s node' % (name, v[1])
        if name == 'Variable':
            want = (('attr', 'var'), ('attr', 'field'), ('attr', 'io_type'))
            return None if v[2] == want else 'Variable must be rebuilt from (var, field, io_type)'
        if name == 'Constant':
            return None if v[2] == (('attr', 'val'),) else 'Constant must be rebuilt from node.val'
        rem = H
        e = _children_ok(v[2], k, rem)
        if e:
            return e
        extra = v[2][k:]
        if name == 'Predicate':
            return None if extra == (('attr', 'operator'),) else 'Predicate must keep node.operator'
        if name.startswith('Timed'):
            if len(extra) == 1 and extra[0][0] == 'interval':
                return 'IV'
            return 'timed node rebuilt without its interval'
        return None if not extra else 'unexpected extra constructor arguments'
    d = R - H if name not in ('Variable', 'Constant') else R
    if name == 'Constant':
        return base_ok(ret)
    if ret[0] == 'repeat':
        # LTL style: Previous applied `horizon` times
        if ret[1] == 'Previous' and _eq_num(ret[2], d):
            r = base_ok(ret[3])
            return None if r in (None, 'IV') else r
        return 'delay loop does not apply Previous exactly R-H times'
    def _has_cond(v, top=True):
        if isinstance(v, tuple):
            if v and v[0] == 'cond' and not top:
                return True
            return any(_has_cond(x, False) for x in v)
        return False
    if ret[0] != 'cond' and _has_cond(ret):
        # the choice between delayed and undelayed is made inside the constructor arguments (shifted bounds chosen first, one constructor call): a form that is not read
        raise AnalysisError('pastifier handler of %s: the delay is decided inside the arguments of the rebuilt node, not around it' % name)
    if ret[0] != 'cond':
        r = base_ok(ret)
        if r in (None, 'IV'):
            return 'the rebuilt node is never delayed: a sibling with a longer look-ahead is evaluated out of step'
        return r
    test, a, b = ret[1], ret[2], ret[3]
    if not (test[0] == '>0' and _eq_num(test[1], d)):
        return 'the delay test is not `remaining - own horizon > 0`'
    rb = base_ok(b)
    if rb == 'IV':
        iv = b[2][k]
        if not (_eq_num(iv[1], BEGIN) and _eq_num(iv[2], END)):
            return 'undelayed branch does not keep the interval [begin,end]'
        rb = None
    if rb:
        return rb
    # delayed branch: TimedOnce(<base>, [d,d])  or, for TimedOnce only, shifted bounds
    if a[0] == 'build' and a[1] == 'TimedOnce' and len(a[2]) == 2 and a[2][1][0] == 'interval':
        iv = a[2][1]
        if _eq_num(iv[1], d) and _eq_num(iv[2], d):
            if a[2][0] == b:
                return None
            if a[2][0][0] == 'child':
                return 'the delay once[d,d] wraps the rewritten child instead of the rebuilt %s node: the operator is dropped when a sibling has a longer look-ahead' % name
            return 'the delay wraps %r, not the rebuilt node' % (a[2][0],)
        if name == 'TimedOnce' and _eq_num(iv[1], BEGIN + d) and _eq_num(iv[2], END + d) and a[2][0] == b[2][0]:
            return None
        return 'delay interval is [%r,%r], expected [d,d] with d = remaining - own horizon' % (iv[1], iv[2])
    return 'delayed branch is not TimedOnce(rebuilt node, [d,d])'


# ------------------------------------------------------------------------------------------------- R-ORIGIN
PAST_OPS = ('Once', 'Historically', 'Since', 'Previous', 'StrongPrevious', 'Rise', 'Fall', 'TimedOnce', 'TimedHistorically', 'TimedSince')


def check_origin(ix, rep, pcls, rule='R-ORIGIN'):
    """A past operator whose operand looks ahead: after the rewrite its operand is delayed by the operand's look-ahead H, so the first H samples
    of the delayed operand stand for times *before* the origin of the original trace (warm-up values of once[d,d], partial windows, or real
    earlier data where `next` was removed).  The original past operator never sees such samples; the rewritten one ranges over them unless the
    handler masks them or refuses operands with positive look-ahead."""
    nodes = D.node_classes(ix)
    byname = {c.name: c for c in nodes}
    pd = D.dispatch_of(ix, pcls)
    n = 0
    for name in PAST_OPS:
        nc = byname.get(name)
        if nc is None:
            continue
        meth, _ = pd.method_for(nc, ix)
        cat, info, f = D.classify(ix, pcls, meth) if meth else ('missing', None, None)
        if cat != 'compute':
            continue
        n += 1
        rep.analysed(f)
        nodep = f.node.args.args[1].arg
        # the look-ahead handed to the operands
        hname = None
        for st in f.node.body:
            if isinstance(st, ast.Assign) and isinstance(st.targets[0], ast.Name) and 'horizons[%s]' % nodep in ast.unparse(st.value).replace(' ', ''):
                hname = st.targets[0].id
        visits = [c for c in ast.walk(f.node) if isinstance(c, ast.Call) and D._self_call(c) == 'visit' and len(c.args) >= 2]
        passes_h = [c for c in visits if hname and isinstance(c.args[1], ast.Name) and c.args[1].id == hname]
        slot = 'past-over-future:%s' % name
        # (a) refuses operands with look-ahead
        guarded = False
        for st in ast.walk(f.node):
            if isinstance(st, ast.If) and hname and any(isinstance(x, ast.Name) and x.id == hname for x in ast.walk(st.test)) \
                    and st.body and isinstance(st.body[-1], ast.Raise):
                guarded = True
        # (b) masks: the rebuilt operator is not applied to the bare rewritten operand
        bound = {}
        for st in f.node.body:
            if isinstance(st, ast.Assign) and isinstance(st.targets[0], ast.Name) and isinstance(st.value, ast.Call) and D._self_call(st.value) == 'visit':
                bound[st.targets[0].id] = st.value
        bare = False
        for c in ast.walk(f.node):
            if isinstance(c, ast.Call) and isinstance(c.func, ast.Name) and c.func.id == name:
                if any(isinstance(a, ast.Name) and a.id in bound for a in c.args):
                    bare = True
        if not passes_h:
            rep.ok(rule, f.module.rel, f.qual, slot, 'the operands are rewritten with no look-ahead of their own', f.node.lineno)
        elif guarded:
            rep.ok(rule, f.module.rel, f.qual, slot, 'an operand with positive look-ahead is refused', f.node.lineno)
        elif not bare:
            rep.ok(rule, f.module.rel, f.qual, slot, 'the rewritten operand is wrapped before %s is applied to it' % name, f.node.lineno)
        else:
            rep.fail(rule, f.module.rel, f.qual, slot, 'the past operator %s is rebuilt directly over its delayed operand: when the operand looks ahead by H > 0 samples, the first H samples of '
                     'the delayed operand stand for times before the origin, and the rewritten %s ranges over them -- its value differs from the offline value at sample i-h '
                     '(for unbounded once/historically/since: for ever)' % (name, name), f.node.lineno)
    return n


# ------------------------------------------------------------------------------------------------- constructor round trip
def check_roundtrip(ix, rep, pcls, rule='R-REMAP'):
    """the pastifier copies leaves by re-feeding a node's attributes to its constructor, `Variable(node.var, node.field, node.io_type)`:
    that is a copy only if the constructor stores each of those parameters unchanged under that attribute name"""
    nodes = {c.name: c for c in D.node_classes(ix)}
    n = 0
    seen = set()
    for c in ix.mro(pcls):
        if not hasattr(c, 'methods'):
            continue
        for name, f in sorted(c.methods.items()):
            if not name.startswith('visit'):
                continue
            g = ix.resolve_method(pcls, name)
            if g is not f or id(f) in seen:
                continue
            seen.add(id(f))
            nodep = f.node.args.args[1].arg if len(f.node.args.args) > 1 else None
            for call in ast.walk(f.node):
                if not (isinstance(call, ast.Call) and isinstance(call.func, ast.Name) and call.func.id in nodes):
                    continue
                init = ix.resolve_method(nodes[call.func.id], '__init__')
                if init is None:
                    continue
                params = [a.arg for a in init.node.args.args[1:]]
                for pos, a in enumerate(call.args):
                    if isinstance(a, ast.Attribute) and isinstance(a.value, ast.Name) and a.value.id == nodep and pos < len(params):
                        attr = a.attr
                        n += 1
                        rep.analysed(init)
                        stores = [st for st in ast.walk(init.node) if isinstance(st, ast.Assign) and any(isinstance(t, ast.Attribute) and isinstance(t.value, ast.Name)
                                  and t.value.id == 'self' and t.attr == attr for t in st.targets)]
                        slot = 'roundtrip:%s.%s' % (call.func.id, attr)
                        if not stores:
                            # stored by a base constructor or a property: follow one level of delegation by name
                            rep.ok(rule, init.module.rel, init.qual, slot, 'attribute set outside this constructor', init.node.lineno)
                            continue
                        v = stores[-1].value
                        if isinstance(v, ast.Name) and v.id == params[pos]:
                            rep.ok(rule, init.module.rel, init.qual, slot, 'self.%s = %s (parameter %d), so %s(node.%s ...) reproduces it' % (attr, params[pos], pos, call.func.id, attr), stores[-1].lineno)
                        else:
                            rep.fail(rule, init.module.rel, init.qual, slot, 'the pastifier rebuilds the node as %s(..., node.%s, ...) but the constructor stores `self.%s = %s`, not its parameter `%s`: '
                                     'feeding the stored value back does not reproduce the node (an input variable can become an output variable in the rewritten specification)'
                                     % (call.func.id, attr, attr, ast.unparse(v), params[pos]), stores[-1].lineno)
    return n


# ------------------------------------------------------------------------------------------------- dimension of the horizon
def check_horizon_dimension(ix, rep, hcls, rule='R-DIM'):
    """The look-ahead of the timed operators is accumulated in the default time unit (bounds_in_default_unit); `next` contributes one *sample*.
    Adding the bare number 1 to a duration is right only when the sampling period is one default unit: the delay once[1,1] given to the siblings
    of `next a` is then 1 time unit = (1 / period) samples, while removing `next` shifted `a` by exactly one sample."""
    nodes = {c.name: c for c in D.node_classes(ix)}
    hd = D.dispatch_of(ix, hcls)
    # are timed bounds converted to a duration?
    timed_in_time_units = False
    for nm in ('TimedEventually', 'TimedAlways', 'TimedUntil'):
        meth, _ = hd.method_for(nodes[nm], ix)
        cat, info, f = D.classify(ix, hcls, meth) if meth else (None, None, None)
        if cat == 'compute' and any(isinstance(c, ast.Call) and isinstance(c.func, ast.Name) and unitflow.is_normaliser(ix.resolve_expr(f.module, c.func))
                                    for c in ast.walk(f.node) if isinstance(c, ast.Call) and isinstance(c.func, ast.Name) and isinstance(ix.resolve_expr(f.module, c.func), FuncInfo)):
            timed_in_time_units = True
    n = 0
    for nm in ('Next', 'StrongNext'):
        meth, _ = hd.method_for(nodes[nm], ix)
        cat, info, f = D.classify(ix, hcls, meth) if meth else (None, None, None)
        if cat != 'compute':
            continue
        n += 1
        rep.analysed(f)
        slot = 'horizon-unit:%s' % nm
        mentions_period = any(isinstance(x, (ast.Attribute, ast.Name)) and 'sampling_period' in ast.unparse(x) for x in ast.walk(f.node)) or \
            any(isinstance(c, ast.Call) and isinstance(c.func, (ast.Name, ast.Attribute)) and unitflow.is_period_normaliser(ix.resolve_expr(f.module, c.func))
                for c in ast.walk(f.node) if isinstance(c, ast.Call) and isinstance(c.func, (ast.Name, ast.Attribute)) and isinstance(ix.resolve_expr(f.module, c.func), FuncInfo))
        if not timed_in_time_units or mentions_period:
            rep.ok(rule, f.module.rel, f.qual, slot, 'look-ahead of %s is expressed in the unit of the other look-aheads' % nm.lower(), f.node.lineno)
        else:
            rep.fail(rule, f.module.rel, f.qual, slot, 'the look-ahead of the timed operators is a duration in the default unit, %s adds the bare number 1 (one sample) to it: with a sampling '
                     'period other than one default unit the siblings of `next a` are delayed by 1 time unit, not by 1 sample' % nm, f.node.lineno)
    return n
