"""R-MIRROR -- the handler of a dual operator equals the dual image of its partner's handler;
R-SIB -- members of a sibling family are identical up to one abstracted slot."""
import ast

from sa.index import AnalysisError, ClassInfo
from sa import norm, dispatch as D, model as M
from sa.rules import exh

PAIRS = (('Once', 'Historically'), ('Eventually', 'Always'), ('TimedOnce', 'TimedHistorically'), ('TimedEventually', 'TimedAlways'))


def unread_self_attrs(ix, cls, exclude=('update_final', 'sat_final')):
    reads, writes = set(), set()
    for c in ix.mro(cls):
        if not isinstance(c, ClassInfo):
            continue
        for name, f in c.methods.items():
            if name in exclude:
                continue
            for n in ast.walk(f.node):
                if isinstance(n, ast.Attribute) and isinstance(n.value, ast.Name) and n.value.id == 'self':
                    (writes if isinstance(n.ctx, ast.Store) else reads).add(n.attr)
    return writes - reads


def compression_only_attrs(cls, meth='update'):
    """self attributes that are read only in tests guarding the removal of a duplicate boundary sample
    (``result.pop(0)``): they influence how equal consecutive samples are merged, which the properties leave free."""
    f = cls.methods.get(meth)
    if f is None:
        return set()
    reads = {}
    for n in ast.walk(f.node):
        if isinstance(n, ast.Attribute) and isinstance(n.ctx, ast.Load) and isinstance(n.value, ast.Name) and n.value.id == 'self':
            reads.setdefault(n.attr, []).append(n)
    guarded = {}

    def only_pops(stmts):
        for st in stmts:
            if isinstance(st, ast.If):
                if not only_pops(st.body) or not only_pops(st.orelse):
                    return False
            elif isinstance(st, ast.Expr) and isinstance(st.value, ast.Call) and isinstance(st.value.func, ast.Attribute) and st.value.func.attr == 'pop':
                continue
            else:
                return False
        return True
    ok_nodes = set()
    for n in ast.walk(f.node):
        if isinstance(n, ast.If) and only_pops(n.body) and only_pops(n.orelse):
            for x in ast.walk(n.test):
                ok_nodes.add(id(x))
    out = set()
    for a, nodes in reads.items():
        if all(id(x) in ok_nodes for x in nodes):
            out.add(a)
    return out


def _initial_tests(f):
    """`self.A == <the value the constructor gives A>` says "nothing has happened yet", whatever sentinel the class uses (the two partners of a
    dual pair start a *time* attribute at -inf and at +inf): both spellings become `__initial__('A')` (on a copy)"""
    import copy
    init = f.owner.methods.get('__init__') if f.owner is not None else None
    if init is None or f.name == '__init__':
        return f.node
    vals = {}
    for st in init.node.body:
        if isinstance(st, ast.Assign) and len(st.targets) == 1 and isinstance(st.targets[0], ast.Attribute) and isinstance(st.targets[0].value, ast.Name) and st.targets[0].value.id == 'self':
            vals[st.targets[0].attr] = ast.dump(st.value)

    class T(ast.NodeTransformer):
        def visit_Compare(self, n):
            self.generic_visit(n)
            if len(n.ops) == 1 and isinstance(n.ops[0], ast.Eq):
                for x, y in ((n.left, n.comparators[0]), (n.comparators[0], n.left)):
                    if isinstance(x, ast.Attribute) and isinstance(x.value, ast.Name) and x.value.id == 'self' and vals.get(x.attr) == ast.dump(y) and 'inf' in ast.unparse(y):
                        return ast.copy_location(ast.Call(func=ast.Name(id='__initial__', ctx=ast.Load()), args=[ast.Constant(value=x.attr)], keywords=[]), n)
            return n
    node = T().visit(copy.deepcopy(f.node))
    ast.fix_missing_locations(node)
    return node


def compare_functions(rep, rule, fa, fb, slot, dual=True, drop_a=(), drop_b=(), sort_init=False, what='dual image'):
    da, ta, _ = norm.normal_form(_initial_tests(fa), dual=dual, drop_self_attrs=drop_a, sort_init=sort_init)
    db, tb, _ = norm.normal_form(_initial_tests(fb), dual=False, drop_self_attrs=drop_b, sort_init=sort_init)
    rep.analysed(fa)
    rep.analysed(fb)
    rep.unit(fa.module.rel)
    rep.unit(fb.module.rel)
    if da == db:
        rep.ok(rule, fb.module.rel, '%s~%s' % (fa.qual, fb.qual), slot, '%s is the %s of %s' % (fb.qual, what, fa.qual), fb.node.lineno)
        return True
    diff = norm.text_diff(ta, tb)
    rep.fail(rule, fb.module.rel, '%s~%s' % (fa.qual, fb.qual), slot,
             '%s is not the %s of %s (min<->max, +inf<->-inf, value comparisons flipped); first differences: %s'
             % (fb.qual, what, fa.qual, ' | '.join(diff[:6])), fb.node.lineno, {'diff': diff, 'a': ta, 'b': tb})
    return False


def mirror_visitor_pairs(ix, rep, mon, rule='R-MIRROR'):
    """offline visitors: visitOnce/visitHistorically ...; follows handlers that merely forward to a helper function"""
    d = D.dispatch_of(ix, mon.cls)
    nodes = M.node_by_name(ix)
    n = 0
    for a, b in PAIRS:
        fa = _handler(ix, mon, d, nodes[a])
        fb = _handler(ix, mon, d, nodes[b])
        if fa is None or fb is None:
            continue
        n += 1
        compare_functions(rep, rule, fa, fb, '%s:%s~%s' % (mon.kind, a, b))
        # helpers the handlers forward to (dense time: once_timed_operation ...)
        ha, hb = _forward_helper(ix, fa), _forward_helper(ix, fb)
        if ha is not None and hb is not None:
            n += 1
            compare_functions(rep, rule, ha, hb, '%s:%s~%s:helper' % (mon.kind, a, b))
        elif (ha is None) != (hb is None):
            rep.fail(rule, fb.module.rel, '%s~%s' % (fa.qual, fb.qual), '%s:%s~%s:helper' % (mon.kind, a, b), 'one partner forwards to a helper, the other does not', fb.node.lineno)
    return n


def _handler(ix, mon, d, nc):
    meth, _ = d.method_for(nc, ix)
    if not meth:
        return None
    cat, info, f = D.classify(ix, mon.cls, meth)
    return f if cat == 'compute' else None


def _forward_helper(ix, f):
    """module-level helper the handler's result comes from"""
    from sa.index import FuncInfo
    for n in ast.walk(f.node):
        if isinstance(n, ast.Call) and isinstance(n.func, ast.Name):
            ent = ix.resolve_expr(f.module, n.func)
            if isinstance(ent, FuncInfo) and ent.owner is None and ent.module.name.startswith('rtamt.semantics'):
                return ent
    return None


def mirror_operation_pairs(ix, rep, mon, rule='R-MIRROR'):
    ops = exh.constructed_operations(ix, mon)
    n = 0
    for a, b in PAIRS:
        ca, cb = ops.get(a), ops.get(b)
        if ca is None or cb is None:
            continue
        n += 1
        da, db = unread_self_attrs(ix, ca), unread_self_attrs(ix, cb)
        for meth in ('__init__', 'reset', 'update'):
            fa, fb = ca.methods.get(meth), cb.methods.get(meth)
            if fa is None or fb is None:
                if (fa is None) != (fb is None):
                    rep.fail(rule, cb.module.rel, '%s~%s' % (ca.name, cb.name), '%s:%s~%s:%s' % (mon.kind, a, b, meth), 'method %s exists in one partner only' % meth, cb.node.lineno)
                continue
            compare_functions(rep, rule, fa, fb, '%s:%s~%s:%s' % (mon.kind, a, b, meth), drop_a=da, drop_b=db, sort_init=(meth == '__init__'))
    return n


def unused_operation_pairs(ix, rep, rule='R-MIRROR'):
    """operation classes that exist as files but are not constructed (EventuallyOperation/AlwaysOperation): still mirror partners"""
    n = 0
    for time in ('discrete', 'dense'):
        ops = {c.name: c for c in M.operation_classes(ix, time).values()}
        for a, b in (('EventuallyOperation', 'AlwaysOperation'),):
            if a in ops and b in ops:
                n += 1
                for meth in ('__init__', 'update'):
                    if meth in ops[a].methods and meth in ops[b].methods:
                        compare_functions(rep, rule, ops[a].methods[meth], ops[b].methods[meth], '%s-online:%s~%s:%s' % (time, a, b, meth), sort_init=(meth == '__init__'))
    return n
