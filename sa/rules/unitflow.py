"""R-UNITFLOW -- in the pastifier and the horizon visitor a raw bound (node.begin / node.end) is never combined with
a horizon or put into a new Interval without its unit, unless it went through a normalising function."""
import ast

from sa.index import AnalysisError, ClassInfo, FuncInfo
from sa import dispatch as D


def is_normaliser(f):
    """a function that reads a bound's unit and the unit table U: converts bounds to one unit"""
    src_attrs = {n.attr for n in ast.walk(f.node) if isinstance(n, ast.Attribute)}
    reads_unit = bool({'begin_unit', 'end_unit'} & src_attrs)
    reads_table = any(isinstance(n, ast.Subscript) and isinstance(n.value, ast.Attribute) and n.value.attr == 'U' for n in ast.walk(f.node))
    return reads_unit and reads_table


def is_period_normaliser(f):
    """a function that expresses one sampling period in the default unit: reads sampling_period, sampling_period_unit, the unit table and the default unit"""
    if f is None or not hasattr(f, 'node'):
        return False
    attrs = [n.attr for n in ast.walk(f.node) if isinstance(n, ast.Attribute)]
    table = [n for n in ast.walk(f.node) if isinstance(n, ast.Subscript) and isinstance(n.value, ast.Attribute) and n.value.attr == 'U']
    keys = {ast.unparse(n.slice).split('.')[-1] for n in table}
    if 'get_sampling_period' in attrs and 'unit' in keys:
        return True          # through the accessor: period * U[period unit]
    return 'sampling_period' in attrs and {'sampling_period_unit', 'unit'} <= keys


def normalisers_used(ix, cls, f):
    out = []
    for v in ast.walk(f.node):
        if isinstance(v, ast.Call):
            callee = None
            if isinstance(v.func, ast.Attribute) and isinstance(v.func.value, ast.Name) and v.func.value.id == 'self':
                callee = ix.resolve_method(cls, v.func.attr)
            elif isinstance(v.func, (ast.Name, ast.Attribute)):
                ent = ix.resolve_expr(f.module, v.func)
                callee = ent if isinstance(ent, FuncInfo) else None
            if callee is not None and is_normaliser(callee):
                out.append(callee)
    return out


def check_handler(ix, rep, cls, f, slot, rule='R-UNITFLOW'):
    nodep = f.node.args.args[1].arg
    raw_names = {}  # local name -> 'begin'|'end' (raw number copied from the node)
    norm_names = set()
    problems = []
    nsites = 0

    def raw_kind(e):
        if isinstance(e, ast.Attribute) and isinstance(e.value, ast.Name) and e.value.id == nodep and e.attr in ('begin', 'end'):
            return e.attr
        if isinstance(e, ast.Name) and e.id in raw_names:
            return raw_names[e.id]
        return None

    def contains_raw(e):
        for n in ast.walk(e):
            k = raw_kind(n)
            if k:
                return k
        return None

    for st in ast.walk(f.node):
        if isinstance(st, ast.Assign):
            v = st.value
            if isinstance(v, ast.Call):
                callee = None
                if isinstance(v.func, ast.Attribute) and isinstance(v.func.value, ast.Name) and v.func.value.id == 'self':
                    callee = ix.resolve_method(cls, v.func.attr)
                elif isinstance(v.func, (ast.Name, ast.Attribute)):
                    ent = ix.resolve_expr(f.module, v.func)
                    callee = ent if isinstance(ent, FuncInfo) else None
                if callee is not None and is_normaliser(callee):
                    for t in st.targets:
                        for n in ast.walk(t):
                            if isinstance(n, ast.Name):
                                norm_names.add(n.id)
                                raw_names.pop(n.id, None)
                    continue
            if len(st.targets) == 1 and isinstance(st.targets[0], ast.Name):
                k = raw_kind(v)
                if k:
                    raw_names[st.targets[0].id] = k
            if len(st.targets) == 1 and isinstance(st.targets[0], ast.Tuple) and isinstance(v, ast.Tuple) and len(v.elts) == len(st.targets[0].elts):
                for t, e in zip(st.targets[0].elts, v.elts):
                    k = raw_kind(e)
                    if k and isinstance(t, ast.Name):
                        raw_names[t.id] = k
    # sinks
    for n in ast.walk(f.node):
        if isinstance(n, ast.Call) and isinstance(n.func, ast.Name):
            ent = ix.resolve_expr(f.module, n.func)
            if isinstance(ent, ClassInfo) and ent.name == 'Interval':
                nsites += 1
                args = list(n.args)
                units = [ast.unparse(a) for a in args[2:4]] + [ast.unparse(k.value) for k in n.keywords]
                for pos, a in enumerate(args[:2]):
                    k = contains_raw(a)
                    if k:
                        want = '%s.%s_unit' % (nodep, k)
                        has = len(args) >= 4 and ast.unparse(args[2 + pos]) == '%s.%s_unit' % (nodep, 'begin' if pos == 0 else 'end') and k == ('begin' if pos == 0 else 'end') \
                            and isinstance(a, (ast.Attribute, ast.Name))
                        if not has:
                            problems.append((n.lineno, 'builds `%s` from the raw number %s.%s without its unit (%s): a bound written with an explicit unit '
                                             'is re-read in the default unit' % (ast.unparse(n)[:60], nodep, k, want)))
        if isinstance(n, ast.BinOp) and isinstance(n.op, (ast.Add, ast.Sub)):
            k = contains_raw(n.left) or contains_raw(n.right)
            if k:
                nsites += 1
                problems.append((n.lineno, 'combines the raw number %s.%s with another duration in `%s`: bounds written in different units are '
                                 'added as plain numbers' % (nodep, k, ast.unparse(n)[:50])))
        if isinstance(n, ast.Compare):
            k = contains_raw(n)
            if k:
                nsites += 1
    seen = set()
    for (line, msg) in problems:
        key = msg[:60]
        if key in seen:
            continue
        seen.add(key)
        rep.fail(rule, f.module.rel, f.qual, '%s:%s' % (slot, key[:40]), msg, line)
    if not problems:
        rep.ok(rule, f.module.rel, f.qual, slot, 'bounds are normalised or carried with their units' if (raw_names or norm_names or nsites) else 'handler uses no bound', f.node.lineno)
    return nsites


def check_raw_bounds(ix, rep, prefixes=('rtamt/semantics/', 'rtamt/explanation/', 'rtamt/pastifier/'), rule='R-UNITFLOW', label='consumer'):
    """the bounds of a timed node are numbers *in a unit* (node.begin_unit / end_unit, else the other bound's, else the default unit), and the
    evaluation counts them in sampling periods.  A function that receives a node and reads node.begin / node.end without reading the units in
    the same function uses the written number as if it were a count of samples: right only for period 1 in the default unit.  Reads are
    legitimate inside a normaliser (a function that reads the bound *and* its unit and the unit table; those are decided by R-DIM)."""
    n = 0
    for mod in sorted(ix.modules.values(), key=lambda m: m.rel):
        if not any(mod.rel.startswith(p) for p in prefixes) or ix.unimportable(mod):
            continue
        for fn in ast.walk(mod.tree):
            if not isinstance(fn, ast.FunctionDef):
                continue
            params = [a.arg for a in fn.args.args if a.arg not in ('self', 'cls')]
            reads = {}
            units = set()
            for x in ast.walk(fn):
                if isinstance(x, ast.Attribute) and isinstance(x.value, ast.Name) and x.value.id in params and isinstance(x.ctx, ast.Load):
                    if x.attr in ('begin', 'end'):
                        reads.setdefault(x.value.id, []).append(x)
                    if x.attr in ('begin_unit', 'end_unit'):
                        units.add(x.value.id)
            for p, xs in sorted(reads.items()):
                n += 1
                rep.unit(mod.rel)
                owner = None
                for c in ast.walk(mod.tree):
                    if isinstance(c, ast.ClassDef) and any(s is fn for s in c.body):
                        owner = c.name
                sym = '%s.%s' % (owner, fn.name) if owner else fn.name
                slot = '%s:%s.begin/end' % (label, p)
                if p in units:
                    rep.ok(rule, mod.rel, sym, slot, 'read together with the units (normaliser)', xs[0].lineno)
                else:
                    rep.fail(rule, mod.rel, sym, slot, '`%s` is used without its unit and without the sampling period (%d reads, e.g. `%s`): the written number is taken for a number of '
                             'samples, which it is only for a period of 1 in the default unit -- with a period of 500 ms, `[0,1]` spans two more samples than the one this code looks at'
                             % (ast.unparse(xs[0]), len(xs), ast.unparse(xs[0])), xs[0].lineno)
    return n


def check_period_normalisers(ix, rep, rule='R-DIM'):
    """one sampling period as a duration in the default unit: period * U[period unit] / U[default unit], on every path, for every caller (no
    fallback constant when something is missing)"""
    from sa import alg
    from sa.rules import units
    n = 0
    for mod in sorted(ix.modules.values(), key=lambda m: m.rel):
        if not mod.rel.startswith('rtamt/pastifier/'):
            continue
        for f in mod.functions.values():
            if not is_period_normaliser(f):
                continue
            n += 1
            rep.analysed(f)
            run = units.TransformerRun(f, False, False, ix=ix, nodep='#none')
            run.run()
            want = alg.RatFun.sym('period') * alg.RatFun.sym('U[P]') / alg.RatFun.sym('U[D]')
            slot = 'period-normaliser:%s' % f.node.name
            bad = [m for (_l, m) in run.problems]
            if bad:
                rep.fail(rule, f.module.rel, f.qual, slot, 'the period normaliser %s' % bad[0], run.problems[0][0])
            elif run.ret_scalar is None:
                rep.fail(rule, f.module.rel, f.qual, slot, 'no period returned', f.node.lineno)
            elif run.ret_scalar.same(want):
                rep.ok(rule, f.module.rel, f.qual, slot, 'sampling_period * U[period unit] / U[default unit]', f.node.lineno)
            else:
                rep.fail(rule, f.module.rel, f.qual, slot, 'one sampling period in the default unit is %r, it has to be sampling_period * U[period unit] / U[default unit]' % run.ret_scalar, f.node.lineno)
    return n
