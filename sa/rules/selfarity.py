"""R-ARITY -- a self-call is checked against every class it can run in.

``self.m(a, b)`` written in class K is executed with self an instance of K *or of any subclass that inherits the calling method*; the
callee is the one that subclass resolves.  A subclass that overrides m (or __init__) with another signature turns the inherited caller
into a TypeError that no test of K can see.  For every class of rtamt/semantics and every method it resolves (own or inherited) each
``self.m(...)`` / ``self.__init__(...)`` call is matched against the parameters of the callee resolved on that class.
"""
import ast

from sa.index import ClassInfo


def _sig(fn):
    a = fn.args
    pos = [x.arg for x in a.posonlyargs + a.args]
    if pos and pos[0] in ('self', 'cls'):
        pos = pos[1:]
    nreq = len(pos) - len(a.defaults)
    return pos, nreq, a.vararg is not None, a.kwarg is not None, [k.arg for k in a.kwonlyargs], \
        [k.arg for k, d in zip(a.kwonlyargs, a.kw_defaults) if d is None]


def mismatch(call, fn):
    pos, nreq, var, kw, kwonly, kwreq = _sig(fn)
    if any(isinstance(x, ast.Starred) for x in call.args) or any(k.arg is None for k in call.keywords):
        return None          # *args / **kwargs at the call: not decided here
    np = len(call.args)
    names = [k.arg for k in call.keywords]
    if np > len(pos) and not var:
        return 'takes %d positional argument%s, %d given' % (len(pos), '' if len(pos) == 1 else 's', np)
    for k in names:
        if k in pos[:np]:
            return 'argument `%s` given twice' % k
        if k not in pos and k not in kwonly and not kw:
            return 'has no parameter `%s`' % k
    missing = [p for p in pos[np:nreq] if p not in names] + [k for k in kwreq if k not in names]
    if missing:
        return 'needs `%s`, which the call does not supply' % missing[0]
    return None


def check(ix, rep, prefixes=('rtamt/semantics/',), rule='R-ARITY'):
    n = 0
    reported = set()
    for cls in list(ix.all_classes()) + [t[2] for t in ix.factory_instances()]:
        if not isinstance(cls, ClassInfo) or not any(cls.module.rel.startswith(p) for p in prefixes):
            continue
        if ix.has_external_base(cls):
            continue     # part of the MRO is outside the repository (ANTLR visitors): resolution would be incomplete
        names = set()
        for k in ix.mro(cls):
            names |= set(getattr(k, 'methods', {}))
        for mname in sorted(names):
            f = ix.resolve_method(cls, mname)
            if f is None:
                continue
            for c in ast.walk(f.node):
                if not (isinstance(c, ast.Call) and isinstance(c.func, ast.Attribute) and isinstance(c.func.value, ast.Name) and c.func.value.id == 'self'):
                    continue
                g = ix.resolve_method(cls, c.func.attr)
                if g is None:
                    continue
                if any(ast.unparse(d) in ('property', 'staticmethod') for d in g.node.decorator_list):
                    continue
                n += 1
                why = mismatch(c, g.node)
                slot = 'self.%s@%s' % (c.func.attr, cls.name)
                key = (f.qual, c.lineno, g.qual)
                if why is None:
                    if key not in reported:
                        reported.add(key)
                        rep.ok(rule, f.module.rel, f.qual, 'self.%s->%s' % (c.func.attr, g.qual), 'signature accepts the call', c.lineno)
                else:
                    rep.fail(rule, f.module.rel, f.qual, slot, 'on an instance of %s (%s) the call `%s` reaches %s, which %s: TypeError as soon as %s() runs on '
                             'such an object' % (cls.name, cls.module.rel, ast.unparse(c)[:60], g.qual, why, f.node.name), c.lineno)
    return n
