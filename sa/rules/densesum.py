"""Operator summaries for dense time: per-sample loops, the slot function handed to the merge kernel, predicate tables."""
import ast

from sa.index import AnalysisError, FuncInfo, ClassInfo
from sa.index import before as _before
from sa import opsum as O
from sa.rules import opref

X0, X1 = opref.X0, opref.X1


def kernel_slot(ix, f):
    """``intersect.intersection(A, B, intersect.<fn>)`` in f -> (FuncInfo of <fn>, argument texts) or None"""
    for n in ast.walk(f.node):
        if isinstance(n, ast.Call) and isinstance(n.func, ast.Attribute) and n.func.attr == 'intersection' and len(n.args) == 3:
            ent = ix.resolve_expr(f.module, n.args[2])
            kern = ix.resolve_expr(f.module, n.func)
            if isinstance(ent, FuncInfo) and isinstance(kern, FuncInfo):
                return ent, [ast.unparse(a) for a in n.args[:2]], kern, n
    return None


def forwarded_helper(ix, f):
    """module-level helper of the semantics package whose result the handler returns"""
    for n in ast.walk(f.node):
        if isinstance(n, ast.Call) and isinstance(n.func, ast.Name):
            ent = ix.resolve_expr(f.module, n.func)
            if isinstance(ent, FuncInfo) and ent.owner is None and ent.module.name.startswith('rtamt.semantics'):
                return ent, n
    return None


def operand_order_ok(f, call_args):
    """the handler passes (left child result, right child result) in that order"""
    names = {}
    for st in f.node.body:
        if isinstance(st, ast.Assign) and isinstance(st.targets[0], ast.Name):
            k = O.visit_child_index(st.value)
            if k is not None:
                names[st.targets[0].id] = k
    params = [a.arg for a in f.node.args.args if a.arg != 'self']
    for i, p in enumerate(params[:2]):
        names.setdefault(p, i)
    got = [names.get(a) for a in call_args]
    return got == [0, 1], got


def reorder(term, got):
    """term over (x0, x1) when the callee actually receives children `got` as (first, second)"""
    if got == [0, 1]:
        return term
    if sorted(got) != [0, 1]:
        return None
    def f(e):
        if isinstance(e, tuple) and e and e[0] == 'x':
            return ('x', got[e[1]], e[2], e[3])
        return None
    return O.subst(term, f)


def split_ok(fn):
    """split(a, b) returns [a, b] in order"""
    if len(fn.node.body) == 1 and isinstance(fn.node.body[0], ast.Return) and isinstance(fn.node.body[0].value, (ast.List, ast.Tuple)):
        a, b = [x.arg for x in fn.node.args.args]
        return [ast.unparse(e) for e in fn.node.body[0].value.elts] == [a, b]
    return False


def summarize_offline_handler(ix, f):
    """-> (normal form, partial guard, trail) for a dense offline visitX"""
    nf, partial = O.summarize_dense(f.node)
    if nf[0] != 'unknown':
        return nf, partial, 'loop'
    ks = kernel_slot(ix, f)
    if ks is not None:
        fn, args, kern, call = ks
        ok, got = operand_order_ok(f, args)
        term = O.binary_function_term(fn.node)
        if term is None:
            return ('unknown', 'slot function %s not a simple expression' % fn.name), None, 'slot'
        term = reorder(term, got)
        if term is None:
            return ('unknown', 'kernel operands are children %s' % got), None, 'slot-order'
        return ('pointwise', term), None, 'slot:' + fn.name + ('' if ok else ' (operands swapped)')
    fh = forwarded_helper(ix, f)
    if fh is not None:
        h, call = fh
        ok, got = operand_order_ok(f, [ast.unparse(a) for a in call.args[:2]])
        hk = kernel_slot(ix, h)
        if hk is not None:
            fn, args, kern, kcall = hk
            okh, goth = operand_order_ok(h, args)
            if sorted(got) != [0, 1] or sorted(goth) != [0, 1]:
                return ('unknown', 'operands reach the kernel as %s / %s' % (got, goth)), None, 'helper-order'
            eff = [got[goth[0]], got[goth[1]]]
            if fn.name == 'split':
                if not split_ok(fn):
                    return ('unknown', 'split does not return [a, b]'), None, 'split'
                nf2, p2 = O.summarize_dense(h.node, pair_of_values=True)
                if nf2[0] != 'unknown' and eff != [0, 1]:
                    nf2 = _reorder_nf(nf2, eff)
                return nf2, p2, 'helper:%s+split' % h.name
            term = O.binary_function_term(fn.node)
            if term is None:
                return ('unknown', 'slot function %s' % fn.name), None, 'helper-slot'
            # a helper that only merges: pointwise
            loops = [s for s in h.node.body if isinstance(s, (ast.For, ast.While))]
            if not loops:
                return ('pointwise', reorder(term, eff)), None, 'helper:%s:slot:%s' % (h.name, fn.name)
    return nf, partial, 'unknown'


def _reorder_nf(nf, got):
    def f(e):
        if isinstance(e, tuple) and e and e[0] == 'x':
            return ('x', got[e[1]], e[2], e[3])
        return None
    if nf[0] == 'pointwise':
        return ('pointwise', O.subst(nf[1], f))
    if nf[0] == 'scan':
        return ('scan', nf[1], nf[2], O.subst(nf[3], f), nf[4] if nf[4] == 'out' else O.subst(nf[4], f))
    return nf


def predicate_table_offline(ix, f):
    """dense offline visitPredicate: loop over subtraction_operation(left, right) with the comparison table"""
    src_call = None
    for st in f.node.body:
        if isinstance(st, ast.Assign) and isinstance(st.value, ast.Call) and isinstance(st.value.func, ast.Name):
            ent = ix.resolve_expr(f.module, st.value.func)
            if isinstance(ent, FuncInfo):
                hk = kernel_slot(ix, ent)
                if hk is not None:
                    fn = hk[0]
                    ok, got = operand_order_ok(f, [ast.unparse(a) for a in st.value.args[:2]])
                    okh, goth = operand_order_ok(ent, hk[1])
                    term = O.binary_function_term(fn.node)
                    if term is None or sorted(got) != [0, 1] or sorted(goth) != [0, 1]:
                        return ('unknown', 'operand order of the difference: %s / %s' % (got, goth)), None
                    src_call = reorder(term, [got[goth[0]], got[goth[1]]])
    if src_call is None:
        return ('unknown', 'no difference signal'), None
    return O.summarize_dense(f.node, operands=src_call)


def summarize_online_operation(ix, cls):
    """dense online operation class -> normal form of update()"""
    up = ix.resolve_method(cls, 'update')
    init = ix.resolve_method(cls, '__init__')
    if up is None:
        return ('unknown', 'no update'), None, 'none'
    # seed constants from the constructor as if assigned before the loop
    fnode = up.node
    if init is not None and isinstance(init.owner, ClassInfo) and init.owner is cls:
        consts = [s for s in init.node.body if isinstance(s, ast.Assign) and O.const_of(s.value) is not None]
        if consts:
            import copy
            fnode = copy.deepcopy(up.node)
            fnode.body = [copy.deepcopy(s) for s in consts] + fnode.body
    nf, partial = O.summarize_dense(fnode)
    if nf[0] != 'unknown':
        return nf, partial, 'loop'
    ks = kernel_slot(ix, up)
    if ks is not None:
        fn, args, kern, call = ks
        term = O.binary_function_term(fn.node)
        if term is None:
            return ('unknown', 'slot function %s' % fn.name), None, 'slot'
        # operand order: buffers named after left/right parameters
        params = [a.arg for a in up.node.args.args[1:3]]
        want = ['self.%s_buf' % p for p in params]
        if sorted(args) != sorted(want):
            return ('unknown', 'kernel called with %s, expected %s' % (args, want)), None, 'slot-order'
        got = [want.index(a) for a in args]
        return ('pointwise', reorder(term, got)), None, 'slot:' + fn.name
    return nf, partial, 'unknown'


def check_constant_leaf(rep, f, valtext, slot, rule='R-OPSUM'):
    """dense-time constant: the signal [[0, val], [inf, val]] -- defined from time 0, holding val for ever"""
    lists = [n for n in ast.walk(f.node) if isinstance(n, ast.List) and n.elts and all(isinstance(e, ast.List) and len(e.elts) == 2 for e in n.elts)]
    if not lists:
        rep.fail(rule, f.module.rel, f.qual, slot, 'the constant handler does not build a list of [time, value] samples', f.node.lineno)
        return
    for lst in lists:
        probs = []
        t0 = lst.elts[0].elts[0]
        if not (isinstance(t0, ast.Constant) and t0.value == 0):
            probs.append('the first sample is at %s, not at time 0' % ast.unparse(t0))
        prev_inf = False
        for k, e in enumerate(lst.elts):
            if ast.unparse(e.elts[1]) != valtext:
                probs.append('sample %d carries %s, not %s' % (k, ast.unparse(e.elts[1]), valtext))
            if k > 0:
                t = e.elts[0]
                pos_inf = isinstance(t, ast.Call) and getattr(t.func, 'id', None) == 'float' and t.args and isinstance(t.args[0], ast.Constant) \
                    and str(t.args[0].value).lower() in ('inf', '+inf', 'infinity')
                if not pos_inf:
                    probs.append('sample %d is at %s: time-stamps must increase (the closing sample is at +inf)' % (k, ast.unparse(t)))
        if probs:
            rep.fail(rule, f.module.rel, f.qual, slot, 'constant signal %s: %s' % (ast.unparse(lst), '; '.join(probs)), lst.lineno)
        else:
            rep.ok(rule, f.module.rel, f.qual, slot, 'constant signal %s' % ast.unparse(lst), lst.lineno)


def check_first_sample(ix, rep, funcs, label, rule='R-SEGOUT'):
    """output compression `if value != previous or ...: out.append([t, value])` in a forward loop: the variable `previous` must start as
    NaN (equal to no value) or the test must hold on the first iteration; started at a possible value (+-inf), the first sample is dropped
    when the signal begins with that value and the output no longer starts at the beginning of the domain"""
    n = 0
    for f in funcs:
        parents = {}
        for p in ast.walk(f.node):
            for c in ast.iter_child_nodes(p):
                parents[id(c)] = p
        for st in ast.walk(f.node):
            if not isinstance(st, ast.If):
                continue
            cmp_ = None
            disj = st.test.values if isinstance(st.test, ast.BoolOp) and isinstance(st.test.op, ast.Or) else [st.test]
            for t in disj:
                if isinstance(t, ast.Compare) and len(t.ops) == 1 and isinstance(t.ops[0], ast.NotEq) and isinstance(t.comparators[0], ast.Name) \
                        and isinstance(t.left, (ast.Name, ast.Subscript)):
                    cmp_ = t
                elif isinstance(t, ast.Compare) and len(t.ops) == 1 and isinstance(t.ops[0], ast.NotEq) and isinstance(t.left, ast.Name) \
                        and isinstance(t.comparators[0], ast.Subscript):
                    # previous != value: the same test written the other way round
                    cmp_ = ast.Compare(left=t.comparators[0], ops=t.ops, comparators=[t.left])
            if cmp_ is None:
                continue
            appends = [c for s2 in st.body for c in ast.walk(s2) if isinstance(c, ast.Call) and isinstance(c.func, ast.Attribute) and c.func.attr == 'append']
            if not appends:
                continue
            # enclosing forward loop
            lp = parents.get(id(st))
            while lp is not None and not isinstance(lp, (ast.For, ast.While)):
                lp = parents.get(id(lp))
            if not isinstance(lp, ast.For) or 'reversed' in ast.unparse(lp.iter):
                continue
            pname = cmp_.comparators[0].id
            # is the compression variable updated to the value at the end of each iteration?
            updated = any(isinstance(s2, ast.Assign) and isinstance(s2.targets[0], ast.Name) and s2.targets[0].id == pname for s2 in lp.body)
            if not updated:
                continue
            init = None
            for s2 in ast.walk(f.node):
                if isinstance(s2, ast.Assign) and isinstance(s2.targets[0], ast.Name) and s2.targets[0].id == pname and _before(s2, lp):
                    init = s2.value
            n += 1
            rep.analysed(f)
            first_iter = any(isinstance(t, ast.Compare) and ast.unparse(t).replace(' ', '') in ('i==0', '0==i') for t in disj)
            is_nan = init is not None and isinstance(init, ast.Call) and ast.unparse(init).replace('"', "'").lower() == "float('nan')"
            slot = '%s:first-sample:%s' % (label, pname)
            if is_nan or first_iter:
                rep.ok(rule, f.module.rel, f.qual, slot, 'the first sample is always emitted', st.lineno)
            else:
                rep.fail(rule, f.module.rel, f.qual, slot, 'the compression variable `%s` starts as %s, a value the signal can take: when the result begins with that value its first '
                         'sample is dropped and the output no longer starts at the beginning of the domain' % (pname, ast.unparse(init) if init is not None else 'undefined'), st.lineno)
    return n
