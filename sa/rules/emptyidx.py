"""R-EMPTYIDX -- dense-time online operations receive sample lists that may be empty (a variable without new samples, an operand whose
output is delayed): a constant index into such a list, or into a buffer attribute, must be protected by a non-emptiness test."""
import ast


def _mentions(e, name, skip=None):
    for n in ast.walk(e):
        if n is skip:
            continue
        if isinstance(n, ast.Name) and n.id == name:
            # not the occurrence inside the subscript we are judging
            return True
        if isinstance(n, ast.Attribute) and ast.unparse(n) == name:
            return True
    return False


def _without(e, node):
    """does e mention something besides node's own subtree"""
    inner = {id(x) for x in ast.walk(node)}
    return [n for n in ast.walk(e) if id(n) not in inner]


def check_class(rep, cls, label, rule='R-EMPTYIDX'):
    n = 0
    for mname, f in sorted(cls.methods.items()):
        if mname in ('__init__', 'reset', 'update_final', 'sat_final'):
            continue
        params = [a.arg for a in f.node.args.args if a.arg != 'self']
        parents = {}
        for p in ast.walk(f.node):
            for c in ast.iter_child_nodes(p):
                parents[id(c)] = p
        bad = None
        for s in ast.walk(f.node):
            if not (isinstance(s, ast.Subscript) and isinstance(s.ctx, ast.Load)):
                continue
            idx = s.slice
            const = (isinstance(idx, ast.Constant) and isinstance(idx.value, int)) or \
                (isinstance(idx, ast.UnaryOp) and isinstance(idx.op, ast.USub) and isinstance(idx.operand, ast.Constant))
            if not const:
                continue
            base = s.value
            if isinstance(base, ast.Name) and base.id in params:
                name = base.id
            elif isinstance(base, ast.Attribute) and isinstance(base.value, ast.Name) and base.value.id == 'self' and 'buf' in base.attr:
                name = ast.unparse(base)
            else:
                continue
            n += 1
            ok = False
            child = s
            q = parents.get(id(s))
            while q is not None and q is not f.node:
                if isinstance(q, ast.BoolOp) and isinstance(q.op, ast.And):
                    i = next(k for k, v in enumerate(q.values) if any(x is child for x in ast.walk(v)))
                    if any(_mentions_name(v, name) for v in q.values[:i]):
                        ok = True
                        break
                if isinstance(q, (ast.If, ast.While)) and not any(x is child for x in ast.walk(q.test)):
                    if _mentions_name(q.test, name):
                        ok = True
                        break
                if isinstance(q, ast.For) and not any(x is child for x in ast.walk(q.iter)) and _mentions_name(q.iter, name):
                    ok = True
                    break
                child = q
                q = parents.get(id(q))
            if not ok and bad is None:
                bad = (s, name)
        if bad:
            rep.fail(rule, f.module.rel, f.qual, '%s:%s' % (label, bad[1]), '`%s` indexes `%s` without a preceding non-emptiness test: an update in which that operand has no new samples '
                     '(legal: delayed operand, variable without news) raises IndexError' % (ast.unparse(bad[0]), bad[1]), bad[0].lineno)
        elif n:
            rep.ok(rule, f.module.rel, f.qual, '%s:%s' % (label, mname), 'every constant index into a chunk or buffer is guarded by a non-emptiness test', f.node.lineno)
    return n


def _mentions_name(e, name):
    for n in ast.walk(e):
        if isinstance(n, ast.Name) and n.id == name:
            return True
        if isinstance(n, ast.Attribute) and ast.unparse(n) == name:
            return True
    return False


def _resolve_callee(ix, mod, fn, call):
    from sa.index import FuncInfo, ClassInfo
    f = call.func
    try:
        if isinstance(f, ast.Attribute) and isinstance(f.value, ast.Name) and f.value.id == 'self':
            for c in mod.classes.values():
                if any(g.node is fn for g in c.methods.values()):
                    return ix.resolve_method(c, f.attr)
        if isinstance(f, ast.Attribute) and isinstance(f.value, ast.Name):
            ent = ix.resolve_expr(mod, f.value)
            if isinstance(ent, ClassInfo):
                return ix.resolve_method(ent, f.attr)
        ent = ix.resolve_expr(mod, f)
        if isinstance(ent, FuncInfo):
            return ent
    except Exception:
        return None
    return None


def _lockstep(callee, i, j):
    """the callee returns a tuple whose components i and j are local lists that are appended to in lockstep"""
    rets = [r for r in ast.walk(callee.node) if isinstance(r, ast.Return) and isinstance(r.value, ast.Tuple) and len(r.value.elts) > max(i, j)]
    if not rets:
        return False
    for r in rets:
        x, y = r.value.elts[i], r.value.elts[j]
        if not (isinstance(x, ast.Name) and isinstance(y, ast.Name)):
            return False
        X, Y = x.id, y.id
        for node in ast.walk(callee.node):
            for field in ('body', 'orelse', 'finalbody'):
                blk = getattr(node, field, None)
                if not (isinstance(blk, list) and blk and isinstance(blk[0], ast.stmt)):
                    continue
                cx = sum(1 for st in blk if isinstance(st, ast.Expr) and isinstance(st.value, ast.Call) and isinstance(st.value.func, ast.Attribute)
                         and st.value.func.attr in ('append', 'insert') and isinstance(st.value.func.value, ast.Name) and st.value.func.value.id == X)
                cy = sum(1 for st in blk if isinstance(st, ast.Expr) and isinstance(st.value, ast.Call) and isinstance(st.value.func, ast.Attribute)
                         and st.value.func.attr in ('append', 'insert') and isinstance(st.value.func.value, ast.Name) and st.value.func.value.id == Y)
                if cx != cy:
                    return False
        # no other mutation of either list
        for c in ast.walk(callee.node):
            if isinstance(c, ast.Call) and isinstance(c.func, ast.Attribute) and isinstance(c.func.value, ast.Name) and c.func.value.id in (X, Y) \
                    and c.func.attr in ('pop', 'remove', 'extend', 'clear', 'sort'):
                return False
    return True


def check_parallel_index(ix, rep, prefixes, label, rule='R-INDEX'):
    """dense-time sample lists have their own lengths (equal consecutive values are merged per list): inside `for i in range(len(A))` /
    `for i, x in enumerate(A)` only A may be indexed by i -- another list indexed by the same i runs out of range (or pairs up samples of
    different instants) as soon as the two were compressed differently.  Accepted: B bound together with A by one tuple assignment from a
    single call (`a, b = f(..)` does not make them equal either, so not accepted), B is A, or B is a slice / copy of A."""
    n = 0
    for mod in sorted(ix.modules.values(), key=lambda m: m.rel):
        if not any(mod.rel.startswith(p) for p in prefixes):
            continue
        for fn in ast.walk(mod.tree):
            if not isinstance(fn, ast.FunctionDef):
                continue
            copies = {}
            for st in ast.walk(fn):
                if isinstance(st, ast.Assign) and len(st.targets) == 1 and isinstance(st.targets[0], ast.Name):
                    v = st.value
                    if isinstance(v, ast.Name):
                        copies[st.targets[0].id] = v.id
                    elif isinstance(v, ast.Call) and isinstance(v.func, ast.Name) and v.func.id == 'list' and len(v.args) == 1 and isinstance(v.args[0], ast.Name):
                        copies[st.targets[0].id] = v.args[0].id

            def root(nm):
                seen = set()
                while nm in copies and nm not in seen:
                    seen.add(nm)
                    nm = copies[nm]
                return nm
            # lists returned together by one call that fills them in lockstep (every block that appends to one appends to the other) are equally long
            same_len = set()
            for st in ast.walk(fn):
                if isinstance(st, ast.Assign) and len(st.targets) == 1 and isinstance(st.targets[0], ast.Tuple) and isinstance(st.value, ast.Call) \
                        and all(isinstance(e, ast.Name) for e in st.targets[0].elts):
                    callee = _resolve_callee(ix, mod, fn, st.value)
                    if callee is None:
                        continue
                    names = [e.id for e in st.targets[0].elts]
                    for a_ in range(len(names)):
                        for b_ in range(a_ + 1, len(names)):
                            if _lockstep(callee, a_, b_):
                                same_len.add(frozenset((names[a_], names[b_])))
            for st in ast.walk(fn):
                if isinstance(st, ast.Assign) and len(st.targets) == 1 and isinstance(st.targets[0], ast.Name) and isinstance(st.value, ast.ListComp) \
                        and len(st.value.generators) == 1 and not st.value.generators[0].ifs and isinstance(st.value.generators[0].iter, ast.Name):
                    same_len.add(frozenset((st.targets[0].id, st.value.generators[0].iter.id)))
            for lp in ast.walk(fn):
                if not isinstance(lp, ast.For):
                    continue
                A = idx = None
                it = lp.iter
                if isinstance(it, ast.Call) and isinstance(it.func, ast.Name) and it.func.id == 'range' and len(it.args) == 1 and isinstance(it.args[0], ast.Call) \
                        and isinstance(it.args[0].func, ast.Name) and it.args[0].func.id == 'len' and isinstance(it.args[0].args[0], ast.Name) and isinstance(lp.target, ast.Name):
                    A, idx = it.args[0].args[0].id, lp.target.id
                elif isinstance(it, ast.Call) and isinstance(it.func, ast.Name) and it.func.id == 'enumerate' and len(it.args) == 1 and isinstance(it.args[0], ast.Name) \
                        and isinstance(lp.target, ast.Tuple) and len(lp.target.elts) == 2 and isinstance(lp.target.elts[0], ast.Name):
                    A, idx = it.args[0].id, lp.target.elts[0].id
                if A is None:
                    continue
                others = []
                for x in ast.walk(lp):
                    if isinstance(x, ast.Subscript) and isinstance(x.value, ast.Name) and isinstance(x.slice, ast.Name) and x.slice.id == idx and root(x.value.id) != root(A) \
                            and frozenset((root(x.value.id), root(A))) not in same_len and frozenset((x.value.id, A)) not in same_len:
                        others.append(x)
                n += 1
                sym = fn.name
                slot = '%s:parallel-index:%s@%d' % (label, A, len([1 for q in ast.walk(fn) if isinstance(q, ast.For) and q.lineno < lp.lineno]))
                if others:
                    rep.fail(rule, mod.rel, sym, slot, 'the loop runs over the positions of `%s` and indexes `%s` with the same counter: the two sample lists are compressed independently '
                             '(equal consecutive values are merged), so they differ in length -- IndexError, or samples of different instants paired' % (A, others[0].value.id), others[0].lineno)
                else:
                    rep.ok(rule, mod.rel, sym, slot, 'only the list the loop runs over is indexed by the loop counter', lp.lineno)
    return n


LAZY = ('map', 'zip', 'filter', 'reversed', 'iter', 'enumerate', 'itertools.accumulate', 'itertools.chain', 'itertools.islice', 'accumulate', 'chain', 'islice')


def check_handlers_return_lists(ix, rep, mon, rule='R-SHAPE'):
    """what a handler of an offline visitor returns is consumed by every other handler as a *list*: len(), slices, index, reversed(), a second
    pass.  A generator expression or a lazy iterator (map, zip, filter, reversed, accumulate) works as long as the parent only iterates once
    -- `out = a xor b` -- and raises TypeError under any operator that needs a sequence."""
    from sa import dispatch as D
    d = D.dispatch_of(ix, mon.cls)
    n = 0
    seen = set()
    for nc in D.node_classes(ix):
        meth, _ = d.method_for(nc, ix)
        if not meth:
            continue
        cat, info, f = D.classify(ix, mon.cls, meth)
        if cat != 'compute' or id(f) in seen:
            continue
        seen.add(id(f))
        n += 1
        rep.analysed(f)
        defs = {}
        for st in ast.walk(f.node):
            if isinstance(st, ast.Assign) and len(st.targets) == 1 and isinstance(st.targets[0], ast.Name):
                defs.setdefault(st.targets[0].id, []).append(st.value)

        def lazy(e, depth=0):
            if isinstance(e, ast.GeneratorExp):
                return 'a generator expression'
            if isinstance(e, ast.Call):
                fn = ast.unparse(e.func)
                if fn in LAZY:
                    return 'the lazy iterator %s(...)' % fn
            if isinstance(e, ast.Name) and depth < 3:
                for v in defs.get(e.id, []):
                    r = lazy(v, depth + 1)
                    if r:
                        return r
            return None
        bad = None
        for r in ast.walk(f.node):
            if isinstance(r, ast.Return) and r.value is not None:
                vals = r.value.elts if isinstance(r.value, ast.Tuple) else [r.value]
                for v in vals:
                    w = lazy(v)
                    if w:
                        bad = (r, w)
        slot = '%s:returns-list:%s' % (mon.kind, f.node.name)
        if bad:
            rep.fail(rule, f.module.rel, f.qual, slot, 'the handler returns %s: a parent that takes len(), a slice, an index or reversed() of its operand (always, eventually, until, '
                     'since, every bounded operator, next, rise, fall, a comparison) raises TypeError' % bad[1], bad[0].lineno)
        else:
            rep.ok(rule, f.module.rel, f.qual, slot, 'returns a list', f.node.lineno)
    return n
