"""R-EMPTYIDX -- dense-time online operations receive sample lists that may be empty (a variable without new samples, an operand whose
output is delayed): a constant index into such a list, or into a buffer attribute, must be protected by a non-emptiness test."""
import ast


def _mentions(e, name, skip=None):
    for n in ast.walk(e):
        if n is skip:
            continue
        if isinstance(n, ast.Name) and n.id == name:
            # not the occurrence inside the subscript we are judging
            return True
        if isinstance(n, ast.Attribute) and ast.unparse(n) == name:
            return True
    return False


def _without(e, node):
    """does e mention something besides node's own subtree"""
    inner = {id(x) for x in ast.walk(node)}
    return [n for n in ast.walk(e) if id(n) not in inner]


def check_class(rep, cls, label, rule='R-EMPTYIDX'):
    n = 0
    for mname, f in sorted(cls.methods.items()):
        if mname in ('__init__', 'reset', 'update_final', 'sat_final'):
            continue
        params = [a.arg for a in f.node.args.args if a.arg != 'self']
        parents = {}
        for p in ast.walk(f.node):
            for c in ast.iter_child_nodes(p):
                parents[id(c)] = p
        bad = None
        for s in ast.walk(f.node):
            if not (isinstance(s, ast.Subscript) and isinstance(s.ctx, ast.Load)):
                continue
            idx = s.slice
            const = (isinstance(idx, ast.Constant) and isinstance(idx.value, int)) or \
                (isinstance(idx, ast.UnaryOp) and isinstance(idx.op, ast.USub) and isinstance(idx.operand, ast.Constant))
            if not const:
                continue
            base = s.value
            if isinstance(base, ast.Name) and base.id in params:
                name = base.id
            elif isinstance(base, ast.Attribute) and isinstance(base.value, ast.Name) and base.value.id == 'self' and 'buf' in base.attr:
                name = ast.unparse(base)
            else:
                continue
            n += 1
            ok = False
            child = s
            q = parents.get(id(s))
            while q is not None and q is not f.node:
                if isinstance(q, ast.BoolOp) and isinstance(q.op, ast.And):
                    i = next(k for k, v in enumerate(q.values) if any(x is child for x in ast.walk(v)))
                    if any(_mentions_name(v, name) for v in q.values[:i]):
                        ok = True
                        break
                if isinstance(q, (ast.If, ast.While)) and not any(x is child for x in ast.walk(q.test)):
                    if _mentions_name(q.test, name):
                        ok = True
                        break
                if isinstance(q, ast.For) and not any(x is child for x in ast.walk(q.iter)) and _mentions_name(q.iter, name):
                    ok = True
                    break
                child = q
                q = parents.get(id(q))
            if not ok and bad is None:
                bad = (s, name)
        if bad:
            rep.fail(rule, f.module.rel, f.qual, '%s:%s' % (label, bad[1]), '`%s` indexes `%s` without a preceding non-emptiness test: an update in which that operand has no new samples '
                     '(legal: delayed operand, variable without news) raises IndexError' % (ast.unparse(bad[0]), bad[1]), bad[0].lineno)
        elif n:
            rep.ok(rule, f.module.rel, f.qual, '%s:%s' % (label, mname), 'every constant index into a chunk or buffer is guarded by a non-emptiness test', f.node.lineno)
    return n


def _mentions_name(e, name):
    for n in ast.walk(e):
        if isinstance(n, ast.Name) and n.id == name:
            return True
        if isinstance(n, ast.Attribute) and ast.unparse(n) == name:
            return True
    return False
