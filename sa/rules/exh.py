"""R-EXH (handler exhaustiveness against an oracle matrix), R-LAYER (operator classes of the right
time interpretation), leaf coverage of the online update visitor."""
import ast

from sa.index import AnalysisError, ClassInfo, External
from sa import dispatch as D
from sa import model as M


def _construct_sites(f):
    """``self.online_operator_dict[node.name] = C(...)`` assignments in handler f."""
    out = []
    for st in ast.walk(f.node):
        if isinstance(st, ast.Assign) and len(st.targets) == 1 and isinstance(st.targets[0], ast.Subscript):
            t = st.targets[0]
            if (isinstance(t.value, ast.Attribute) and t.value.attr == 'online_operator_dict'
                    and isinstance(t.value.value, ast.Name) and t.value.value.id == 'self'):
                out.append(st)
    return out


def _visits_children(f):
    for sub in ast.walk(f.node):
        if isinstance(sub, ast.Call) and isinstance(sub.func, ast.Attribute) and sub.func.attr in ('visitChildren',):
            return True
    # or visits every child explicitly
    n = 0
    for sub in ast.walk(f.node):
        if isinstance(sub, ast.Call) and isinstance(sub.func, ast.Attribute) and sub.func.attr == 'visit':
            n += 1
    return n > 0


def exh_monitor(ix, rep, mon, matrix=None, rule='R-EXH'):
    """Every node class reaches a handler of the category the matrix demands."""
    matrix = matrix or M.reject_matrix()
    must_reject = matrix[mon.kind]
    either = M.EITHER[mon.kind]
    nodes = D.node_classes(ix)
    d = D.dispatch_of(ix, mon.cls)
    for f in d.chain:
        rep.analysed(f)
        rep.unit(f.module.rel)
    if d.default != 'raise':
        rep.fail(rule, d.chain[-1].module.rel, d.chain[-1].qual, 'default-arm',
                 'dispatch chain has no raising default arm: an unknown node class would yield None',
                 d.chain[-1].node.lineno)
    for (nc, meth, pc, pmeth) in D.shadowing(ix, d):
        rep.fail(rule, nc.module.rel, mon.label, 'shadow:%s' % nc.name,
                 'dispatch arm for %s is unreachable: the earlier test isinstance(node, %s) captures it (-> %s)'
                 % (nc.name, pc.name, pmeth))
    cells = 0
    for nc in nodes:
        meth, via = d.method_for(nc, ix)
        if meth is None:
            rep.fail(rule, d.chain[-1].module.rel, mon.label, nc.name,
                     'node class %s has no arm in the dispatch chain (falls to the default arm)' % nc.name)
            continue
        cat, info, f = D.classify(ix, mon.cls, meth)
        cells += 1
        where = f.module.rel if f else mon.visitor.module.rel
        line = f.node.lineno if f else None
        sym = '%s.%s' % (mon.visitor.name if f is None or f.owner is None else f.owner.name, meth)
        slot = '%s:%s' % (mon.label, nc.name)
        okslot = slot
        slot = '%s:%s' % (mon.kind, nc.name)  # failures: one per monitor kind, the handler is shared by the semantics variants
        if f is not None:
            rep.analysed(f)
            rep.unit(f.module.rel)
        want_reject = nc.name in must_reject
        if cat == 'reject':
            if not D.is_rtamt_exception(ix, info):
                rep.fail(rule, where, sym, slot, 'unsupported operator rejected with %s, not RTAMTException'
                         % (getattr(info, 'name', None) or getattr(info, 'dotted', info)), line)
            elif want_reject or nc.name in either:
                rep.ok(rule, where, sym, okslot, 'reject(RTAMTException) as the property demands', line)
            else:
                rep.fail(rule, where, sym, slot, 'operator %s is in the supported language of the %s monitor '
                         'but its handler unconditionally raises' % (nc.name, mon.kind), line)
            continue
        if cat == 'missing':
            rep.fail(rule, where, sym, slot, 'no method %s on the MRO of %s: AttributeError at first use'
                     % (meth, mon.cls.name), line)
            continue
        if cat in ('fallthrough', 'noop'):
            if mon.mode == 'online' and nc.name == 'Constant':
                # confirmed idiom: constants need no operator object; judged on the update visitor below
                rep.ok(rule, where, sym, okslot, 'Constant needs no operator (update visitor evaluates it)', line)
                continue
            what = ('silently returns the value of its last operand' if mon.mode == 'offline'
                    else 'constructs no operator object: KeyError at the first update')
            if want_reject:
                rep.fail(rule, where, sym, slot, 'unsupported operator %s is not rejected: handler %s.%s is the '
                         'visitChildren default and %s' % (nc.name, info, meth, what), line)
            else:
                rep.fail(rule, where, sym, slot, 'operator %s has no handler: %s.%s is the visitChildren default and %s'
                         % (nc.name, info, meth, what), line)
            continue
        # compute
        if want_reject:
            rep.fail(rule, where, sym, slot, 'operator %s is listed as unsupported by the %s monitor but its handler '
                     'yields a value instead of raising RTAMTException' % (nc.name, mon.kind), line)
            continue
        if mon.mode == 'online':
            sites = _construct_sites(f)
            if not sites:
                rep.fail(rule, where, sym, slot, 'handler stores no operator in online_operator_dict[node.name]', line)
                continue
            leaf = ix.find_class('rtamt.syntax.node.leaf_node', 'LeafNode')
            if not _visits_children(f) and not (leaf is not None and ix.is_subclass(nc, leaf)):
                rep.fail(rule, where, sym, slot, 'handler does not construct the operators of its children', line)
                continue
            bad = False
            for st in sites:
                key = st.targets[0].slice
                if not (isinstance(key, ast.Attribute) and key.attr == 'name' and isinstance(key.value, ast.Name)
                        and key.value.id == f.node.args.args[1].arg):
                    rep.fail(rule, where, sym, slot, 'operator stored under a key other than node.name (%s): the '
                             'update visitor looks it up by node.name' % ast.unparse(key), st.lineno)
                    bad = True
                if isinstance(st.value, ast.Call):
                    ent = ix.resolve_expr(f.module, st.value.func, f.owner.env)
                    if not isinstance(ent, ClassInfo):
                        rep.fail('R-LAYER', where, sym, slot, 'operator class %s cannot be resolved'
                                 % ast.unparse(st.value.func), st.lineno)
                        bad = True
                    else:
                        want = '.%s_time.' % mon.time
                        opname = meth[len('visit'):]
                        expect = (opname[len('Timed'):] + 'TimedOperation') if opname.startswith('Timed') else opname + 'Operation'
                        if ent.name != expect:
                            rep.fail('R-LAYER', where, sym, slot, 'handler %s builds a %s; the operation of this operator is %s' % (meth, ent.name, expect), st.lineno)
                            bad = True
                        if want not in ent.module.name:
                            rep.fail('R-LAYER', where, sym, slot,
                                     'the %s-time online visitor constructs %s from %s: an operation of the other '
                                     'time interpretation (its update() takes a scalar/list of the wrong shape)'
                                     % (mon.time, ent.name, ent.module.name), st.lineno)
                            bad = True
                        else:
                            rep.ok('R-LAYER', where, sym, okslot, '%s from %s' % (ent.name, ent.module.name), st.lineno)
                            # the operation must offer update and reset
                            for need in ('update', 'reset'):
                                if ix.resolve_method(ent, need) is None:
                                    rep.fail(rule, ent.module.rel, ent.name, need, 'operation class lacks %s()' % need,
                                             ent.node.lineno)
                                    bad = True
                            # arity of update agrees with node kind
                            up = ix.resolve_method(ent, 'update')
                            if up is not None:
                                nargs = len(up.node.args.args) - 1
                                kind = 2 if ix.is_subclass(nc, ix.find_class('rtamt.syntax.node.binary_node', 'BinaryNode')) else \
                                    1 if ix.is_subclass(nc, ix.find_class('rtamt.syntax.node.unary_node', 'UnaryNode')) else 0
                                if nargs != kind:
                                    rep.fail(rule, ent.module.rel, ent.name, 'update-arity:%s' % nc.name,
                                             '%s.update takes %d operands but %s has %d children' % (ent.name, nargs, nc.name, kind),
                                             up.node.lineno)
                                    bad = True
                else:
                    rep.fail(rule, where, sym, slot, 'operator_dict entry is not a constructor call', st.lineno)
                    bad = True
            if not bad:
                rep.ok(rule, where, sym, okslot, 'constructs an operator under node.name', line)
        else:
            rep.ok(rule, where, sym, okslot, 'compute', line)
    return cells


def update_visitor_leaves(ix, rep, mon, rule='R-EXH'):
    """visitLeaf of the update visitor covers exactly the leaf node classes and each arm resolves."""
    leaf = ix.find_class('rtamt.syntax.node.leaf_node', 'LeafNode')
    leaves = [c for c in D.node_classes(ix) if ix.is_subclass(c, leaf)]
    init = ix.resolve_method(mon.cls, '__init__')
    uv = None
    # self.updateVisitor = X() in some __init__ on the MRO
    for c in ix.mro(mon.cls):
        if isinstance(c, ClassInfo) and '__init__' in c.methods:
            for st in ast.walk(c.methods['__init__'].node):
                if (isinstance(st, ast.Assign) and isinstance(st.targets[0], ast.Attribute)
                        and st.targets[0].attr == 'updateVisitor' and isinstance(st.value, ast.Call)):
                    uv = ix.resolve_expr(c.module, st.value.func)
            if uv is not None:
                break
    if not isinstance(uv, ClassInfo):
        raise AnalysisError('cannot find the update visitor of %s' % mon.cls.name)
    f = ix.resolve_method(uv, 'visitLeaf')
    if f is None:
        raise AnalysisError('%s has no visitLeaf' % uv.name)
    rep.analysed(f)
    rep.unit(f.module.rel)
    arms = {}
    for st in ast.walk(f.node):
        if isinstance(st, ast.If):
            t = D._isinstance_test(st.test)
            if t is not None:
                ent = ix.resolve_expr(f.module, t)
                meth = None
                for sub in ast.walk(ast.Module(body=st.body, type_ignores=[])):
                    m = D._self_call(sub)
                    if m:
                        meth = m
                        break
                if isinstance(ent, ClassInfo):
                    arms[ent.name] = meth
    for lc in leaves:
        slot = '%s:%s' % (mon.label, lc.name)
        if lc.name not in arms:
            rep.fail(rule, f.module.rel, '%s.visitLeaf' % f.owner.name, slot,
                     'leaf class %s has no arm in the update visitor: UnboundLocalError at update' % lc.name, f.node.lineno)
            continue
        cat, info, g = D.classify(ix, uv, arms[lc.name])
        if cat != 'compute':
            rep.fail(rule, f.module.rel, '%s.%s' % (uv.name, arms[lc.name]), slot,
                     'update visitor handler for leaf %s is %s' % (lc.name, cat), f.node.lineno)
        else:
            rep.analysed(g)
            rep.ok(rule, g.module.rel, '%s.%s' % (g.owner.name, g.name), slot, 'leaf evaluated by the update visitor', g.node.lineno)
    return uv


def constructed_operations(ix, mon):
    """{node class name: operation ClassInfo} built by the online construction visitor of mon."""
    out = {}
    d = D.dispatch_of(ix, mon.cls)
    for nc in D.node_classes(ix):
        meth, _ = d.method_for(nc, ix)
        if not meth:
            continue
        cat, info, f = D.classify(ix, mon.cls, meth)
        if cat != 'compute':
            continue
        for st in _construct_sites(f):
            if isinstance(st.value, ast.Call):
                ent = ix.resolve_expr(f.module, st.value.func, f.owner.env)
                if isinstance(ent, ClassInfo):
                    out[nc.name] = ent
    return out


def check_store_sites(ix, rep, mon, rule='R-EXH'):
    """the operator an online monitor steps for a node is the operation its own `visit<NodeClass>` handler constructed: every store into
    `self.online_operator_dict[...]` anywhere on the MRO of the interpreter class sits in the handler some node class dispatches to, is keyed by
    that node's name and stores the constructed operation itself.  A store elsewhere (a `visit()` wrapper, a helper) replaces or wraps what the
    handlers built -- the sibling rules that compare operations with the offline handlers never see the wrapper."""
    d = D.dispatch_of(ix, mon.cls)
    handlers = set()
    for nc in D.node_classes(ix):
        meth, _ = d.method_for(nc, ix)
        if meth:
            f = ix.resolve_method(mon.cls, meth)
            if f is not None:
                handlers.add(id(f))
    n = 0
    for k in ix.mro(mon.cls):
        if not isinstance(k, ClassInfo):
            continue
        for mname, f in sorted(k.methods.items()):
            if ix.resolve_method(mon.cls, mname) is not f:
                continue
            for st in _construct_sites(f):
                n += 1
                slot = '%s:store:%s' % (mon.kind, mname)
                key = ast.unparse(st.targets[0].slice)
                nodep = f.node.args.args[1].arg if len(f.node.args.args) > 1 else None
                if id(f) not in handlers:
                    rep.fail(rule, f.module.rel, f.qual, slot, '`%s` outside the node handlers: the operator table is written by %s(), which no node class dispatches to -- what it stores '
                             'replaces or wraps the operation the handler constructed (a wrapper that answers from a kept value, say, is stepped instead of the operation the '
                             'online/offline comparison looked at)' % (ast.unparse(st)[:70], mname), st.lineno)
                elif key != '%s.name' % nodep:
                    rep.fail(rule, f.module.rel, f.qual, slot, 'the handler stores its operator under `%s`, not under %s.name' % (key, nodep), st.lineno)
                else:
                    rep.ok(rule, f.module.rel, f.qual, slot, 'stores the constructed operation under node.name', st.lineno)
    return n
