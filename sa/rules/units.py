"""R-DIM, R-UNITDOM, R-GUARD-DOM on the two ``time_unit_transformer`` functions, R-FWD, unit-table equality.

The transformer is analysed path by path over the finite input domain of unit strings the parser can attach
(absent = '' / present) -- a constant propagation over a finite string domain -- and the returned bounds are
compared, as exact rational functions over symbols, with the required conversion.
"""
import ast

from sa.index import AnalysisError, ClassInfo
from sa import alg, flow
from sa import effects as E

EMPTY = ''


class UnitVal(object):
    """abstract unit string: EMPTY, or a non-empty symbolic unit ('B' = begin unit, 'E' = end unit, 'D' = default unit)"""
    pass


def parser_unit_strings(ix, rep, rule='R-UNITDOM'):
    """The unit strings the parser can attach to a bound: literal strings assigned to the unit result in the
    interval-literal methods, plus ctx.unit().getText() (the four suffixes of grammar rule `unit`)."""
    stl = ix.find_class('rtamt.syntax.ast.parser.stl.parser_visitor', 'StlAstParserVisitor')
    out = {}
    for meth in ('visitIntervalTimeLiteral', 'visitConstantTimeLiteral'):
        f = stl.methods.get(meth)
        if f is None:
            raise AnalysisError('%s vanished' % meth)
        rep.analysed(f)
        rep.unit(f.module.rel)
        lits = set()
        dyn = [False]

        def values(e, depth=0):
            # the strings the expression can denote: literals, both arms of a conditional expression, every binding of a local
            if isinstance(e, ast.Constant) and isinstance(e.value, str):
                lits.add(e.value)
            elif isinstance(e, ast.IfExp):
                values(e.body, depth)
                values(e.orelse, depth)
            elif isinstance(e, ast.BoolOp) and isinstance(e.op, ast.Or):
                for v in e.values:
                    values(v, depth)
            elif isinstance(e, ast.Name) and depth < 4:
                ds = [st.value for st in ast.walk(f.node) if isinstance(st, ast.Assign) and any(isinstance(t, ast.Name) and t.id == e.id for t in st.targets)]
                if not ds:
                    dyn[0] = True
                for d in ds:
                    values(d, depth + 1)
            else:
                dyn[0] = True
        rets = [r for r in ast.walk(f.node) if isinstance(r, ast.Return) and isinstance(r.value, ast.Tuple) and len(r.value.elts) == 2]
        if rets:
            for r in rets:
                values(r.value.elts[1])
        else:
            for st in ast.walk(f.node):
                if isinstance(st, ast.Assign) and isinstance(st.targets[0], ast.Name) and st.targets[0].id == 'unit':
                    values(st.value)
        out[meth] = (lits, dyn[0], f)
    return out


def _is_U(e):
    """``self.ast.U[...]`` / ``self.U[...]`` -> key expr"""
    if isinstance(e, ast.Subscript) and isinstance(e.value, ast.Attribute) and e.value.attr == 'U':
        return e.slice
    return None


class NeedDecision(Exception):
    pass


class TransformerRun(object):
    """One path of time_unit_transformer under an assumption on (begin_unit empty?, end_unit empty?)."""

    def __init__(self, f, b_empty, e_empty, ix=None, nodep=None, decisions=None):
        self.f = f
        self.ix = ix
        self.decisions = decisions if decisions is not None else {}
        self.equal_units = []
        pnames = [a.arg for a in f.node.args.args]
        self.nodep = nodep or ('node' if 'node' in pnames else 'element' if 'element' in pnames else pnames[1])
        self.ret_scalar = None
        self.units = {}  # local name -> 'EMPTY' | 'B' | 'E' | 'D' | 'P' (period unit)
        self.nums = {}  # local name -> RatFun
        self.b_empty = b_empty
        self.e_empty = e_empty
        self.problems = []
        self.guards = {}  # name -> lineno of divisibility guard
        self.int_lines = {}  # name -> lineno where int() applied
        self.ret = None
        self.raised = False
        self.tests = {}  # local name -> the condition it is bound to (`has_unit = len(begin_unit) > 0`)

    # unit-valued expressions ---------------------------------------------------------------------------
    def unit_of(self, e):
        if isinstance(e, ast.Name) and e.id in self.units:
            return self.units[e.id]
        s = ast.unparse(e)
        if s == '%s.begin_unit' % self.nodep:
            return 'EMPTY' if self.b_empty else 'B'
        if s == '%s.end_unit' % self.nodep:
            return 'EMPTY' if self.e_empty else 'E'
        if s in ('self.ast.unit', 'self.unit', 'ast.unit', 'self.spec.unit', 'spec.unit'):
            return 'D'
        if s in ('self.sampling_period_unit', 'self.ast.sampling_period_unit', 'ast.sampling_period_unit', 'self.spec.sampling_period_unit', 'spec.sampling_period_unit'):
            return 'P'
        if isinstance(e, ast.Constant) and isinstance(e.value, str):
            return 'EMPTY' if e.value == '' else 'LIT:' + e.value
        if isinstance(e, ast.BoolOp) and isinstance(e.op, ast.Or):
            for v in e.values:
                u = self.unit_of(v)
                if u is None:
                    return None
                if u != 'EMPTY':
                    return u
            return 'EMPTY'
        if isinstance(e, ast.IfExp):
            v = self.test(e.test)
            if isinstance(v, bool):
                return self.unit_of(e.body if v else e.orelse)
            return None
        return None

    def test(self, t):
        """evaluate a condition on unit strings -> True/False, or ('div', name) for a divisibility guard, or None"""
        if isinstance(t, ast.Name) and t.id in self.tests:
            return self.test(self.tests[t.id])
        if isinstance(t, ast.UnaryOp) and isinstance(t.op, ast.Not):
            v = self.test(t.operand)
            return (not v) if isinstance(v, bool) else None
        if isinstance(t, ast.BoolOp):
            vals = [self.test(v) for v in t.values]
            if any(not isinstance(v, bool) for v in vals):
                return None
            return all(vals) if isinstance(t.op, ast.And) else any(vals)
        if isinstance(t, ast.Compare) and len(t.ops) == 1:
            l, r = t.left, t.comparators[0]
            # len(X) == 0 / len(X) > 0
            if isinstance(l, ast.Call) and isinstance(l.func, ast.Name) and l.func.id == 'len' and isinstance(r, ast.Constant) and r.value == 0:
                u = self.unit_of(l.args[0])
                if u is None:
                    return None
                emp = (u == 'EMPTY')
                if isinstance(t.ops[0], ast.Eq):
                    return emp
                if isinstance(t.ops[0], (ast.Gt, ast.NotEq)):
                    return not emp
            # X == ''
            ul, ur = self.unit_of(l), self.unit_of(r)
            if ul is not None and ur is not None and isinstance(t.ops[0], (ast.Eq, ast.NotEq)):
                eq = (ul == ur) if ('EMPTY' in (ul, ur) or ul == ur) else None
                if eq is None:
                    # two written units compared: both outcomes happen (`ms` against a default of `ms` or of `s`); each is a path of its own,
                    # and on the equal path the two unit-table entries are one number
                    key = ast.unparse(t)
                    if key not in self.decisions:
                        raise NeedDecision(key)
                    outcome = self.decisions[key]
                    eq = outcome if isinstance(t.ops[0], ast.Eq) else not outcome
                    if outcome:
                        self.equal_units.append((ul, ur))
                    return eq
                return eq if isinstance(t.ops[0], ast.Eq) else not eq
            # b.numerator % b.denominator > 0
            s = ast.unparse(t).replace(' ', '')
            for nm in self.nums:
                if s in ('%s.numerator%%%s.denominator>0' % (nm, nm), '%s.numerator%%%s.denominator!=0' % (nm, nm), '%s.denominator!=1' % nm):
                    return ('div', nm)
        u = self.unit_of(t)
        if u is not None:
            return u != 'EMPTY'
        return None

    # numeric expressions -------------------------------------------------------------------------------
    def leaf(self, e):
        s = ast.unparse(e)
        if s == '%s.begin' % self.nodep:
            return alg.RatFun.sym('b')
        if s == '%s.end' % self.nodep:
            return alg.RatFun.sym('e')
        if s in ('self.sampling_period', 'self.ast.sampling_period', 'ast.sampling_period', 'self.spec.sampling_period', 'spec.sampling_period'):
            return alg.RatFun.sym('period')
        k = _is_U(e)
        if k is not None:
            u = self.unit_of(k)
            if u is None:
                raise ValueError('unit key %s' % ast.unparse(k))
            if u == 'EMPTY':
                self.problems.append((e.lineno, "looks up the unit table with the empty unit string (KeyError '')"))
                return alg.RatFun.sym('U[?]')
            if u.startswith('LIT:') and u[4:] not in ('s', 'ms', 'us', 'ns'):
                self.problems.append((e.lineno, "looks up the unit table with %r, which is not a key (KeyError)" % u[4:]))
                return alg.RatFun.sym('U[?]')
            return alg.RatFun.sym('U[%s]' % u)
        if isinstance(e, ast.Call) and isinstance(e.func, ast.Attribute) and e.func.attr == 'get_sampling_period':
            return alg.RatFun.sym('period') * alg.RatFun.sym('U[P]')
        if isinstance(e, ast.Name) and e.id in self.nums:
            return self.nums[e.id]
        if isinstance(e, ast.Attribute) and e.attr == 'numerator' and isinstance(e.value, ast.Name) and e.value.id in self.nums:
            # the numerator of a Fraction that passed the divisibility guard is the whole number int() would give
            nm = e.value.id
            self.int_lines[nm] = e.lineno
            if nm not in self.guards:
                self.problems.append((e.lineno, 'int(%s) is applied without a dominating divisibility guard: the bound is rounded instead of rejected' % nm))
            return self.nums[nm]
        return None

    def num_of(self, e):
        ev = alg.AlgEval(self.nums, self.leaf)
        r = ev.ev(e)
        return r, ev.int_applied

    def call(self, c):
        """a call of a module-level helper of the package, interpreted with the same assumption on the units; the helper's node parameter
        is the one that receives this function's node"""
        from sa.index import FuncInfo
        if self.ix is None or not isinstance(c.func, (ast.Name, ast.Attribute)) or c.keywords:
            return None
        tgt = self.ix.resolve_expr(self.f.module, c.func)
        if isinstance(c.func, ast.Attribute) and isinstance(c.func.value, ast.Name) and c.func.value.id == 'self' and self.f.owner is not None:
            tgt = self.ix.resolve_method(self.f.owner, c.func.attr)
        if not isinstance(tgt, FuncInfo):
            return None
        ps = [a.arg for a in tgt.node.args.args]
        if ps and ps[0] == 'self':
            ps = ps[1:]
        nodep = None
        for p, a in zip(ps, c.args):
            if isinstance(a, ast.Name) and a.id == self.nodep:
                nodep = p
        sub = TransformerRun(tgt, self.b_empty, self.e_empty, ix=self.ix, nodep=nodep or '#none', decisions=self.decisions)
        sub.run()
        self.equal_units += sub.equal_units
        self.problems += sub.problems
        return sub

    # statements ----------------------------------------------------------------------------------------
    def run(self):
        from sa import norm as _norm
        self._fn = _norm.split_tuple_locals(self.f.node)             # pairs held in a local, chained assignments: the statements they abbreviate
        self.block(self._fn.body)
        return self

    def block(self, stmts):
        for st in stmts:
            if self.ret is not None or self.raised:
                return
            self.stmt(st)

    def stmt(self, st):
        if isinstance(st, ast.Expr) and isinstance(st.value, ast.Constant):
            return
        # memo idiom (`if k in self.C: return self.C[k]` ... `self.C[k] = v`): the computation is interpreted as on a miss; whether the memo
        # may answer at all is R-CACHE's question (sa/rules/memo.py)
        from sa.rules import memo as _memo
        mm = _memo.memo_of(getattr(self, '_fn', None) or self.f.node)      # on the statements that are being interpreted (identity of nodes)
        if mm is not None and mm[4] == 'miss-fill':
            if st is mm[2]:
                self.block(st.body)          # the computation, as on a miss
                return
            if any(st is x for x in mm[3]):
                v = st.value
                if isinstance(v, ast.Tuple) and len(v.elts) == 2:
                    try:
                        self._memo_pair = (self.num_of(v.elts[0])[0], self.num_of(v.elts[1])[0])
                    except ValueError as ex:
                        raise AnalysisError('%s: cannot interpret the memoised pair (%s)' % (self.f.where, ex))
                    return
                if isinstance(v, ast.Call):
                    # the pair is computed by a helper: interpreted with the same assumptions
                    sub = self.call(v)
                    if sub is not None and sub.ret is not None:
                        self._memo_pair = sub.ret
                        self.raised = self.raised or sub.raised
                        # what the helper checked and converted is checked and converted for the memoised pair
                        self.guards.update(sub.guards)
                        self.int_lines.update(sub.int_lines)
                        return
                raise AnalysisError('%s: the memo stores `%s`, not a (begin, end) pair' % (self.f.where, ast.unparse(v)[:40]))
            if st is mm[5]:
                self.ret = getattr(self, '_memo_pair', None)
                if self.ret is None:
                    raise AnalysisError('%s: memo read before it is filled' % self.f.where)
                return
        elif mm is not None and (st is mm[2] or any(st is x for x in mm[3])):
            return
        if mm is not None and isinstance(st, ast.Assign) and len(st.targets) == 1 and isinstance(st.targets[0], ast.Name) and st.targets[0].id == mm[1]:
            return      # the key of the memo
        if isinstance(st, ast.Assign) and len(st.targets) == 1:
            t = st.targets[0]
            if isinstance(t, ast.Name) and isinstance(st.value, ast.Name) and st.value.id in self.nums and st.value.id not in self.units:
                # a copy of a number: what is known about it (the divisibility guard it passed) is known about the copy
                self.nums[t.id] = self.nums[st.value.id]
                if st.value.id in self.guards:
                    self.guards[t.id] = self.guards[st.value.id]
                return
            if isinstance(t, ast.Name):
                if self.unit_of(st.value) is None and (isinstance(st.value, (ast.Compare, ast.BoolOp)) or (isinstance(st.value, ast.UnaryOp) and isinstance(st.value.op, ast.Not))):
                    if self.test(st.value) is not None or isinstance(st.value, ast.Compare):
                        # a named condition: evaluated where it is tested
                        self.tests[t.id] = st.value
                        return
                u = self.unit_of(st.value)
                if u is not None and not isinstance(st.value, ast.Name) or (isinstance(st.value, ast.Name) and st.value.id in self.units):
                    self.units[t.id] = u
                    return
                if isinstance(st.value, ast.Call):
                    sub = self.call(st.value)
                    if sub is not None and sub.ret_scalar is not None:
                        self.nums[t.id] = sub.ret_scalar
                        return
                try:
                    r, ints = self.num_of(st.value)
                except ValueError as ex:
                    raise AnalysisError('%s: cannot interpret `%s` (%s)' % (self.f.where, ast.unparse(st)[:60], ex))
                self.nums[t.id] = r
                if ints:
                    self.int_lines[t.id] = st.lineno
                    src = [n.id for c in ints for a in c.args for n in ast.walk(a) if isinstance(n, ast.Name)]
                    for s in src:
                        if s not in self.guards:
                            self.problems.append((st.lineno, 'int(%s) is applied without a dominating divisibility guard: the bound is rounded instead of rejected' % s))
                return
            if isinstance(t, ast.Tuple) and isinstance(st.value, ast.Tuple) and len(t.elts) == len(st.value.elts) and all(isinstance(x, ast.Name) for x in t.elts):
                try:
                    vals = [self.num_of(v_) for v_ in st.value.elts]
                except ValueError as ex:
                    raise AnalysisError('%s: cannot interpret `%s` (%s)' % (self.f.where, ast.unparse(st)[:60], ex))
                for x, (r_, ints_) in zip(t.elts, vals):
                    self.nums[x.id] = r_
                    if ints_:
                        self.int_lines[x.id] = st.lineno
                return
            if isinstance(t, ast.Tuple) and isinstance(st.value, ast.Call):
                sub = self.call(st.value)
                if sub is not None and sub.ret is not None and len(t.elts) == 2 and all(isinstance(x, ast.Name) for x in t.elts):
                    self.nums[t.elts[0].id], self.nums[t.elts[1].id] = sub.ret
                    return
                raise AnalysisError('%s: tuple assignment from a call is not interpreted' % self.f.where)
        if isinstance(st, ast.For) and isinstance(st.iter, (ast.Tuple, ast.List)) and isinstance(st.target, ast.Name) and st.iter.elts \
                and all(isinstance(x, ast.Name) and x.id in self.nums for x in st.iter.elts) and not st.orelse:
            # for bound in (b, e): <guard on bound>   ==   the guard once per name
            import copy as _copy
            for x in st.iter.elts:
                class _R(ast.NodeTransformer):
                    def visit_Name(self, n_, x=x, v=st.target.id):
                        return ast.copy_location(ast.Name(id=x.id, ctx=n_.ctx), n_) if n_.id == v else n_
                self.block([_R().visit(_copy.deepcopy(b_)) for b_ in st.body])
            return
        if isinstance(st, ast.If) and isinstance(st.test, ast.BoolOp) and isinstance(st.test.op, ast.Or) and st.body and isinstance(st.body[-1], ast.Raise) \
                and all(isinstance(self.test(v_), tuple) and self.test(v_)[0] == 'div' for v_ in st.test.values):
            # if <b not whole> or <e not whole>: raise   -- one guard for each name
            exc = st.body[-1].exc
            for v_ in st.test.values:
                self.guards[self.test(v_)[1]] = (st.lineno, ast.unparse(exc.func) if isinstance(exc, ast.Call) else ast.unparse(exc))
            self.block(st.orelse)
            return
        if isinstance(st, ast.If):
            v = self.test(st.test)
            if isinstance(v, tuple) and v[0] == 'div':
                if st.body and isinstance(st.body[-1], ast.Raise):
                    exc = st.body[-1].exc
                    self.guards[v[1]] = (st.lineno, ast.unparse(exc.func) if isinstance(exc, ast.Call) else ast.unparse(exc))
                    self.block(st.orelse)
                    return
                raise AnalysisError('%s: divisibility test that does not raise' % self.f.where)
            if v is None:
                raise AnalysisError('%s: condition `%s` is not a test on the unit strings' % (self.f.where, ast.unparse(st.test)[:60]))
            self.block(st.body if v else st.orelse)
            return
        if isinstance(st, ast.Return):
            if isinstance(st.value, ast.Tuple) and len(st.value.elts) == 2:
                try:
                    vals_ = [self.num_of(st.value.elts[0]), self.num_of(st.value.elts[1])]
                    self.ret = (vals_[0][0], vals_[1][0])
                    # `return int(b), int(e)`: the conversion to a sample count happens in the return
                    for k_, (_r, ints_) in enumerate(vals_):
                        for c_ in ints_:
                            src = [n.id for a in c_.args for n in ast.walk(a) if isinstance(n, ast.Name)]
                            self.int_lines['#ret%d' % k_] = st.lineno
                            for s_ in src:
                                if s_ not in self.guards:
                                    self.problems.append((st.lineno, 'int(%s) is applied without a dominating divisibility guard: the bound is rounded instead of rejected' % s_))
                except ValueError as ex:
                    raise AnalysisError('%s: cannot interpret return (%s)' % (self.f.where, ex))
            else:
                try:
                    self.ret_scalar = self.num_of(st.value)[0]
                    self.ret = None
                    self.raised = True     # stops the block; ret_scalar carries the value
                except ValueError:
                    raise AnalysisError('%s: transformer does not return a (begin, end) pair' % self.f.where)
            return
        if isinstance(st, ast.Raise):
            self.raised = True
            return
        if isinstance(st, ast.Try):
            # a conversion that substitutes a constant when something is missing converts with another period / unit for that caller, silently
            for h in st.handlers:
                rets = [r for b in h.body for r in ast.walk(b) if isinstance(r, ast.Return)]
                if rets and not any(isinstance(x, ast.Raise) for b in h.body for x in ast.walk(b)):
                    self.problems.append((h.lineno, 'falls back to `%s` when %s is raised: a caller for which the attribute or method is missing (another front end, an ast '
                                          'without that setting) is converted with a constant instead of its sampling period / unit, silently'
                                          % (ast.unparse(rets[0].value)[:40] if rets[0].value is not None else 'None', ast.unparse(h.type) if h.type is not None else 'anything')))
            self.block(st.body)
            return
        raise AnalysisError('%s: statement `%s` is not interpreted' % (self.f.where, ast.unparse(st)[:60]))


def expected_unit(which, b_empty, e_empty):
    """the property: per-bound unit, else the other bound's unit, else the default unit"""
    if which == 'b':
        return 'B' if not b_empty else ('E' if not e_empty else 'D')
    return 'E' if not e_empty else ('B' if not b_empty else 'D')


def check_transformer(ix, rep, cls_mod, cls_name, kind, func=None):
    if func is not None:
        f = func
    else:
        cls = ix.find_class(cls_mod, cls_name)
        f = cls.methods.get('time_unit_transformer')
        if f is None:
            raise AnalysisError('%s.time_unit_transformer vanished' % cls_name)
    rep.analysed(f)
    rep.unit(f.module.rel)
    def _runs(b_empty, e_empty):
        """one run per outcome of the comparisons between written units met on the way"""
        todo = [{}]
        out = []
        while todo:
            dec = todo.pop()
            try:
                out.append((dec, TransformerRun(f, b_empty, e_empty, ix=ix, decisions=dict(dec)).run()))
            except NeedDecision as nd:
                key = str(nd)
                if len(dec) > 6:
                    raise AnalysisError('%s: too many comparisons between units' % f.where)
                for o in (True, False):
                    d2 = dict(dec)
                    d2[key] = o
                    todo.append(d2)
        return out
    for b_empty in (False, True):
      for e_empty in (False, True):
        for dec, run in _runs(b_empty, e_empty):
            case = 'begin_unit=%s,end_unit=%s' % ('absent' if b_empty else 'present', 'absent' if e_empty else 'present')
            if dec:
                case += ',' + ','.join('%s%s' % ('' if v else 'not ', k.replace(' ', '')) for k, v in sorted(dec.items()))
            # on a path on which two unit strings compared equal their table entries are one number
            ren = {}
            for (u1, u2) in run.equal_units:
                a_, b_ = 'U[%s]' % u1, 'U[%s]' % u2
                if u1.startswith('LIT:') or u2.startswith('LIT:'):
                    continue
                ren[a_] = ren.get(b_, b_)
            if ren and run.ret is not None:
                run.ret = tuple(x.rename(ren) for x in run.ret)
            if kind == 'samples':
                # evaluate() has rejected bounds that are no whole number of periods before anything is explained
                run.problems = [(l_, m_) for (l_, m_) in run.problems if 'int(' not in m_]
            for (line, msg) in run.problems:
                rule = 'R-GUARD-DOM' if 'int(' in msg else 'R-UNITDOM'
                rep.fail(rule, f.module.rel, f.qual, '%s:%s' % (kind, case), 'with %s the transformer %s' % (case, msg), line)
            if run.ret is None:
                rep.fail('R-UNITDOM', f.module.rel, f.qual, '%s:%s' % (kind, case), 'no (begin, end) returned on this path', f.node.lineno)
                continue
            if not any('unit table' in m for _, m in run.problems):
                rep.ok('R-UNITDOM', f.module.rel, f.qual, '%s:%s' % (kind, case), 'every unit-table key is a present unit', f.node.lineno)
            for idx, which in enumerate(('b', 'e')):
                u = expected_unit(which, b_empty, e_empty)
                num = alg.RatFun.sym(which) * alg.RatFun.sym('U[%s]' % u)
                if kind in ('discrete', 'samples'):
                    want = num / (alg.RatFun.sym('period') * alg.RatFun.sym('U[P]'))
                    wtxt = '%s * U[%s unit] / (sampling_period * U[period unit])' % (which, {'B': 'begin', 'E': 'end', 'D': 'default'}[u])
                else:
                    want = num / alg.RatFun.sym('U[D]')
                    wtxt = '%s * U[%s unit] / U[default unit]' % (which, {'B': 'begin', 'E': 'end', 'D': 'default'}[u])
                got = run.ret[idx]
                if ren:
                    want = want.rename(ren)
                slot = '%s:%s:%s' % (kind, case, 'begin' if which == 'b' else 'end')
                if got.same(want):
                    rep.ok('R-DIM', f.module.rel, f.qual, slot, wtxt, f.node.lineno)
                else:
                    rep.fail('R-DIM', f.module.rel, f.qual, slot, 'converted %s bound is %r; a bound denoting a physical duration must be %s'
                             % ('lower' if which == 'b' else 'upper', got, wtxt), f.node.lineno)
            if kind == 'discrete':
                # rejected rather than rounded: both conversions to int are dominated by a raising divisibility guard of RTAMTException
                for nm in ('b', 'e'):
                    pass
                if len(run.guards) >= 2 and all(g[1].endswith('RTAMTException') for g in run.guards.values()) and len(run.int_lines) >= 2:
                    rep.ok('R-GUARD-DOM', f.module.rel, f.qual, '%s:%s' % (kind, case), 'int() of both bounds is dominated by a divisibility guard raising RTAMTException', f.node.lineno)
                elif not any('int(' in m for _, m in run.problems):
                    bad = [g for g in run.guards.values() if not g[1].endswith('RTAMTException')]
                    rep.fail('R-GUARD-DOM', f.module.rel, f.qual, '%s:%s' % (kind, case),
                             ('divisibility guard raises %s, not RTAMTException' % bad[0][1]) if bad else
                             'the bounds are not both checked for divisibility by the sampling period and converted to sample counts', f.node.lineno)
    return f


def check_unit_tables(ix, rep, rule='R-UNITTABLE'):
    """AbstractAst.U and DiscreteTimeInterpreter.U map the same keys to the same numbers"""
    def table(cls):
        f = cls.methods['__init__']
        consts = {}
        tab = None
        for st in f.node.body:
            if isinstance(st, ast.Assign) and len(st.targets) == 1:
                loc = E.self_loc(st.targets[0])
                if loc and isinstance(st.value, ast.Call) and isinstance(st.value.func, ast.Name) and st.value.func.id == 'int' and st.value.args \
                        and isinstance(st.value.args[0], ast.Constant):
                    consts[loc] = st.value.args[0].value
                if loc == 'U' and isinstance(st.value, ast.Dict):
                    tab = {}
                    for k, v in zip(st.value.keys, st.value.values):
                        vv = consts.get(E.self_loc(v)) if E.self_loc(v) else (v.value if isinstance(v, ast.Constant) else None)
                        tab[k.value] = vv
        return tab, f
    a, fa = table(ix.find_class('rtamt.syntax.ast.parser.abstract_ast_parser', 'AbstractAst'))
    d, fd = table(ix.find_class('rtamt.semantics.discrete_time_interpreter', 'DiscreteTimeInterpreter'))
    rep.analysed(fa)
    rep.analysed(fd)
    want = {'s': 10 ** 9, 'ms': 10 ** 6, 'us': 10 ** 3, 'ns': 1}
    for name, t, f in (('AbstractAst.U', a, fa), ('DiscreteTimeInterpreter.U', d, fd)):
        if t is None:
            rep.fail(rule, f.module.rel, f.qual, name, 'unit table not found', f.node.lineno)
        else:
            base = t.get('ns')
            ratios = {k: (v / base if base else None) for k, v in t.items()} if all(isinstance(v, int) for v in t.values()) else None
            if ratios == {k: v / want['ns'] for k, v in want.items()}:
                rep.ok(rule, f.module.rel, f.qual, name, 's:ms:us:ns = 1e9:1e6:1e3:1', f.node.lineno)
            else:
                rep.fail(rule, f.module.rel, f.qual, name, 'unit table is %s: the ratios of s, ms, us, ns must be 1e9 : 1e6 : 1e3 : 1' % t, f.node.lineno)
    if a is not None and d is not None:
        if a == d:
            rep.ok(rule, fa.module.rel, 'AbstractAst.U~DiscreteTimeInterpreter.U', 'equal', 'one unit table', fa.node.lineno)
        else:
            rep.fail(rule, fd.module.rel, 'AbstractAst.U~DiscreteTimeInterpreter.U', 'equal', 'the two unit tables differ: %s vs %s' % (a, d), fd.node.lineno)


def check_fwd(ix, rep, attr='unit', rule='R-FWD'):
    """the specification object forwards `attr` to the ast the semantic layer reads"""
    spec = ix.find_class('rtamt.spec.abstract_specification', 'AbstractSpecification')
    prop = spec.properties.get(attr)
    readers = 0
    for m in ix.modules.values():
        if m.name.startswith('rtamt.semantics') or m.name.startswith('rtamt.pastifier'):
            for n in ast.walk(m.tree):
                if isinstance(n, ast.Attribute) and n.attr == attr and isinstance(n.value, ast.Attribute) and n.value.attr == 'ast':
                    readers += 1
    rep.unit(spec.module.rel)
    if readers == 0:
        rep.fail(rule, spec.module.rel, 'AbstractSpecification', attr, 'no reader of ast.%s found (anchor moved)' % attr, spec.node.lineno)
        return
    if prop is None or 'set' not in prop:
        rep.fail(rule, spec.module.rel, 'AbstractSpecification', attr,
                 'the semantic layer reads ast.%s at %d sites, the API documents `spec.%s = ...`, but AbstractSpecification has no '
                 'property `%s` whose setter writes the ast: the assignment creates a dead attribute on the specification object'
                 % (attr, readers, attr, attr), spec.node.lineno)
        return
    setter = prop['set']
    rep.analysed(setter)
    vparam = setter.node.args.args[1].arg
    writes = [s for s in ast.walk(setter.node) if isinstance(s, ast.Assign) and ast.unparse(s.targets[0]) == 'self.ast.%s' % attr
              and ast.unparse(s.value) == vparam]
    if writes:
        rep.ok(rule, spec.module.rel, 'AbstractSpecification.%s' % attr, attr, 'setter forwards to ast.%s (read at %d sites)' % (attr, readers), setter.node.lineno)
    else:
        rep.fail(rule, spec.module.rel, 'AbstractSpecification.%s' % attr, attr, 'the setter does not assign self.ast.%s' % attr, setter.node.lineno)


def check_forwarding_calls(ix, rep, name_filter, rule='R-FWD'):
    """a specification method that forwards to the interpreters' method of the same name hands over every one of its own parameters,
    in order, to every interpreter it forwards to (a dropped argument silently leaves that interpreter at its default)"""
    spec = ix.find_class('rtamt.spec.abstract_specification', 'AbstractSpecification')
    n = 0
    for cls in [spec] + [c for m in ix.modules.values() if m.name.startswith('rtamt.spec.abstract') for c in m.classes.values() if c is not spec]:
        for mname, f in sorted(cls.methods.items()):
            if not name_filter(mname):
                continue
            params = [a.arg for a in f.node.args.args[1:]]
            if not params:
                continue
            _spec, _per = _interp_attrs(ix)
            _attrs = sorted(set().union(*_per.values()))
            for c in ast.walk(f.node):
                if not (isinstance(c, ast.Call) and isinstance(c.func, ast.Attribute) and c.func.attr == mname):
                    continue
                _kind = _resolve_receiver(ix, _spec, f, c.func.value, _attrs)
                if _kind is None:
                    continue
                _targets = [_kind[1]] if _kind[0] == 'one' else list(_kind[1])
                for _t in _targets:
                    class _V(object):
                        attr = _t
                    n += 1
                    rep.analysed(f)
                    rep.unit(f.module.rel)
                    got = [a.id if isinstance(a, ast.Name) else ast.unparse(a) for a in c.args] + ['%s=%s' % (k.arg, ast.unparse(k.value)) for k in c.keywords]
                    passed = [a.id for a in c.args if isinstance(a, ast.Name)] + [k.value.id for k in c.keywords if isinstance(k.value, ast.Name) and k.arg == k.value.id]
                    slot = '%s->%s' % (mname, _t)
                    pos_ok = [a.id if isinstance(a, ast.Name) else None for a in c.args] == params[:len(c.args)]
                    if pos_ok and set(passed) == set(params):
                        rep.ok(rule, f.module.rel, f.qual, slot, 'forwards (%s)' % ', '.join(params), c.lineno)
                    else:
                        missing = [p for p in params if p not in passed]
                        rep.fail(rule, f.module.rel, f.qual, slot, '%s() forwards (%s) to self.%s; its own parameters are (%s)%s' % (
                            mname, ', '.join(got), _t, ', '.join(params),
                            (': `%s` never reaches that interpreter, which keeps its default' % missing[0]) if missing else ''), c.lineno)
    return n


# ------------------------------------------------------------------------------------------------------------------------------
def _interp_attrs(ix):
    """interpreter attributes of specification objects, and whether one class holds several at once"""
    spec = ix.find_class('rtamt.spec.abstract_specification', 'AbstractSpecification')
    per_class = {}
    for c in [spec] + list(ix.subclasses_of(spec)):
        got = set()
        for k in ix.mro(c):
            init = getattr(k, 'methods', {}).get('__init__')
            if init is None:
                continue
            for st in ast.walk(init.node):
                if isinstance(st, ast.Assign):
                    for t in st.targets:
                        if isinstance(t, ast.Attribute) and isinstance(t.value, ast.Name) and t.value.id == 'self' and t.attr.endswith('_interpreter'):
                            got.add(t.attr)
        per_class[c.name] = got
    return spec, per_class


def _receiver_attr(f, call_recv, attrs):
    """which interpreter attribute(s) an expression denotes inside f: ('one', X) | ('each', [X..]) | ('first-of', [X..]) | None"""
    if isinstance(call_recv, ast.Attribute) and isinstance(call_recv.value, ast.Name) and call_recv.value.id == 'self' and call_recv.attr in attrs:
        return ('one', call_recv.attr)
    if isinstance(call_recv, ast.Call) and isinstance(call_recv.func, ast.Name) and call_recv.func.id == 'getattr' and len(call_recv.args) >= 2 \
            and isinstance(call_recv.args[0], ast.Name) and call_recv.args[0].id == 'self':
        k = call_recv.args[1]
        if isinstance(k, ast.Constant) and k.value in attrs:
            return ('one', k.value)
        if isinstance(k, ast.Name):
            # name bound by an enclosing loop over a literal tuple/list of attribute names
            for lp in ast.walk(f.node):
                if isinstance(lp, ast.For) and isinstance(lp.target, ast.Name) and lp.target.id == k.id and isinstance(lp.iter, (ast.Tuple, ast.List)) \
                        and all(isinstance(e, ast.Constant) and e.value in attrs for e in lp.iter.elts) and any(x is call_recv for x in ast.walk(lp)):
                    leaves_early = any(isinstance(x, (ast.Break, ast.Return)) for b in lp.body for x in ast.walk(b))
                    return ('first-of' if leaves_early else 'each', [e.value for e in lp.iter.elts])
        return None
    return None


def _reaching_binding(fnode, node, name):
    """the assignment `name = ...` that reaches `node`: the nearest one before it in its own block or in an enclosing block (straight-line reading; a name bound
    in both arms of an enclosing `if` does not occur in the forms this is used for)"""
    where = {}

    def index(stmts, parent):
        for i, st in enumerate(stmts):
            where[id(st)] = (stmts, i, parent)
            for fld in ('body', 'orelse', 'finalbody'):
                b = getattr(st, fld, None)
                if isinstance(b, list) and b and isinstance(b[0], ast.stmt):
                    index(b, st)
    index(fnode.body, None)
    cur = None
    for st_id, (stmts, i, parent) in list(where.items()):
        st = stmts[i]
        if any(x is node for x in ast.walk(st)) and not any(any(x is node for x in ast.walk(c)) for fld in ('body', 'orelse', 'finalbody') for c in (getattr(st, fld, None) or [])
                                                              if isinstance(c, ast.stmt)):
            cur = st
    while cur is not None:
        stmts, i, parent = where[id(cur)]
        for k in range(i - 1, -1, -1):
            q = stmts[k]
            if isinstance(q, ast.Assign) and any(isinstance(t, ast.Name) and t.id == name for t in q.targets):
                return q
        cur = parent
    return None


def _resolve_receiver(ix, spec, f, recv, attrs, depth=0):
    kind = _receiver_attr(f, recv, attrs)
    if kind is None and isinstance(recv, ast.Name) and depth < 4:
        # a local bound more than once (one binding per interpreter, in consecutive blocks): the binding that reaches this use
        allb = [a for a in ast.walk(f.node) if isinstance(a, ast.Assign) and any(isinstance(t, ast.Name) and t.id == recv.id for t in a.targets)]
        if allb:
            b_ = _reaching_binding(f.node, recv, recv.id)
            if b_ is not None:
                v = b_.value
                kind = _receiver_attr(f, v, attrs)
                if kind is None and isinstance(v, ast.Name):
                    kind = _resolve_receiver(ix, spec, f, v, attrs, depth + 1)
                if kind is None and isinstance(v, ast.Call) and isinstance(v.func, ast.Name) and v.func.id == 'getattr' and len(v.args) >= 2 and isinstance(v.args[1], ast.Constant) \
                        and v.args[1].value in attrs and isinstance(v.args[0], ast.Name) and v.args[0].id == 'self':
                    kind = ('one', v.args[1].value)
                if kind is not None or len(allb) > 1:
                    return kind
    if kind is None and isinstance(recv, ast.Name):
        # a local: follow its single binding
        binds = [a for a in ast.walk(f.node) if isinstance(a, ast.Assign) and any(isinstance(t, ast.Name) and t.id == recv.id for t in a.targets)]
        if len(binds) == 1:
            v = binds[0].value
            kind = _receiver_attr(f, v, attrs)
            if kind is None and isinstance(v, ast.Call) and isinstance(v.func, ast.Attribute) and isinstance(v.func.value, ast.Name) and v.func.value.id == 'self':
                helper = ix.resolve_method(spec, v.func.attr)
                if helper is not None:
                    rets = [r for r in ast.walk(helper.node) if isinstance(r, ast.Return) and r.value is not None and not (isinstance(r.value, ast.Constant) and r.value.value is None)]
                    names = set()
                    for r in rets:
                        k = _receiver_attr(helper, r.value, attrs)
                        if k is None and isinstance(r.value, ast.Name):
                            bs = [a for a in ast.walk(helper.node) if isinstance(a, ast.Assign) and any(isinstance(t, ast.Name) and t.id == r.value.id for t in a.targets)]
                            if len(bs) == 1:
                                k = _receiver_attr(helper, bs[0].value, attrs)
                        if k is None:
                            names = None
                            break
                        names |= {k[1]} if k[0] == 'one' else set(k[1])
                    if names:
                        # a helper that *returns* an interpreter returns one object: at most one of the candidates gets the call
                        kind = ('first-of', sorted(names))
    return kind


def check_forwarding_reach(ix, rep, rule='R-FWD'):
    """a specification object may hold an online and an offline interpreter at once (the combined classes).  A setting made on the
    specification has to arrive at every interpreter it holds -- a forwarding call per interpreter attribute, conditioned on nothing but that
    interpreter's own presence and kind -- and a quantity the interpreters *count* themselves (they write it outside the setter) has to be
    read from all of them, not from whichever is found first."""
    spec, per_class = _interp_attrs(ix)
    attrs = sorted(set().union(*per_class.values()))
    combined = sorted(c for c, a in per_class.items() if len(a) > 1)
    if len(attrs) < 2 or not combined:
        raise AnalysisError('no specification class holds two interpreters any more (%s): the forwarding rule has no instance' % attrs)
    n = 0
    for mname, f in sorted(spec.methods.items()):
        calls = [c for c in ast.walk(f.node) if isinstance(c, ast.Call) and isinstance(c.func, ast.Attribute) and c.func.attr == mname]
        if not (mname.startswith('set_') and 'sampling' in mname):
            continue
        rep.analysed(f)
        parents = {}
        for p in ast.walk(f.node):
            for c in ast.iter_child_nodes(p):
                parents[id(c)] = p
        reached = {}
        problems = []
        for c in calls:
            recv = c.func.value
            kind = _resolve_receiver(ix, spec, f, recv, attrs)
            if False:
                # a local: follow its single binding
                binds = [a for a in ast.walk(f.node) if isinstance(a, ast.Assign) and any(isinstance(t, ast.Name) and t.id == recv.id for t in a.targets)]
                if len(binds) == 1:
                    v = binds[0].value
                    kind = _receiver_attr(f, v, attrs)
                    if kind is None and isinstance(v, ast.Call) and isinstance(v.func, ast.Attribute) and isinstance(v.func.value, ast.Name) and v.func.value.id == 'self':
                        helper = ix.resolve_method(spec, v.func.attr)
                        if helper is not None:
                            rets = [r for r in ast.walk(helper.node) if isinstance(r, ast.Return) and r.value is not None and not (isinstance(r.value, ast.Constant) and r.value.value is None)]
                            names = set()
                            for r in rets:
                                k = _receiver_attr(helper, r.value, attrs)
                                if k is None and isinstance(r.value, ast.Name):
                                    bs = [a for a in ast.walk(helper.node) if isinstance(a, ast.Assign) and any(isinstance(t, ast.Name) and t.id == r.value.id for t in a.targets)]
                                    if len(bs) == 1:
                                        k = _receiver_attr(helper, bs[0].value, attrs)
                                if k is None:
                                    names = None
                                    break
                                names |= {k[1]} if k[0] == 'one' else set(k[1])
                            if names:
                                # a helper that *returns* an interpreter returns one object: at most one of the candidates gets the call
                                kind = ('first-of', sorted(names))
            if kind is None:
                raise AnalysisError('%s: receiver `%s` of the forwarding call is not resolved to an interpreter attribute' % (f.where, ast.unparse(recv)))
            if kind[0] == 'first-of':
                problems.append((c, 'the call goes to the first interpreter found among %s only' % kind[1]))
                for x in kind[1][:1]:
                    reached.setdefault(x, c)
                continue
            targets = [kind[1]] if kind[0] == 'one' else kind[1]
            # conditions the call is executed under: every enclosing `if` must be about this interpreter alone, taken on its true branch
            q = c
            cond_bad = None
            while id(q) in parents:
                par = parents[id(q)]
                if isinstance(par, ast.If) and q is not par.test:
                    in_else = any(q is s for s in par.orelse)
                    mentioned = {a for a in attrs if a in ast.unparse(par.test)}
                    others = mentioned - set(targets)
                    if in_else and mentioned:
                        cond_bad = 'it sits in the else-branch of the test `%s`: an object with %s never forwards to %s' % (ast.unparse(par.test)[:60], sorted(mentioned), targets)
                    elif others and kind[0] == 'one':
                        cond_bad = 'it is conditioned on another interpreter (`%s`)' % ast.unparse(par.test)[:60]
                q = par
            if cond_bad:
                problems.append((c, cond_bad))
            else:
                for x in targets:
                    reached.setdefault(x, c)
        for a in attrs:
            n += 1
            slot = '%s=>%s' % (mname, a)
            bad = [p for p in problems]
            if a in reached and not any(True for (c, why) in problems if a in ast.unparse(c) or 'first interpreter' in why and a != (sorted(reached)[0])):
                rep.ok(rule, f.module.rel, f.qual, slot, 'forwarded whenever the object has a discrete-time %s' % a, reached[a].lineno)
            else:
                why = '; '.join(w for (_c, w) in problems) or 'no forwarding call for it'
                rep.fail(rule, f.module.rel, f.qual, slot, '%s() does not reach self.%s on every object that has one (%s hold %s at once): %s. That interpreter keeps the default '
                         'period, so its bounds are counted in the wrong number of samples (or rejected as not a multiple)' % (mname, a, ', '.join(combined[:2]), ' and '.join(attrs), why),
                         (problems[0][0].lineno if problems else f.node.lineno))
    return n


def unroll_attr_loops(fnode):
    """`for name in ('a', 'b'): x = getattr(self, name, None); ... x.m ...`  ->  the body once per literal with `self.a` / `self.b` written
    out (on a copy): the spelling with one block per attribute, which the rules read"""
    import copy
    fn = copy.deepcopy(fnode)

    class Sub(ast.NodeTransformer):
        def __init__(self, var, lit):
            self.var, self.lit = var, lit
            self.alias = {}

        def visit_Call(self, n):
            self.generic_visit(n)
            if isinstance(n.func, ast.Name) and n.func.id == 'getattr' and len(n.args) >= 2 and isinstance(n.args[0], ast.Name) and n.args[0].id == 'self' \
                    and isinstance(n.args[1], ast.Name) and n.args[1].id == self.var:
                return ast.copy_location(ast.Attribute(value=ast.Name(id='self', ctx=ast.Load()), attr=self.lit, ctx=ast.Load()), n)
            if isinstance(n.func, ast.Name) and n.func.id == 'hasattr' and len(n.args) == 2 and isinstance(n.args[1], ast.Name) and n.args[1].id == self.var:
                n.args[1] = ast.Constant(value=self.lit)
            return n

    class Inline(ast.NodeTransformer):
        def __init__(self, alias):
            self.alias = alias

        def visit_Name(self, n):
            if isinstance(n.ctx, ast.Load) and n.id in self.alias:
                return ast.copy_location(copy.deepcopy(self.alias[n.id]), n)
            return n
    for parent in ast.walk(fn):
        for field in ('body', 'orelse'):
            lst = getattr(parent, field, None)
            if not isinstance(lst, list):
                continue
            out = []
            for st in lst:
                if isinstance(st, ast.For) and isinstance(st.target, ast.Name) and isinstance(st.iter, (ast.Tuple, ast.List)) and st.iter.elts \
                        and all(isinstance(e, ast.Constant) and isinstance(e.value, str) for e in st.iter.elts) and not st.orelse \
                        and any(isinstance(c, ast.Call) and isinstance(c.func, ast.Name) and c.func.id in ('getattr', 'hasattr') for c in ast.walk(st)):
                    for e in st.iter.elts:
                        body = [Sub(st.target.id, e.value).visit(copy.deepcopy(b)) for b in st.body]
                        alias = {}
                        kept = []
                        for b in body:
                            if isinstance(b, ast.Assign) and len(b.targets) == 1 and isinstance(b.targets[0], ast.Name) and isinstance(b.value, ast.Attribute) \
                                    and isinstance(b.value.value, ast.Name) and b.value.value.id == 'self' and b.value.attr == e.value:
                                alias[b.targets[0].id] = b.value
                                continue
                            kept.append(Inline(alias).visit(b) if alias else b)
                        # `if isinstance(self.a, K)` keeps its meaning; a bare `if x is None: continue` would need more care: left as it is
                        for b in kept:
                            ast.copy_location(b, st)
                            ast.fix_missing_locations(b)
                        out.extend(kept)
                else:
                    out.append(st)
            setattr(parent, field, out)
    return fn


def check_counted_getters(ix, rep, rule='R-FWD'):
    """a quantity the interpreters count themselves (assigned in a method that is neither a constructor, a setter nor reset) lives in each
    interpreter separately.  The specification's getter for it is executed here for an object that holds every interpreter (tests on the
    presence and kind of an interpreter taken as true): the read of each interpreter's count has to be reached."""
    from sa import flow
    spec, per_class = _interp_attrs(ix)
    attrs = sorted(set().union(*per_class.values()))
    combined = sorted(c for c, a in per_class.items() if len(a) > 1)
    dti = ix.find_class('rtamt.semantics.discrete_time_interpreter', 'DiscreteTimeInterpreter')
    if dti is None:
        raise AnalysisError('DiscreteTimeInterpreter vanished')
    counted = {}
    for c in [dti] + list(ix.subclasses_of(dti)):
        for mname, f in c.methods.items():
            if mname in ('__init__', 'reset') or mname.startswith('set_') or any(ast.unparse(d).endswith('.setter') for d in f.node.decorator_list):
                continue
            for st in ast.walk(f.node):
                tg = st.targets if isinstance(st, ast.Assign) else [st.target] if isinstance(st, ast.AugAssign) else []
                for t in tg:
                    if isinstance(t, ast.Attribute) and isinstance(t.value, ast.Name) and t.value.id == 'self' and 'counter' in t.attr and 'update_counter' != t.attr:
                        counted.setdefault(t.attr, f)
    n = 0
    for y, writer in sorted(counted.items()):
        getters = [f for c in [spec] for nm, f in c.methods.items() if nm == y and not any(ast.unparse(d).endswith('.setter') for d in f.node.decorator_list)]
        for g in getters:
            rep.analysed(g)
            gnode = unroll_attr_loops(g.node)
            # locals bound once to `getattr(self, '<interpreter attribute>', None)` stand for the attribute
            import copy as _copy
            stores_ = {}
            for x_ in ast.walk(gnode):
                if isinstance(x_, ast.Name) and isinstance(x_.ctx, ast.Store):
                    stores_[x_.id] = stores_.get(x_.id, 0) + 1
            probe = {}
            for x_ in ast.walk(gnode):
                if isinstance(x_, ast.Assign) and len(x_.targets) == 1 and isinstance(x_.targets[0], ast.Name) and stores_.get(x_.targets[0].id) == 1 \
                        and isinstance(x_.value, ast.Call) and isinstance(x_.value.func, ast.Name) and x_.value.func.id == 'getattr' and len(x_.value.args) == 3 \
                        and isinstance(x_.value.args[0], ast.Name) and x_.value.args[0].id == 'self' and isinstance(x_.value.args[1], ast.Constant) and x_.value.args[1].value in attrs:
                    probe[x_.targets[0].id] = ast.Attribute(value=ast.Name(id='self', ctx=ast.Load()), attr=x_.value.args[1].value, ctx=ast.Load())
            if probe:
                class _P(ast.NodeTransformer):
                    def visit_Name(self, n_):
                        if isinstance(n_.ctx, ast.Load) and n_.id in probe:
                            return ast.copy_location(_copy.deepcopy(probe[n_.id]), n_)
                        return n_
                gnode = _P().visit(_copy.deepcopy(gnode))
                ast.fix_missing_locations(gnode)

            def holds(t):
                """truth of a test on an object that holds every interpreter, all of them discrete-time: True / False / None (not about that)"""
                if isinstance(t, ast.UnaryOp) and isinstance(t.op, ast.Not):
                    v = holds(t.operand)
                    return None if v is None else not v
                if isinstance(t, ast.BoolOp):
                    vs = [holds(v) for v in t.values]
                    if isinstance(t.op, ast.And):
                        return False if any(v is False for v in vs) else (True if all(v is True for v in vs) else None)
                    return True if any(v is True for v in vs) else (False if all(v is False for v in vs) else None)
                txt = ast.unparse(t)
                if not any(a_ in txt for a_ in attrs):
                    return None
                if isinstance(t, ast.Call) and isinstance(t.func, ast.Name) and t.func.id in ('hasattr', 'isinstance'):
                    return True
                if isinstance(t, ast.Compare) and len(t.ops) == 1 and isinstance(t.comparators[0], ast.Constant) and t.comparators[0].value is None \
                        and isinstance(t.left, ast.Attribute) and t.left.attr in attrs:
                    return isinstance(t.ops[0], (ast.IsNot, ast.NotEq))
                return None
            cfg = flow.CFG(gnode)
            seen = set()
            stack = [cfg.entry]
            while stack:
                k = stack.pop()
                if k in seen:
                    continue
                seen.add(k)
                st = cfg.stmt[k]
                if isinstance(st, ast.If) and cfg.kind[k] == 'if':
                    hv = holds(st.test)
                    if hv is True:
                        stack.append(cfg.node(st.body[0]))
                        continue
                    if hv is False:
                        # the arm is not taken: whatever follows the test when it fails
                        inside = {id(x) for b_ in st.body for x in ast.walk(b_)}
                        stack.extend(s_ for s_ in cfg.succ[k] if cfg.stmt[s_] is None or id(cfg.stmt[s_]) not in inside)
                        continue
                stack.extend(cfg.succ[k])
            for a in attrs:
                n += 1
                reads = [x for k in seen if cfg.stmt[k] is not None for x in ast.walk(cfg.stmt[k] if not isinstance(cfg.stmt[k], (ast.If, ast.For, ast.While)) else cfg.stmt[k].test if isinstance(cfg.stmt[k], (ast.If, ast.While)) else cfg.stmt[k].iter)
                         if isinstance(x, ast.Attribute) and x.attr == y and ast.unparse(x.value) == 'self.%s' % a]
                slot = '%s<=%s' % (y, a)
                if reads:
                    rep.ok(rule, g.module.rel, g.qual, slot, 'read on an object that holds every interpreter', reads[0].lineno)
                else:
                    rep.fail(rule, g.module.rel, g.qual, slot, 'each interpreter counts for itself (%s assigns self.%s), and on an object that holds %s (%s) the getter returns before it '
                             'reads self.%s.%s: the gaps counted by that interpreter are never reported -- the specification reads 0 after %s' % (
                                 writer.qual, y, ' and '.join(attrs), ', '.join(combined[:2]), a, y, 'evaluate()' if 'offline' in a else 'update()'), g.node.lineno)
    return n


def check_interpreter_ownership(ix, rep, rule='R-CONFIG'):
    """what set_sampling_period()/the semantics argument configured lives in the interpreter object the specification was constructed
    with.  (a) only a constructor binds an interpreter attribute -- a method that installs another interpreter object drops the period,
    unit and tolerance the user set, and the monitor continues with the defaults; (b) every normal exit of the specification's reset()
    passes through the reset() of its online interpreter."""
    from sa import flow
    spec, per_class = _interp_attrs(ix)
    attrs = sorted(set().union(*per_class.values()))
    n = 0
    for c in [spec] + sorted(ix.subclasses_of(spec), key=lambda k: k.name):
        if ix.unimportable(c.module):
            continue
        for mname, f in sorted(c.methods.items()):
            if mname == '__init__':
                continue
            for st in ast.walk(f.node):
                tg = st.targets if isinstance(st, (ast.Assign, ast.Delete)) else [st.target] if isinstance(st, (ast.AugAssign, ast.AnnAssign)) else []
                for t in tg:
                    if isinstance(t, ast.Attribute) and isinstance(t.value, ast.Name) and t.value.id == 'self' and t.attr in attrs:
                        n += 1
                        rep.fail(rule, f.module.rel, f.qual, 'rebinds:%s' % t.attr, '%s() installs another object as self.%s: the sampling period, unit and tolerance given to '
                                 'set_sampling_period() (and the semantics the interpreter was created with) are stored in the interpreter object and are gone -- the monitor goes on '
                                 'with a period of 1 s' % (mname, t.attr), st.lineno)
                if isinstance(st, ast.Call) and isinstance(st.func, ast.Name) and st.func.id == 'setattr' and len(st.args) >= 2 and isinstance(st.args[1], ast.Constant) \
                        and st.args[1].value in attrs:
                    n += 1
                    rep.fail(rule, f.module.rel, f.qual, 'rebinds:%s' % st.args[1].value, '%s() installs another object as self.%s through setattr' % (mname, st.args[1].value), st.lineno)
        if '__init__' in c.methods:
            n += 1
            rep.ok(rule, c.module.rel, c.name, 'interpreters-bound-once', 'only the constructor binds %s' % '/'.join(attrs), c.node.lineno)
        rs = c.methods.get('reset')
        if rs is not None:
            rep.analysed(rs)
            cfg = flow.CFG(rs.node)
            dom = cfg.dominators()

            # locals that stand for the interpreter (x = self.online_interpreter, bound once)
            aliases = {'self.online_interpreter'}
            for q in ast.walk(rs.node):
                if isinstance(q, ast.Assign) and len(q.targets) == 1 and isinstance(q.targets[0], ast.Name) and ast.unparse(q.value) == 'self.online_interpreter' \
                        and sum(1 for z in ast.walk(rs.node) if isinstance(z, ast.Name) and z.id == q.targets[0].id and isinstance(z.ctx, ast.Store)) == 1:
                    aliases.add(q.targets[0].id)

            def forwards(st):
                return not isinstance(st, (ast.If, ast.For, ast.While, ast.Try)) and any(
                    isinstance(x, ast.Call) and isinstance(x.func, ast.Attribute) and x.func.attr == 'reset' and ast.unparse(x.func.value) in aliases
                    for x in ast.walk(st))
            bad = None
            for p in cfg.pred[cfg.exit]:
                if p in cfg.reachable() and not any(cfg.stmt[d] is not None and forwards(cfg.stmt[d]) for d in dom[p]):
                    bad = cfg.stmt[p] if cfg.stmt[p] is not None else rs.node
            n += 1
            if bad is None:
                rep.ok(rule, rs.module.rel, rs.qual, 'reset:forwards', 'every normal exit passes through self.online_interpreter.reset()', rs.node.lineno)
            else:
                rep.fail(rule, rs.module.rel, rs.qual, 'reset:forwards', 'reset() of the specification can return without self.online_interpreter.reset(): the operators keep their '
                         'history (or, if the interpreter is replaced instead, its settings are lost)', getattr(bad, 'lineno', rs.node.lineno))
    return n


def check_period_reaches_ast(ix, rep, rule='R-FWD'):
    """the pastifier's horizon and the explainer's bound normaliser read the sampling period from the *ast* (ast.sampling_period,
    ast.sampling_period_unit), the interpreters from themselves.  set_sampling_period() on the specification has to store its period and unit
    on the ast on every path -- not only when the object has a particular interpreter -- or the readers of the ast count in another period
    than the evaluation."""
    from sa import flow
    spec = ix.find_class('rtamt.spec.abstract_specification', 'AbstractSpecification')
    f = spec.methods.get('set_sampling_period')
    if f is None:
        raise AnalysisError('AbstractSpecification.set_sampling_period vanished')
    rep.analysed(f)
    readers = {}
    for mod in ix.modules.values():
        if not (mod.rel.startswith('rtamt/pastifier/') or mod.rel.startswith('rtamt/explanation/')):
            continue
        for x in ast.walk(mod.tree):
            if isinstance(x, ast.Attribute) and x.attr in ('sampling_period', 'sampling_period_unit') and isinstance(x.ctx, ast.Load) \
                    and ast.unparse(x.value) in ('ast', 'self.ast', 'self.spec', 'spec'):
                readers.setdefault(x.attr, []).append((mod.rel, x.lineno))
            # ast.get_sampling_period() reads both
            if isinstance(x, ast.Call) and isinstance(x.func, ast.Attribute) and x.func.attr == 'get_sampling_period' and ast.unparse(x.func.value) in ('ast', 'self.ast', 'self.spec', 'spec'):
                for a_ in ('sampling_period', 'sampling_period_unit'):
                    readers.setdefault(a_, []).append((mod.rel, x.lineno))
    if len(readers) < 2:
        raise AnalysisError('no reader of ast.sampling_period / ast.sampling_period_unit in the pastifier or the explainer any more (anchor moved)')
    params = [a.arg for a in f.node.args.args[1:]]
    cfg = flow.CFG(f.node)
    dom = cfg.dominators()
    n = 0
    for attr, want in (('sampling_period', params[0] if params else None), ('sampling_period_unit', params[1] if len(params) > 1 else None)):
        n += 1

        def stores(st):
            return isinstance(st, ast.Assign) and any(ast.unparse(t) == 'self.ast.%s' % attr for t in st.targets) and isinstance(st.value, ast.Name) and st.value.id == want
        bad = None
        for p in cfg.pred[cfg.exit]:
            if p in cfg.reachable() and not any(cfg.stmt[d] is not None and stores(cfg.stmt[d]) for d in dom[p]):
                bad = cfg.stmt[p] if cfg.stmt[p] is not None else f.node
        slot = 'set_sampling_period=>ast.%s' % attr
        if bad is None:
            rep.ok(rule, f.module.rel, f.qual, slot, 'stored on the ast on every path (read at %d sites of the pastifier / explainer)' % len(readers[attr]), f.node.lineno)
        else:
            rel, line = readers[attr][0]
            rep.fail(rule, f.module.rel, f.qual, slot, 'set_sampling_period() can return without `self.ast.%s = %s` (or stores it only for objects with a particular interpreter): %s:%d and %d '
                     'other sites read the period from the ast and go on with the default 1 s -- the explainer looks at another window than the evaluation, the pastifier delays `next` '
                     'by the wrong number of samples' % (attr, want, rel, line, len(readers[attr]) - 1), getattr(bad, 'lineno', f.node.lineno))
    return n


def _lossy_conversion(e):
    """a rendering of a number that keeps only part of it: %-formats and format specs other than %s/%r/{}, round(), int(), float() of a
    formatted text.  str()/repr() of a float are exact (they round-trip)."""
    import re as _re
    for x in ast.walk(e):
        if isinstance(x, ast.BinOp) and isinstance(x.op, ast.Mod) and isinstance(x.left, ast.Constant) and isinstance(x.left.value, str):
            for m in _re.finditer(r'%(?:\(\w+\))?[-#0 +]*\d*(?:\.\d+)?[a-zA-Z%]', x.left.value):
                if m.group(0) not in ('%s', '%r', '%%'):
                    return 'the %%-format `%s`' % m.group(0)
        if isinstance(x, ast.JoinedStr):
            for v in x.values:
                if isinstance(v, ast.FormattedValue) and v.format_spec is not None and ast.unparse(v.format_spec) not in ("f''", "f's'"):
                    return 'the format spec %s' % ast.unparse(v.format_spec)
        if isinstance(x, ast.Call) and isinstance(x.func, ast.Attribute) and x.func.attr == 'format' and isinstance(x.func.value, ast.Constant) and isinstance(x.func.value.value, str):
            import string
            for lit, field, spec, conv in string.Formatter().parse(x.func.value.value):
                if field is not None and spec and spec != 's':
                    return 'the format spec :%s' % spec
        if isinstance(x, ast.Call) and isinstance(x.func, ast.Name) and x.func.id in ('round', 'int', 'trunc', 'floor', 'ceil'):
            return '%s()' % x.func.id
    return None


def check_forwarding_exact(ix, rep, rule='R-FWD'):
    """what the user declares on the specification object (`declare_const(name, type, value)`, `declare_var`, `set_var_io_type`, ...) is what the
    ast receives: between the parameter and the argument of the forwarded call there is no rendering that keeps only part of a number.  The
    modular form of a specification (constants passed through the API) and its inlined form (the literal in the text) then denote the same value."""
    spec = ix.find_class('rtamt.spec.abstract_specification', 'AbstractSpecification')
    n = 0
    for mname, f in sorted(spec.methods.items()):
        params = [a.arg for a in f.node.args.args[1:]]
        if not params:
            continue
        for c in ast.walk(f.node):
            if not (isinstance(c, ast.Call) and isinstance(c.func, ast.Attribute) and ast.unparse(c.func.value) == 'self.ast' and c.func.attr == mname):
                continue
            rep.analysed(f)
            for k, a in enumerate(list(c.args) + [kw.value for kw in c.keywords]):
                n += 1
                chain = [a]
                if isinstance(a, ast.Name):
                    for st in ast.walk(f.node):
                        if isinstance(st, ast.Assign) and any(isinstance(t, ast.Name) and t.id == a.id for t in st.targets):
                            chain.append(st.value)
                        elif isinstance(st, ast.AugAssign) and isinstance(st.target, ast.Name) and st.target.id == a.id:
                            chain.append(st.value)
                why = None
                for e in chain:
                    why = why or _lossy_conversion(e)
                slot = '%s:arg%d' % (mname, k)
                if why:
                    rep.fail(rule, f.module.rel, f.qual, slot, '%s() hands `%s` to the ast after passing it through %s: a value with more digits than the rendering keeps arrives changed '
                             '(2.7182818 -> 2.71828), so a constant declared through the API is no longer the literal it stands for' % (mname, ast.unparse(a), why), c.lineno)
                else:
                    rep.ok(rule, f.module.rel, f.qual, slot, 'forwarded without a lossy rendering', c.lineno)
    # second stage: what the ast's own entry methods (the ones the specification forwards to) store of their parameters
    absast = ix.find_class('rtamt.syntax.ast.parser.abstract_ast_parser', 'AbstractAst')
    for mname, f in sorted(absast.methods.items()):
        if mname not in spec.methods or mname.startswith('__'):
            continue
        params = {a.arg for a in f.node.args.args[1:]}
        if not params:
            continue
        binds = {}
        for st in ast.walk(f.node):
            if isinstance(st, ast.Assign):
                for t in st.targets:
                    if isinstance(t, ast.Name):
                        binds.setdefault(t.id, []).append(st.value)
            elif isinstance(st, ast.AugAssign) and isinstance(st.target, ast.Name):
                binds.setdefault(st.target.id, []).append(st.value)

        def chain_of(e, depth=0):
            out = [e]
            if depth < 3:
                for x in ast.walk(e):
                    if isinstance(x, ast.Name) and x.id in binds:
                        for v in binds[x.id]:
                            out.extend(chain_of(v, depth + 1))
            return out
        for st in ast.walk(f.node):
            if isinstance(st, ast.Assign) and any(isinstance(t, (ast.Subscript, ast.Attribute)) and ast.unparse(t).startswith('self.') for t in st.targets):
                ch = chain_of(st.value)
                if not any(isinstance(x, ast.Name) and x.id in params for e in ch for x in ast.walk(e)):
                    continue
                n += 1
                rep.analysed(f)
                tgt = next(ast.unparse(t) for t in st.targets if isinstance(t, (ast.Subscript, ast.Attribute)))
                slot = 'ast.%s:%s' % (mname, tgt.split('[')[0])
                why = None
                for e in ch:
                    why = why or _lossy_conversion(e)
                if why:
                    rep.fail(rule, f.module.rel, f.qual, slot, '%s() stores `%s` after passing its argument through %s: a value with more digits than the rendering keeps is stored changed '
                             '(1048577 -> 1.04858e+06), so a constant declared through the API is no longer the literal it stands for' % (mname, ast.unparse(st.value)[:60], why), st.lineno)
                else:
                    rep.ok(rule, f.module.rel, f.qual, slot, 'stored without a lossy rendering', st.lineno)
    return n


def check_reset_keeps_settings(ix, rep, rule='R-CONFIG'):
    """what set_sampling_period() configured is configuration, not state: reset() (with everything it calls, super() and explicit base-class
    calls included) writes none of the attributes set_sampling_period() writes.  A reset that re-runs a constructor puts the period back to
    1 s: the operators built at the next update count every bound in the wrong period."""
    from sa import effects as E, model as M
    n = 0
    seen = set()
    for mon in M.monitors(ix):
        if mon.mode != 'online':
            continue
        rs = ix.resolve_method(mon.cls, 'reset')
        sp = ix.resolve_method(mon.cls, 'set_sampling_period')
        if rs is None or sp is None or (id(rs), id(sp)) in seen:
            continue
        seen.add((id(rs), id(sp)))
        n += 1
        rep.analysed(rs)
        settings = set(E.transitive_effects(ix, mon.cls, 'set_sampling_period').writes)
        touched = sorted(settings & set(E.transitive_effects(ix, mon.cls, 'reset').writes))
        slot = '%s:reset-keeps-settings' % mon.kind
        if touched:
            rep.fail(rule, rs.module.rel, rs.qual, slot, 'reset() (through the methods it calls) assigns %s, which set_sampling_period() configures: after reset() the monitor counts '
                     'its bounds in the default period again, not in the configured one' % ', '.join('self.' + t for t in touched), rs.node.lineno)
        else:
            rep.ok(rule, rs.module.rel, rs.qual, slot, 'reset() writes none of %s' % sorted(settings), rs.node.lineno)
    return n
