"""Repository-specific discovery: the concrete class sets the rules range over (DESIGN section 2).

Everything here is *found* in the working tree on every run; only names of anchor modules are fixed.
"""
import ast

from sa.index import AnalysisError, ClassInfo, FuncInfo, External
from sa import dispatch as D

FACTORIES = {
    'discrete_time_offline_interpreter_factory': ('discrete', 'offline'),
    'discrete_time_online_interpreter_factory': ('discrete', 'online'),
    'dense_time_offline_interpreter_factory': ('dense', 'offline'),
    'dense_time_online_interpreter_factory': ('dense', 'online'),
}
SEMANTICS = ('OutputRobustness', 'InputRobustness', 'OutputVacuity', 'InputVacuity')


class Monitor(object):
    def __init__(self, time, mode, sem, cls, visitor, site_module):
        self.time = time
        self.mode = mode
        self.sem = sem  # 'Standard' or one of SEMANTICS
        self.cls = cls  # concrete (factory-made) interpreter class
        self.visitor = visitor  # semantic visitor class passed to the factory
        self.site_module = site_module

    @property
    def kind(self):
        return '%s-%s' % (self.time, self.mode)

    @property
    def label(self):
        return '%s/%s/%s' % (self.time, self.mode, self.sem)


def monitors(ix, include_cpp=False):
    out = []
    for (m, call, ci) in ix.factory_instances():
        fac, args = ci.factory
        if fac.name not in FACTORIES:
            continue
        vis = args[0]
        if 'Cpp' in vis.name and not include_cpp:
            continue
        time, mode = FACTORIES[fac.name]
        sem = 'Standard'
        for s in SEMANTICS:
            if s in vis.name:
                sem = s
        out.append(Monitor(time, mode, sem, ci, vis, m))
    # de-duplicate (same class instantiated at several sites)
    seen = {}
    for mo in out:
        seen.setdefault(mo.cls.name, mo)
    out = sorted(seen.values(), key=lambda mo: mo.label)
    return out


def standard_monitors(ix):
    return [m for m in monitors(ix) if m.sem == 'Standard']


def parser_visitors(ix):
    ltl = ix.find_class('rtamt.syntax.ast.parser.ltl.parser_visitor', 'LtlAstParserVisitor')
    stl = ix.find_class('rtamt.syntax.ast.parser.stl.parser_visitor', 'StlAstParserVisitor')
    return ltl, stl


def constructed_node_classes(ix, cls, node_set):
    """Node classes constructed anywhere in the methods defined by cls (own body only)."""
    out = {}
    for f in cls.methods.values():
        for call in ast.walk(f.node):
            if isinstance(call, ast.Call) and isinstance(call.func, ast.Name):
                ent = ix.resolve_expr(f.module, call.func)
                if isinstance(ent, ClassInfo) and ent in node_set:
                    out.setdefault(ent.name, []).append((f, call))
    return out


def parser_builds(ix):
    nodes = D.node_classes(ix)
    ltl, stl = parser_visitors(ix)
    built = {}
    for c in (ltl, stl):
        for name, sites in constructed_node_classes(ix, c, nodes).items():
            built.setdefault(name, []).extend(sites)
    return built


def pastifier_builds(ix):
    nodes = D.node_classes(ix)
    built = {}
    for modn, cn in (('rtamt.pastifier.ltl.pastifier', 'LtlPastifier'), ('rtamt.pastifier.stl.pastifier', 'StlPastifier')):
        c = ix.find_class(modn, cn)
        for name, sites in constructed_node_classes(ix, c, nodes).items():
            built.setdefault(name, []).extend(sites)
    return built


def node_by_name(ix):
    return {c.name: c for c in D.node_classes(ix)}


def operation_classes(ix, time):
    """Online operation classes of one time interpretation: {class name: ClassInfo}."""
    out = {}
    for m in ix.modules.values():
        if ('.%s_time.online.' % time) in m.name and m.name.endswith('_operation'):
            for c in m.classes.values():
                out['%s:%s' % (m.name, c.name)] = c
    return out


FUTURE_UNBOUNDED = ('Eventually', 'Always', 'Until')
FUTURE_BOUNDED = ('TimedEventually', 'TimedAlways', 'TimedUntil')
NEXTS = ('Next', 'StrongNext')
PREVS = ('Previous', 'StrongPrevious')
EDGES = ('Rise', 'Fall')


def reject_matrix():
    """C17's sentence, transcribed: what each monitor kind must reject (with RTAMTException).

    TimedPrecedes only arises from pastify(); the offline monitors may compute or reject it."""
    return {
        'discrete-offline': set(),
        'discrete-online': set(FUTURE_UNBOUNDED + FUTURE_BOUNDED + NEXTS),
        'dense-offline': set(PREVS + NEXTS + EDGES),
        'dense-online': set(FUTURE_UNBOUNDED + FUTURE_BOUNDED + NEXTS + PREVS + EDGES + ('TimedPrecedes',)),
    }


EITHER = {'discrete-offline': {'TimedPrecedes'}, 'dense-offline': {'TimedPrecedes'},
          'discrete-online': set(), 'dense-online': set()}
