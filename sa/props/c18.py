"""C18  Temporal dualities and expansion laws hold in every monitor."""
from sa.index import AnalysisError
from sa import dispatch as D, model as M, opsum as O, window as W
from sa.rules import mirror, opref, exh, densesum, windowrule
from sa.rules import stackstep as SS
from sa.props import c01, c02

UNTIMED = (('Once', 'Historically'), ('Eventually', 'Always'))
TIMED = (('TimedOnce', 'TimedHistorically'), ('TimedEventually', 'TimedAlways'))


class _Collect(object):
    """report proxy that keeps what a rule says instead of recording it under this property"""
    def __init__(self, rep):
        self._r = rep
        self.fails = []
        self.oks = []
        self.errors = []

    def fail(self, rule, rel, sym, slot, msg, line=None, *a, **k):
        self.fails.append((rule, rel, sym, slot, msg, line))

    def ok(self, rule, rel, sym, slot, msg='', line=None, *a, **k):
        self.oks.append((rule, rel, sym, slot))

    def undecided(self, *a, **k):
        pass

    def error(self, msg):
        self.errors.append(msg)

    def floor(self, *a, **k):
        pass

    def __getattr__(self, k):
        return getattr(self._r, k)


def dual_term(e):
    """dual image of an operator-summary term: min<->max, +inf<->-inf (values only; operands stay)"""
    if e == O.INF:
        return O.NINF
    if e == O.NINF:
        return O.INF
    if not isinstance(e, tuple) or not e:
        return e
    if e[0] in ('min', 'max'):
        return O.mk('max' if e[0] == 'min' else 'min', [dual_term(a) for a in e[1]])
    if e[0] == 'c':
        return e
    return (e[0],) + tuple(dual_term(a) if isinstance(a, tuple) else a for a in e[1:])


def dual_nf(nf):
    return (nf[0],) + tuple(dual_term(a) if isinstance(a, tuple) else a for a in nf[1:])


def dual_window(t):
    h = t[0]
    if h == 'leaf':
        fl = lambda c: None if c is None else (('c', 'inf') if c == ('c', '-inf') else ('c', '-inf') if c == ('c', 'inf') else c)
        return ('leaf', t[1], t[2], fl(t[3]), fl(t[4]))
    if h == 'c':
        return ('c', 'inf') if t == ('c', '-inf') else ('c', '-inf') if t == ('c', 'inf') else t
    if h in ('min', 'max'):
        return W.mk('max' if h == 'min' else 'min', [dual_window(a) for a in t[1]])
    if h == 'red':
        return ('red', 'max' if t[1] == 'min' else 'min', t[2], t[3], t[4], dual_window(t[5]))
    return t


def _pair_untimed(rep, label, where, a, b, sa, sb, fallback):
    """duality of an untimed pair on the operator summaries; syntactic mirror only when a side is not summarised"""
    slot = '%s:%s~%s' % (label, a, b)
    if sa is not None and sb is not None and sa[0] != 'unknown' and sb[0] != 'unknown':
        if dual_nf(sa) == sb:
            rep.ok('R-DUAL', where, label, slot, '%s is the dual image (min<->max, +inf<->-inf) of %s: %s' % (b, a, O.show(sb) if hasattr(O, 'show') else ''), None)
        else:
            rep.fail('R-DUAL', where, label, slot, 'not %s p and %s not p differ: %s is %s, the dual of %s is %s'
                     % (a.lower(), b.lower(), b, opref.describe(sb), a, opref.describe(dual_nf(sa))))
        return True
    # a side is not summarised: the syntactic mirror can *confirm* the pair (it is a sufficient condition); when it does not hold nothing follows --
    # a one-sided rewrite into an equivalent idiom looks the same as a one-sided defect -- so that is "undecided" (exit 2), never a violation
    col = _Collect(rep)
    real = rep

    res = fallback(col)
    for (rule, rel, sym, s2) in col.oks:
        real.ok(rule, rel, sym, s2, 'syntactic mirror holds (no summary for one side)')
    for e in col.errors:
        real.error(e)
    if col.fails:
        (rule, rel, sym, s2, msg, line) = col.fails[0]
        real.error('%s: %s and %s: one handler is not in a summarised idiom and the two are not syntactic mirror images either (%s) -- undecided' % (slot, a, b, msg[:120]))
    return res


def check(ix, rep):
    mons = {m.kind: m for m in M.standard_monitors(ix)}
    npairs = 0
    nodes = M.node_by_name(ix)
    # ---- reference windows are dual to each other (a fact about the checker's own table, re-validated on every run)
    for a, b in TIMED:
        if dual_window(W.reference(a)) != W.reference(b):
            raise AnalysisError('reference windows of %s and %s are not dual' % (a, b))
    q = c02._Quiet(rep)
    # ---- discrete time, offline
    off = mons['discrete-offline']
    offsum, _ = c01.opsum_offline_discrete(ix, q, off)
    d = D.dispatch_of(ix, off.cls)
    for a, b in UNTIMED:
        fa, fb = mirror._handler(ix, off, d, nodes[a]), mirror._handler(ix, off, d, nodes[b])
        if fa is None or fb is None:
            continue
        npairs += 1
        rep.analysed(fa)
        rep.analysed(fb)

        def fb_(r_, fa=fa, fb=fb, a=a, b=b):
            mirror.compare_functions(r_, 'R-MIRROR', fa, fb, 'discrete-offline:%s~%s' % (a, b))
            return True
        _pair_untimed(rep, 'discrete-offline', off.visitor.module.rel, a, b, offsum.get(a), offsum.get(b), fb_)
    col = _Collect(rep)
    windowrule.check_offline(ix, col, off, which=('R-WINDOW',))
    npairs += _window_pairs(rep, col, 'discrete-offline', off.visitor.module.rel)
    # ---- discrete time, online
    on = mons['discrete-online']
    onsum = {}
    ops = exh.constructed_operations(ix, on)
    for ncname, opc in ops.items():
        nf, _p = O.summarize_online_discrete(opc, ix)
        onsum[ncname] = nf
    for a, b in UNTIMED:
        ca, cb = ops.get(a), ops.get(b)
        if ca is None or cb is None:
            continue      # unbounded future is rejected online: the classes that exist for it are never constructed
        npairs += 1
        rep.analysed(ca.methods['update'])
        rep.analysed(cb.methods['update'])

        def fb_(r_, ca=ca, cb=cb, a=a, b=b):
            for meth in ('__init__', 'reset', 'update'):
                fa, fb = ca.methods.get(meth), cb.methods.get(meth)
                if fa is not None and fb is not None:
                    mirror.compare_functions(r_, 'R-MIRROR', fa, fb, 'discrete-online:%s~%s:%s' % (a, b, meth), sort_init=(meth == '__init__'))
            return True
        _pair_untimed(rep, 'discrete-online', on.visitor.module.rel, a, b, onsum.get(a), onsum.get(b), fb_)
    col = _Collect(rep)
    windowrule.check_online(ix, col, on, which=('R-WINDOW',))
    npairs += _window_pairs(rep, col, 'discrete-online', on.visitor.module.rel)
    # ---- dense time, offline
    doff = mons['dense-offline']
    dd = D.dispatch_of(ix, doff.cls)
    for a, b in UNTIMED:
        fa, fb = mirror._handler(ix, doff, dd, nodes[a]), mirror._handler(ix, doff, dd, nodes[b])
        if fa is None or fb is None:
            continue
        npairs += 1
        rep.analysed(fa)
        rep.analysed(fb)
        sa, _p, _t = densesum.summarize_offline_handler(ix, fa)
        sb, _p, _t = densesum.summarize_offline_handler(ix, fb)

        def fb_(r_, fa=fa, fb=fb, a=a, b=b):
            mirror.compare_functions(r_, 'R-MIRROR', fa, fb, 'dense-offline:%s~%s' % (a, b))
            return True
        _pair_untimed(rep, 'dense-offline', doff.visitor.module.rel, a, b, sa, sb, fb_)
    m = ix.module('rtamt.semantics.stl.dense_time.offline.ast_visitor')
    for (a, b), (ka, kb) in zip(TIMED, (('once', 'historically'), ('eventually', 'always'))):
        npairs += 1
        col = _Collect(rep)
        for nn, kn in ((a, ka), (b, kb)):
            hf = mirror._handler(ix, doff, dd, nodes[nn])
            if hf is not None:
                SS.check_forward(ix, col, doff.cls, hf, nn)
            kf = m.functions.get(kn + '_timed_operation')
            if kf is None:
                col.error('kernel %s_timed_operation vanished' % kn)
                continue
            rep.analysed(kf)
            SS.check_function(ix, col, kf, kn, slot_prefix='dense-offline:')
            SS.check_build(ix, col, kf, kn, slot_prefix='dense-offline:')
            SS.check_output(ix, col, kf, kn, slot_prefix='dense-offline:')
        _kernel_pair(rep, col, 'dense-offline', doff.visitor.module.rel, a, b)
    # ---- dense time, online
    don = mons['dense-online']
    dops = exh.constructed_operations(ix, don)
    for a, b in UNTIMED:
        ca, cb = dops.get(a), dops.get(b)
        if ca is None or cb is None:
            continue
        npairs += 1
        rep.analysed(ca.methods['update'])
        rep.analysed(cb.methods['update'])
        sa, _p, _t = densesum.summarize_online_operation(ix, ca)
        sb, _p, _t = densesum.summarize_online_operation(ix, cb)

        def fb_(r_, ca=ca, cb=cb, a=a, b=b):
            for meth in ('__init__', 'reset', 'update'):
                fa, fb = ca.methods.get(meth), cb.methods.get(meth)
                if fa is not None and fb is not None:
                    mirror.compare_functions(r_, 'R-MIRROR', fa, fb, 'dense-online:%s~%s:%s' % (a, b, meth), sort_init=(meth == '__init__'))
            return True
        _pair_untimed(rep, 'dense-online', don.visitor.module.rel, a, b, sa, sb, fb_)
    ca, cb = dops.get('TimedOnce'), dops.get('TimedHistorically')
    if ca is not None and cb is not None:
        npairs += 1
        col = _Collect(rep)
        for c, kn in ((ca, 'once'), (cb, 'historically')):
            f = c.methods['update']
            rep.analysed(f)
            SS.check_function(ix, col, f, kn, slot_prefix='dense-online:')
            SS.check_build(ix, col, f, kn, online=True, slot_prefix='dense-online:')
            SS.check_carry(ix, col, f, kn, slot_prefix='dense-online:')
        _kernel_pair(rep, col, 'dense-online', don.visitor.module.rel, 'TimedOnce', 'TimedHistorically')
        # which segments are emitted now and which are carried over is not summarised: the two partners must treat it alike
        da, db = mirror.unread_self_attrs(ix, ca), mirror.unread_self_attrs(ix, cb)
        unread = bool(col.errors)       # a partner whose kernel is not in the interpreted form cannot be cut into "merge step" and "rest": the textual comparison of
        #                                 the rest would compare the rewritten partner with the old one -- no verdict (the analysis error is reported above)
        for meth in ('__init__', 'reset', 'update'):
            if unread and meth == 'update':
                continue
            fa, fb = ca.methods.get(meth), cb.methods.get(meth)
            if fa is not None and fb is not None:
                if meth == 'update':
                    # the merge step and the emit/carry split are decided semantically (R-SEGSTEP, R-CARRY): only the rest of update() is compared
                    fa, fb = _without_step(fa), _without_step(fb)
                mirror.compare_functions(rep, 'R-MIRROR', fa, fb, 'dense-online:TimedOnce~TimedHistorically:%s' % meth, drop_a=da, drop_b=db, sort_init=(meth == '__init__'))
    rep.floor('dual pairs decided', npairs, 12)
    # implies = or o (not x id); since/until expansion -- on the operator summaries
    for label, sums, where in (('discrete-offline', offsum, off.visitor.module.rel), ('discrete-online', onsum, on.visitor.module.rel)):
        laws(rep, label, sums, where)
    dsum = dense_summaries(ix, rep, mons)
    for label, sums in dsum.items():
        laws(rep, label, sums, mons[label].visitor.module.rel, dense=True)
    # a law relates two formulas monitored by the same machinery: both sides step every operator once per update (a short-circuit on one connective
    # and not on its expansion breaks `p -> q` = `not p or q`), and a scan starts from its own initial value (scratch attributes of the dense
    # offline visitor are written before they are read within one visit: `not once P` = `historically not P` also when P contains a once)
    from sa.rules import step as _step, pure as _pure
    for m_ in M.standard_monitors(ix):
        if m_.kind == 'discrete-online':
            _step.check_step(ix, rep, m_)
        if m_.kind == 'dense-offline':
            _pure.pure_handlers(ix, rep, m_)
    # the laws are claimed for the pastified online monitors too: pastify() must consume exactly the look-ahead the horizon counts
    # (a horizon that lets prev/s_prev give back a sampling period delays one side of `p since q = q or (p and s_prev(p since q))`)
    from sa.rules import pastify as _pf18
    _pc = ix.find_class('rtamt.pastifier.stl.pastifier', 'StlPastifier')
    _hc = ix.find_class('rtamt.pastifier.stl.horizon', 'StlHorizon')
    if _pc is None or _hc is None:
        raise AnalysisError('pastifier / horizon class vanished')
    _nh, _ = _pf18.check_horizon(ix, rep, _hc, _pc)
    _nd, _ = _pf18.check_delay(ix, rep, _pc)
    rep.floor('horizon and pastifier handlers', _nh + _nd, 60)
    explanation = (
        'Duality on the semantic summaries. For the pairs once/historically and eventually/always in all four monitors the operator summary of '
        'the second partner (scan direction, initial state, step; window of offsets with its fill values) must equal the dual image -- min<->max, '
        '+inf<->-inf -- of the first; then not X p == Y not p because negation is an order-reversing involution that commutes with selection. '
        'Bounded pairs in discrete time: both index windows are derived symbolically (R-WINDOW) and equal reference windows that are dual to each '
        'other (re-validated on every run). Bounded pairs in dense time: both sliding-window kernels satisfy the merge-step contract with opposite '
        'dominance (R-SEGSTEP), build the same influence interval (R-SEGBUILD) and emit alike (R-SEGOUT). Only where no summary exists -- which '
        'segments the dense-time online once[a,b]/historically[a,b] emit now and which they carry over -- the partners are compared syntactically '
        '(R-MIRROR: after normalisation the second must be the dual image of the first). Classes no monitor constructs are not compared. Expansion '
        'laws are read off the summaries: implies = max(neg l, r) = or o (not x id); since is the forward scan out = max(r, min(l, st)), init -inf, '
        'i.e. q or (p and s_prev(self)); until symmetrically backward. eventually[a,b] eventually[c,d] = eventually[a+c,b+d] (and once) follows '
        'from R-WINDOW by a hand lemma: the sumset of two integer intervals is the interval of the sums, and the fill value is neutral.')
    assumptions = ['R-MIRROR on the dense-time online carry-over is a sufficient condition: a one-sided behaviour-preserving rewrite of that part would be reported',
                   'hand lemma for the nesting law (DESIGN.md); dense-time nesting law not decided']
    return explanation, assumptions, 'one instance per dual pair and monitor, per law and monitor', {'exhaustive': True}


class _FuncView(object):
    """a FuncInfo whose body lacks the sample loop"""
    def __init__(self, f, node):
        self._f = f
        self.node = node

    def __getattr__(self, k):
        return getattr(self._f, k)


def _without_step(f):
    import ast
    import copy
    try:
        info = SS.find_step(f.node)
    except SS.Shape:
        return f
    node = copy.deepcopy(f.node)
    info2 = SS.find_step(node)
    loop = info2['loop']

    class T(ast.NodeTransformer):
        def visit_While(self, n):
            if n is loop:
                return ast.Pass()
            return self.generic_visit(n)

        def visit_For(self, n):
            if n is loop:
                return ast.Pass()
            return self.generic_visit(n)
    T().visit(node)
    # the emit / carry-over loop over the stack is decided by R-CARRY in each partner
    stack = info2['stack']
    node.body = [s_ if not (isinstance(s_, ast.For) and any(isinstance(n, ast.Name) and n.id == stack for n in ast.walk(s_.iter))) else ast.Pass() for s_ in node.body]
    return _FuncView(f, node)


def _window_pairs(rep, col, label, where):
    n = 0
    bad = {}
    for (rule, rel, sym, slot, msg, line) in col.fails:
        parts = slot.split(':')
        opn = parts[1] if len(parts) > 1 else parts[-1]
        bad[opn] = (rel, sym, msg, line)
    done = {s[3].split(':')[-1] for s in col.oks}
    for e in col.errors:
        rep.error(e)
    for a, b in TIMED:
        if a not in done and a not in bad and b not in done and b not in bad:
            continue
        n += 1
        slot = '%s:%s~%s' % (label, a, b)
        probs = [(x, bad[x]) for x in (a, b) if x in bad]
        if probs:
            for x, (rel, sym, msg, line) in probs:
                rep.fail('R-DUAL', rel, sym, slot + ':' + x, 'the pair %s/%s is not dual: %s' % (a, b, msg), line)
        elif a in done and b in done:
            rep.ok('R-DUAL', where, label, slot, 'both windows equal their (mutually dual) reference windows', None)
    return n


def _kernel_pair(rep, col, label, where, a, b):
    for e in col.errors:
        rep.error(e)
    slot = '%s:%s~%s' % (label, a, b)
    if col.fails:
        for (rule, rel, sym, s2, msg, line) in col.fails[:4]:
            rep.fail('R-DUAL', rel, sym, '%s:%s' % (slot, s2), 'the pair %s/%s is not dual: [%s] %s' % (a, b, rule, msg), line)
    elif not col.errors:
        rep.ok('R-DUAL', where, label, slot, 'both kernels meet the merge-step, influence-interval and emission contracts with opposite dominance (%d obligations)' % len(col.oks), None)


def laws(rep, label, sums, where, dense=False):
    X0, X1, ST = opref.X0, opref.X1, opref.ST
    mk = O.mk
    # p implies q == (not p) or q
    imp, orr, nt = sums.get('Implies'), sums.get('Disjunction'), sums.get('Neg')
    if imp and orr and nt and imp[0] == orr[0] == nt[0] == 'pointwise':
        def f(e):
            return nt[1] if e == X0 else None
        composed = ('pointwise', O.subst(orr[1], f))
        if imp == composed:
            rep.ok('R-LAW', where, label, 'implies=(not p) or q', O.show(imp), None)
        else:
            rep.fail('R-LAW', where, label, 'implies=(not p) or q', 'implies is %s but (not p) or q is %s' % (O.show(imp), O.show(composed)))
    elif imp is not None:
        rep.error('%s (%s): implies / or / not are not all in a summarised idiom -- the law implies = (not p) or q is undecided' % (where, label))
    # since / until expansion (discrete time)
    if not dense:
        for name, d, shiftname in (('Since', 'fwd', 's_prev'), ('Until', 'bwd', 's_next')):
            s = sums.get(name)
            if s is None:
                continue
            if s[0] == 'unknown':
                rep.error('%s (%s): the %s handler is not in a summarised idiom (%s) -- expansion law undecided' % (where, label, name.lower(), s[1]))
                continue
            want = ('scan', d, O.NINF, mk('max', [X1, mk('min', [X0, ST])]), 'out')
            # the law is stated inside one monitor: compose that monitor's own `or` and `and` (an `and` that computes something else breaks
            # the law although the since recursion itself is the textbook one)
            cj = sums.get('Conjunction')
            if cj and orr and cj[0] == orr[0] == 'pointwise':
                inner = O.subst(cj[1], lambda e: ST if e == X1 else None)
                tmp = ('x', 9, 0, None)
                outer = O.subst(O.subst(orr[1], lambda e: tmp if e == X1 else None), lambda e: X1 if e == X0 else None)
                outer = O.subst(outer, lambda e: inner if e == tmp else None)
                want = ('scan', d, O.NINF, outer, 'out')
            if s == want:
                rep.ok('R-LAW', where, label, '%s expansion' % name.lower(), 'out = q or (p and %s(self)), strong boundary' % shiftname, None)
            else:
                rep.fail('R-LAW', where, label, '%s expansion' % name.lower(), 'the %s recursion is %s, the expansion law needs %s' % (name.lower(), O.show(s), O.show(want)))


def dense_summaries(ix, rep, mons):
    """pointwise summaries of the dense-time Boolean operators (the intersect.<fn> bodies), for the implies law"""
    import ast
    out = {}
    for kind in ('dense-offline', 'dense-online'):
        modn = 'rtamt.semantics.stl.dense_time.%s.intersection' % kind.split('-')[1]
        m = ix.module(modn)
        fns = {}
        for name, f in m.functions.items():
            if len(f.node.args.args) == 2 and len(f.node.body) == 1 and isinstance(f.node.body[0], ast.Return):
                a, b = [x.arg for x in f.node.args.args]
                try:
                    fns[name] = O.Scalar({a: opref.X0, b: opref.X1}).ev(f.node.body[0].value)
                except O.Unknown:
                    pass
        sums = {}
        if 'implication' in fns:
            sums['Implies'] = ('pointwise', fns['implication'])
        if 'disjunction' in fns:
            sums['Disjunction'] = ('pointwise', fns['disjunction'])
        sums['Neg'] = ('pointwise', O.neg(opref.X0))
        out[kind] = sums
    return out
