"""C18  Temporal dualities and expansion laws hold in every monitor (mirror argument)."""
from sa.index import AnalysisError
from sa import dispatch as D, model as M, opsum as O
from sa.rules import mirror, opref, exh
from sa.props import c01, c02


def check(ix, rep):
    mons = {m.kind: m for m in M.standard_monitors(ix)}
    npairs = 0
    for kind in ('discrete-offline', 'dense-offline'):
        npairs += mirror.mirror_visitor_pairs(ix, rep, mons[kind])
    for kind in ('discrete-online', 'dense-online'):
        npairs += mirror.mirror_operation_pairs(ix, rep, mons[kind])
    npairs += mirror.unused_operation_pairs(ix, rep)
    rep.floor('mirror pairs compared', npairs, 13)
    # implies = or o (not x id); since/until expansion -- on the operator summaries
    q = c02._Quiet(rep)
    off = mons['discrete-offline']
    offsum, _ = c01.opsum_offline_discrete(ix, q, off)
    on = mons['discrete-online']
    onsum = {}
    for ncname, opc in exh.constructed_operations(ix, on).items():
        nf, _p = O.summarize_online_discrete(opc, ix)
        onsum[ncname] = nf
    for label, sums, where in (('discrete-offline', offsum, off.visitor.module.rel), ('discrete-online', onsum, on.visitor.module.rel)):
        laws(rep, label, sums, where)
    dsum = dense_summaries(ix, rep, mons)
    for label, sums in dsum.items():
        laws(rep, label, sums, mons[label].visitor.module.rel, dense=True)
    explanation = (
        'Duality by construction: for each of the pairs once/historically, eventually/always (untimed and bounded) in all four monitors -- '
        'visitor handlers, the helper functions they forward to, and the __init__/reset/update of the online operation classes -- the second '
        'partner must equal, after normalisation (dead pure locals and never-read attributes removed, commutative min/max arguments sorted, '
        'alpha-renaming), the dual image of the first: min<->max, +inf<->-inf, and order comparisons flipped exactly where an operand is a '
        'robustness value (small type inference over [time,value] pairs and (start,end,value) triples). This covers the sliding-window and '
        'deque implementations that the operator summaries do not. If hist = dual(once) syntactically then not once p == hist not p, because '
        'negation is an order-reversing involution commuting with selection. Expansion laws are read off the operator summaries: implies = '
        'max(neg l, r) = or o (not x id); since is the forward scan out = max(r, min(l, st)), st\' = out, init -inf, i.e. q or (p and s_prev(self)); '
        'until symmetrically backward.')
    assumptions = ['sufficient condition: a one-sided behaviour-preserving rewrite of one partner is reported as "mirror broken"',
                   'eventually[a,b] eventually[c,d] == eventually[a+c,b+d] is window arithmetic and not decided']
    return explanation, assumptions, 'one instance per mirror pair and method, per law and monitor', {'exhaustive': True}


def laws(rep, label, sums, where, dense=False):
    X0, X1, ST = opref.X0, opref.X1, opref.ST
    mk = O.mk
    # p implies q == (not p) or q
    imp, orr, nt = sums.get('Implies'), sums.get('Disjunction'), sums.get('Neg')
    if imp and orr and nt and imp[0] == orr[0] == nt[0] == 'pointwise':
        def f(e):
            return nt[1] if e == X0 else None
        composed = ('pointwise', O.subst(orr[1], f))
        if imp == composed:
            rep.ok('R-LAW', where, label, 'implies=(not p) or q', O.show(imp), None)
        else:
            rep.fail('R-LAW', where, label, 'implies=(not p) or q', 'implies is %s but (not p) or q is %s' % (O.show(imp), O.show(composed)))
    elif imp is not None:
        rep.undecided('R-LAW', where, label, 'implies=(not p) or q', 'operators not summarised')
    # since / until expansion (discrete time)
    if not dense:
        for name, d, shiftname in (('Since', 'fwd', 's_prev'), ('Until', 'bwd', 's_next')):
            s = sums.get(name)
            if s is None:
                continue
            want = ('scan', d, O.NINF, mk('max', [X1, mk('min', [X0, ST])]), 'out')
            if s == want:
                rep.ok('R-LAW', where, label, '%s expansion' % name.lower(), 'out = q or (p and %s(self)), strong boundary' % shiftname, None)
            else:
                rep.fail('R-LAW', where, label, '%s expansion' % name.lower(), 'the %s recursion is %s, the expansion law needs %s' % (name.lower(), O.show(s), O.show(want)))


def dense_summaries(ix, rep, mons):
    """pointwise summaries of the dense-time Boolean operators (the intersect.<fn> bodies), for the implies law"""
    import ast
    out = {}
    for kind in ('dense-offline', 'dense-online'):
        modn = 'rtamt.semantics.stl.dense_time.%s.intersection' % kind.split('-')[1]
        m = ix.module(modn)
        fns = {}
        for name, f in m.functions.items():
            if len(f.node.args.args) == 2 and len(f.node.body) == 1 and isinstance(f.node.body[0], ast.Return):
                a, b = [x.arg for x in f.node.args.args]
                try:
                    fns[name] = O.Scalar({a: opref.X0, b: opref.X1}).ev(f.node.body[0].value)
                except O.Unknown:
                    pass
        sums = {}
        if 'implication' in fns:
            sums['Implies'] = ('pointwise', fns['implication'])
        if 'disjunction' in fns:
            sums['Disjunction'] = ('pointwise', fns['disjunction'])
        sums['Neg'] = ('pointwise', O.neg(opref.X0))
        out[kind] = sums
    return out
