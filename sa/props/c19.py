"""C19  Dense-time and discrete-time interpretations agree on sampled step signals -- decided as agreement of two sibling implementations.

The property restricts specifications to arithmetic, comparisons, Boolean connectives, once / historically (bounded or not) and bounded
eventually / always, bounds to multiples of the sampling period p, and signals to step signals that change only at multiples of p.  Both
monitors are decided against their own reference semantics elsewhere (C01, C04); what C19 adds is that the two *implementations* denote
the same function on the grid, operator by operator:

R-GRID:pointwise   the value expression the dense handler computes per overlap (slot function of the merge kernel / per-sample loop /
                   comparison table over the difference) is the value expression of the discrete handler, as normal forms (E5), compared with
                   each other -- not with the reference table -- for every operator of the fragment; unbounded once/historically are the
                   same forward scan (same initial state, same step).
R-GRID:merge       the merge kernel emits, for two operands, f(left, right) on every overlap of positive length at the later of the two
                   starts (R-ORD over the 13 orderings): on signals that change only at grid points every grid point is the start of an overlap
                   or lies inside one, so the dense value at k*p is f of the operands' values at k*p.
R-GRID:window      the influence interval the dense kernel builds for sample k, *as extracted from the code* (start and end in affine normal form over
                   T[k], T[k+1], begin, end), restricted to grid points t = i*p with T[k] = k*p, begin = a*p, end = b*p, holds exactly the i with
                   k - i in [lo, hi], the index window of the discrete operator (its derived window equals the reference window: R-WINDOW).  Both
                   implications by linear arithmetic; half-open influence intervals (a sample emitted at the segment start, held until the next:
                   R-SEGOUT) against closed index windows is where an off-by-one between the two would show.  The unbounded interval of the last
                   sample agrees on the region the property quantifies over (i <= n-1 for past, i + b <= n-1 for future operators); the filler
                   segment of the past operators is the discrete fill, which is the neutral element of the reduction.
R-GRID:units       the bound the dense monitor uses equals (the number of samples the discrete monitor uses) * (the period in the unit of the
                   time-stamps), as exact rational functions over b, e, period and the unit table, in all four cases of which bound carries a
                   unit: a grid-aligned bound is the same duration in both.
plus, re-run on the dense side because the interval forms only describe the function if they hold: R-SEGSTEP (merge step of the segment stack),
R-SEGOUT (one sample per value change at the segment start), R-FORWARD (handler -> kernel with converted bounds in order).
"""
import ast

from sa.index import AnalysisError
from sa import dispatch as D, model as M, opsum as O, window as W, alg
from sa.rules import densesum, opref, ordkernel, units, windowrule
from sa.rules import stackstep as SS
from sa.props.c18 import _Collect

FRAGMENT_POINTWISE = ('Abs', 'Sqrt', 'Exp', 'Ln', 'Negate', 'Pow', 'Log', 'Addition', 'Subtraction', 'Multiplication', 'Division',
                      'Neg', 'Conjunction', 'Disjunction', 'Implies', 'Iff', 'Xor')
FRAGMENT_SCAN = ('Once', 'Historically')
FRAGMENT_BOUNDED = {'TimedOnce': 'once', 'TimedHistorically': 'historically', 'TimedEventually': 'eventually', 'TimedAlways': 'always'}
KERNEL = 'rtamt.semantics.stl.dense_time.offline.intersection'


def _norm_table_on_difference(tbl):
    """dense comparison table is written over d = left - right: express it over the operands"""
    d = O.mk('sub', [opref.X0, opref.X1])
    out = {}
    for k, v in dict(tbl).items():
        if v == O.neg(d):
            v = O.mk('sub', [opref.X1, opref.X0])
        out[k] = v
    return ('table', tuple(sorted(out.items())))


def _grid_aff(lin, kaff):
    """affine form of an extracted segment bound on the unit grid: T[idx] -> idx (sample index), begin -> a, end -> b"""
    a = W.Aff.const(0)
    for key, v in lin.items():
        if key == 1:
            a = a + W.Aff.const(v)
        elif key == 'begin':
            a = a + W.Aff.sym('a').scale(v)
        elif key == 'end':
            a = a + W.Aff.sym('b').scale(v)
        elif isinstance(key, tuple) and key[0] == 'T':
            a = a + SS._key_aff(key[1]).scale(v)
        elif key == 'inf':
            return None
        else:
            raise AnalysisError('segment bound over %r' % (key,))
    return a


def check(ix, rep):
    from sa.rules import round11 as _r11
    rep.floor('functions of the monitors scanned for rounded bounds', _r11.check_no_rounding(ix, rep), 50)
    mons = {m.kind: m for m in M.standard_monitors(ix)}
    disc, dense = mons['discrete-offline'], mons['dense-offline']
    dd, dn = D.dispatch_of(ix, disc.cls), D.dispatch_of(ix, dense.cls)
    # ---------------------------------------------------------------- pointwise operators and the untimed past scans
    npw = 0
    for nc in D.node_classes(ix):
        if nc.name not in FRAGMENT_POINTWISE + FRAGMENT_SCAN + ('Predicate',):
            continue
        fs = []
        for mon, d in ((disc, dd), (dense, dn)):
            meth, _ = d.method_for(nc, ix)
            cat, info, f = D.classify(ix, mon.cls, meth) if meth else ('missing', None, None)
            if cat != 'compute':
                raise AnalysisError('%s: %s has no computing handler for %s' % (mon.label, mon.cls.name, nc.name))
            fs.append(f)
        fd, fn_ = fs
        rep.analysed(fd)
        rep.analysed(fn_)
        rep.unit(fd.module.rel)
        rep.unit(fn_.module.rel)
        nfd, _p = O.summarize_offline_discrete(fd.node)
        if nc.name == 'Predicate':
            nfn, _p2 = densesum.predicate_table_offline(ix, fn_)
            if nfn[0] == 'pointwise' and isinstance(nfn[1], tuple) and nfn[1] and nfn[1][0] == 'table':
                nfn = ('pointwise', _norm_table_on_difference(nfn[1][1]))
        else:
            nfn, _p2, _trail = densesum.summarize_offline_handler(ix, fn_)
        for nf, f in ((nfd, fd), (nfn, fn_)):
            if nf[0] == 'unknown':
                raise AnalysisError('%s (%s): handler of %s is not in a summarised idiom (%s)' % (f.where, f.qual, nc.name, nf[1]))
        npw += 1
        kind = 'scan' if nc.name in FRAGMENT_SCAN else 'pointwise'
        slot = 'grid:%s:%s' % (kind, nc.name)
        if nfd == nfn:
            rep.ok('R-GRID', fn_.module.rel, '%s~%s' % (fd.qual, fn_.qual), slot, '%s in both' % opref.describe(nfd), fn_.node.lineno)
        else:
            rep.fail('R-GRID', fn_.module.rel, '%s~%s' % (fd.qual, fn_.qual), slot, 'the discrete-time handler computes %s, the dense-time handler %s (%s): the two monitors give '
                     'different values for the same sampled signal at every sampling instant where the operands make the difference visible'
                     % (opref.describe(nfd), opref.describe(nfn), opref.diff(nfn, nfd)), fn_.node.lineno)
    rep.floor('pointwise operators and scans compared between the two monitors', npw, 20)
    # ---------------------------------------------------------------- the binary merge on the grid
    col = _Collect(rep)
    nord, narms, used = ordkernel.check_kernel(ix, col, KERNEL)
    ordkernel.check_finitary(ix, col, KERNEL)
    ordkernel.check_append_helper(ix, col, KERNEL)
    for e in col.errors:
        rep.error(e)
    km = ix.module(KERNEL)
    rep.unit(km.rel)
    if col.fails:
        for (rule, rel, sym, s2, msg, line) in col.fails[:3]:
            rep.fail('R-GRID', rel, sym, 'grid:merge:%s' % s2, 'the merge of two operands is not f(left, right) at the later start of every overlap: [%s] %s' % (rule, msg), line)
    else:
        rep.ok('R-GRID', km.rel, 'intersection', 'grid:merge', '%d orderings, %d branches: f(left, right) on every overlap, emitted at the later start' % (nord, narms))
    rep.floor('orderings of the merge kernel', nord, 13)
    # ---------------------------------------------------------------- bounded operators: influence interval on the grid = index window
    mm = ix.module('rtamt.semantics.stl.dense_time.offline.ast_visitor')
    colw = _Collect(rep)
    windowrule.check_offline(ix, colw, disc, which=('R-WINDOW',))
    for e in colw.errors:
        rep.error(e)
    nb = 0
    i_ev = W.Aff.sym('I')     # the evaluated sample index
    base = [W.Aff.sym('a'), W.Aff.sym('b') - W.Aff.sym('a'), W.Aff.sym('n') - W.Aff.const(1), i_ev, W.Aff.sym('n') - W.Aff.const(1) - i_ev]
    for nname, opn in sorted(FRAGMENT_BOUNDED.items()):
        kf = mm.functions.get(opn + '_timed_operation')
        if kf is None:
            raise AnalysisError('kernel %s_timed_operation vanished' % opn)
        rep.analysed(kf)
        rep.unit(kf.module.rel)
        past = opn in ('once', 'historically')
        ref = W.reference(nname)
        rop, lo, hi, leaf = ref[1], ref[3], ref[4], ref[5]
        fill = leaf[3] if past else leaf[4]
        slot = 'grid:window:%s' % nname
        # the discrete window is the reference one
        wf = [x for x in colw.fails if x[3].endswith(':' + nname)]
        for (rule, rel, sym, s2, msg, line) in wf[:2]:
            rep.fail('R-GRID', rel, sym, slot + ':discrete', 'the discrete-time window is not the reference window the dense kernel is compared with: %s' % msg, line)
        # the dense kernel: step, output and the extracted interval forms
        cold = _Collect(rep)
        forms = []
        SS.check_build(ix, cold, kf, opn, slot_prefix='dense-offline:', forms_out=forms)
        SS.check_function(ix, cold, kf, opn, slot_prefix='dense-offline:')
        SS.check_output(ix, cold, kf, opn, slot_prefix='dense-offline:')
        for e in cold.errors:
            rep.error(e)
        if cold.errors:
            continue        # the kernel is not in a form the reader interprets: what it extracted is partial, no verdict on the grid clause
        segs = [f_ for f_ in forms if f_['kind'] == 'segment']
        if not segs:
            raise AnalysisError('%s: no influence interval extracted' % kf.where)
        problems = []
        nchecked = 0
        for sg in segs:
            k = sg['k']
            u = k - i_ev
            start = _grid_aff(sg['start'], k)
            end = _grid_aff(sg['end'], k)
            if start is None:
                problems.append(('an influence interval starts at infinity', sg['line']))
                continue
            inside = [i_ev - start] + ([] if end is None else [end - W.Aff.const(1) - i_ev])      # start <= I < end  (half-open, integers)
            facts = list(base) + [k, W.Aff.sym('n') - W.Aff.const(1) - k]
            if end is None:
                # the held last sample: k = n-1; compare on the region the property quantifies over
                facts += [k - W.Aff.sym('n') + W.Aff.const(1)]
                if not past:
                    facts += [W.Aff.sym('n') - W.Aff.const(1) - i_ev - W.Aff.sym('b')]
            window = [u - lo, hi - u]
            nchecked += 1
            for g in window:
                if not W.entails(facts + inside, g):
                    problems.append(('sample k influences the dense value at grid point I although k - I lies outside the index window [%r, %r] of the discrete operator '
                                     '(interval [%s, %s) built at line %d)' % (lo, hi, start, end if end is not None else 'inf', sg['line']), sg['line']))
                    break
            else:
                for g in inside:
                    if not W.entails(facts + window, g):
                        problems.append(('sample k lies in the index window [%r, %r] of grid point I but its influence interval [%s, %s) does not contain I: the dense monitor '
                                         'misses a sample the discrete one reads' % (lo, hi, start, end if end is not None else 'inf'), sg['line']))
                        break
        fl = [f_ for f_ in forms if f_['kind'] == 'filler']
        if past:
            if not fl:
                problems.append(('no filler segment: before T[0] + begin the dense result is undefined where the discrete one is the fill value', kf.node.lineno))
            for f_ in fl:
                st, en = _grid_aff(f_['start'], None), _grid_aff(f_['end'], None)
                val = f_['value']
                want_sign = -1 if fill == W.NINF else 1
                if val != {'inf': want_sign}:
                    problems.append(('the filler value is not the fill value %s of the discrete window' % W.show(fill), f_['line']))
                # grid points covered by the filler = evaluation points whose whole window lies before the trace: I + hi < 0  (T[0] = 0 on the grid)
                if st is None or en is None:
                    problems.append(('the filler segment is unbounded', f_['line']))
                    continue
                before = [-(i_ev + hi) - W.Aff.const(1)]
                covered = [i_ev - st, en - W.Aff.const(1) - i_ev]
                if not all(W.entails(base + covered, g) for g in before) or not all(W.entails(base + before, g) for g in covered):
                    problems.append(('the filler segment covers the grid points of [%s, %s), the evaluation points whose index window lies wholly before the trace are those with '
                                     'I + (%r) < 0' % (st, en, hi), f_['line']))
        # fill is the neutral element of the reduction, and the kernel reduces with the same operator
        if fill != W.NEUTRAL[rop]:
            problems.append(('the fill value %s of the discrete window is not neutral for %s' % (W.show(fill), rop), kf.node.lineno))
        if (opn in SS.MAXOPS) != (rop == 'max'):
            problems.append(('the dense kernel keeps the %s, the discrete window reduces with %s' % ('maximum' if opn in SS.MAXOPS else 'minimum', rop), kf.node.lineno))
        for (rule, rel, sym, s2, msg, line) in cold.fails[:3]:
            problems.append(('[%s] %s' % (rule, msg), line))
        nb += 1
        if problems:
            seen = set()
            for msg, line in problems:
                if msg in seen:
                    continue
                seen.add(msg)
                rep.fail('R-GRID', kf.module.rel, kf.qual, slot, '%s: on grid-aligned signals and bounds %s[a,b] of the two monitors differ: %s' % (nname, opn, msg), line)
        else:
            rep.ok('R-GRID', kf.module.rel, kf.qual, slot, '%d extracted influence interval forms, restricted to the grid, are the index window [%r, %r]; filler = fill = neutral of %s'
                   % (nchecked, lo, hi, rop), kf.node.lineno)
    rep.floor('bounded operators compared on the grid', nb, 4)
    from sa.rules import truthy as _truthy
    nex = _truthy.check_exact_comparisons(ix, rep)
    rep.floor('modules scanned for comparisons up to a tolerance', nex, 100)
    # a dense result that loses its first sample is undefined at grid point 0 (and wherever an enclosing operator reads it)
    allf = list(mm.functions.values()) + [g for c in mm.classes.values() for g in c.methods.values()]
    nfs = densesum.check_first_sample(ix, rep, allf, 'dense-offline')
    rep.floor('compressing output loops', nfs, 6)
    # handlers hand the converted bounds to their kernels
    for nn in sorted(FRAGMENT_BOUNDED):
        meth, _ = dn.method_for([c for c in D.node_classes(ix) if c.name == nn][0], ix)
        cat, info, hf = D.classify(ix, dense.cls, meth)
        if cat == 'compute':
            SS.check_forward(ix, rep, dense.cls, hf, nn)
    # ---------------------------------------------------------------- units: the same duration
    dti = ix.find_class('rtamt.semantics.discrete_time_interpreter', 'DiscreteTimeInterpreter')
    dni = ix.find_class('rtamt.semantics.dense_time_interpreter', 'DenseTimeInterpreter')
    fdisc, fdense = dti.methods.get('time_unit_transformer'), dni.methods.get('time_unit_transformer')
    if fdisc is None or fdense is None:
        raise AnalysisError('time_unit_transformer vanished')
    rep.analysed(fdisc)
    rep.analysed(fdense)
    nu = 0
    period = alg.RatFun.sym('period') * alg.RatFun.sym('U[P]') / alg.RatFun.sym('U[D]')
    for b_empty in (False, True):
        for e_empty in (False, True):
            r1 = units.TransformerRun(fdisc, b_empty, e_empty, ix=ix).run()
            r2 = units.TransformerRun(fdense, b_empty, e_empty, ix=ix).run()
            case = 'begin_unit=%s,end_unit=%s' % ('absent' if b_empty else 'present', 'absent' if e_empty else 'present')
            if r1.ret is None or r2.ret is None:
                raise AnalysisError('transformer returns no pair under %s' % case)
            for idx, which in enumerate(('begin', 'end')):
                nu += 1
                slot = 'grid:units:%s:%s' % (case, which)
                if r2.ret[idx].same(r1.ret[idx] * period):
                    rep.ok('R-GRID', fdense.module.rel, '%s~%s' % (fdisc.qual, fdense.qual), slot, 'dense bound = samples * period (in the unit of the time-stamps)', fdense.node.lineno)
                else:
                    rep.fail('R-GRID', fdense.module.rel, '%s~%s' % (fdisc.qual, fdense.qual), slot, 'with %s the dense monitor uses %r as the %s bound, the discrete one %r samples of '
                             'period*U[period unit]/U[default unit]: not the same duration' % (case, r2.ret[idx], which, r1.ret[idx]), fdense.node.lineno)
    rep.floor('unit cases compared between the two transformers', nu, 8)
    # a conversion that remembers its answers must forget them when the period changes (R-CACHE; no memo on today's tree)
    from sa.rules import memo
    if not memo.self_test():
        raise AnalysisError('R-CACHE self-test: the memo idiom is not recognised')
    memo.check_converters(ix, rep)
    # the samples computed with are the samples supplied (no conversion of the elements on entry)
    from sa.rules import truthy as _te
    _ne = 0
    for _m in M.standard_monitors(ix):
        if _m.mode == 'offline':
            _de = ix.resolve_method(_m.cls, 'set_variable_to_ast_from_dataset')
            if _de is None:
                raise AnalysisError('set_variable_to_ast_from_dataset of %s vanished' % _m.kind)
            rep.analysed(_de)
            _ne += _te.check_entry_verbatim(ix, rep, _de, _m.kind)
    rep.floor('data-entry stores', _ne, 2)
    rep.floor('specification wrappers handing the data on', _te.check_wrapper_verbatim(ix, rep), 2)
    # the two monitors are fed the same lists: neither may write into what it was handed (an operand overwritten in place is read changed by
    # the next operator of the same formula)
    from sa.rules import ownrule as _own
    _nown = _own.run(ix, rep)
    rep.floor('functions in the ownership analysis', _nown, 250)
    # each specification has an interpreter of its own (no caching decorator on the factories, no shared state in the offline modules compared here)
    from sa.rules import globals as _G19
    _G19.fixture_selfcheck(rep)
    rep.floor('offline modules scanned for shared state', _G19.run_global(ix, rep, prefix='rtamt.semantics.stl.dense_time.offline') + _G19.run_global(ix, rep, prefix='rtamt.semantics.abstract_dense_time_offline')
              + _G19.run_global(ix, rep, prefix='rtamt.semantics.stl.discrete_time.offline') + _G19.run_global(ix, rep, prefix='rtamt.semantics.abstract_discrete_time_offline'), 5)
    explanation = __doc__.split('\n\n', 1)[1].strip().replace('\n', ' ')
    assumptions = ['the time-stamp of sample k is k * period, expressed in the default unit of the specification (premise of the property)',
                   'hand lemma: nesting -- on grid-aligned inputs every break-point of a dense result is T[k] +- a bound, again a grid point, so the argument composes',
                   'hand lemma: the stack invariant of the sliding-window kernels (C04); that each side equals its reference semantics is C01 / C04',
                   'region: past operators at every sampling instant, future operators at instants t with t + b inside the trace (the property\'s restriction)']
    return explanation, assumptions, 'one instance per operator of the fragment (pointwise / scan / bounded), per unit case and bound, plus the merge kernel', {'exhaustive': True}
