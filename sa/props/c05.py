"""C05  Dense-time online output does not depend on chunking (claimed for the carry-over structure only)."""
import ast

from sa.index import AnalysisError, ClassInfo
from sa import dispatch as D, model as M, opsum as O, norm
from sa import effects as E
from sa.rules import exh, opref, ordkernel, densesum, mirror

ON_KERNEL = 'rtamt.semantics.stl.dense_time.online.intersection'
SLOT_OF = {'Conjunction': 'conjunction', 'Disjunction': 'disjunction', 'Implies': 'implication', 'Iff': 'iff', 'Xor': 'xor',
           'Addition': 'addition', 'Subtraction': 'subtraction', 'Multiplication': 'multiplication', 'Division': 'division',
           'Pow': 'power', 'Log': 'log'}


def check(ix, rep):
    from sa.rules import round11 as _r11
    rep.floor('assignments of the closing sample in the online merge kernel', _r11.check_closing_sample_shape(ix, rep), 20)
    rep.floor('dense-time online operations that remember their frontier', _r11.check_seam(ix, rep), 2)
    rep.floor('calls of set_ast inside the interpreter classes', _r11.check_set_ast_callers(ix, rep), 1)
    rep.floor('sites that clear the ast-installed flag', _r11.check_set_ast_flag_writers(ix, rep), 1)
    mon = {m.kind: m for m in M.standard_monitors(ix)}['dense-online']
    ops = exh.constructed_operations(ix, mon)
    # 0. every operation is stepped exactly once per update: a second step appends the same chunk twice to its buffers
    from sa.rules import step
    step.check_step(ix, rep, mon)
    # 0a. a batch is consumed once: the input table is emptied between two updates, so a variable left out of the next
    #     update() contributes no samples instead of replaying its previous batch
    from sa import flow
    for meth in ('update', 'update_final'):
        uf = ix.resolve_method(mon.cls, meth)
        if uf is None:
            continue
        rep.analysed(uf)
        cfg = flow.CFG(uf.node)
        dom = cfg.dominators()

        def clears(s_, dn):
            if not (isinstance(s_, ast.Assign) and any(ast.unparse(t).endswith('var_object_dict') for t in s_.targets)):
                return False
            v = s_.value
            if isinstance(v, ast.Call) and isinstance(v.func, ast.Attribute) and v.func.attr == 'fromkeys' and len(v.args) == 2 \
                    and isinstance(v.args[1], ast.List) and not v.args[1].elts:
                return True
            if isinstance(v, ast.DictComp) and isinstance(v.value, ast.List) and not v.value.elts:
                return True
            return False
        rets = [r for r in ast.walk(uf.node) if isinstance(r, ast.Return)]
        bad = [r for r in rets if not flow.dominated_by(cfg, dom, r, clears)]
        slot = 'dense-online:input-table:%s' % meth
        if rets and not bad:
            rep.ok('R-STATE', uf.module.rel, uf.qual, slot, 'every return is dominated by re-initialising the input table with empty sample lists', uf.node.lineno)
        else:
            rep.fail('R-STATE', uf.module.rel, uf.qual, slot, '%s() returns without emptying ast.var_object_dict: a variable that is left out of the next update (legal: it has no new '
                     'samples) is fed its previous batch again, so the output depends on how the input was split into updates' % meth, (bad[0].lineno if bad else uf.node.lineno))
    # 0b. no operation mutates or keeps an alias of a list it was handed: the same batch reaches several consumers
    from sa.rules import ownrule
    ownrule.run(ix, rep)
    # 1. sibling uniformity of the binary operations
    for nc, c in sorted(ops.items()):
        if '.dense_time.' not in c.module.name:
            rep.fail('R-LAYER', mon.visitor.module.rel, mon.visitor.name, 'dense-online:%s' % nc,
                     'the dense-time online visitor builds %s from %s (discrete time): it cannot buffer sample lists between updates' % (c.name, c.module.name))
    ops = dict((k, v) for k, v in ops.items() if '.dense_time.' in v.module.name)
    fam = [(nc, ops[nc]) for nc in sorted(SLOT_OF) if nc in ops]
    rep.floor('binary dense-time online operations', len(fam), 11)
    ref_nc, ref_cls = fam[0]
    forms = {}
    for nc, c in fam:
        drop = mirror.unread_self_attrs(ix, c) | mirror.compression_only_attrs(c)
        for meth in ('__init__', 'update'):
            f = c.methods.get(meth)
            if f is None:
                rep.fail('R-SIB', c.module.rel, c.name, '%s:%s' % (nc, meth), 'method missing', c.node.lineno)
                continue
            rep.analysed(f)
            rep.unit(f.module.rel)
            dump, text, slots = norm.normal_form(f.node, drop_self_attrs=drop, abstract_slot=True, sort_init=(meth == '__init__'))
            forms[(nc, meth)] = (dump, text, slots, f)
    # majority form per method is the reference (confirmed on the pinned tree: all eleven agree)
    for meth in ('__init__', 'update'):
        counts = {}
        for (nc, m), (dump, text, slots, f) in forms.items():
            if m == meth:
                counts.setdefault(dump, []).append(nc)
        best = max(counts.values(), key=len)
        ref = forms[(best[0], meth)]
        for (nc, m), (dump, text, slots, f) in sorted(forms.items()):
            if m != meth:
                continue
            c = ops[nc]
            if dump == ref[0]:
                rep.ok('R-SIB', f.module.rel, '%s.%s' % (c.name, meth), 'sibling:%s' % nc, 'identical to its %d siblings up to the kernel function' % (len(best) - 1), f.node.lineno)
            else:
                diff = norm.text_diff(ref[1], text)
                rep.fail('R-SIB', f.module.rel, '%s.%s' % (c.name, meth), 'sibling:%s' % nc,
                         '%s.%s differs from its siblings (%s ...) beyond the kernel function: a buffer that is not extended, a remainder that is '
                         'not stored back or a boundary sample handled differently makes the result depend on chunking; differences: %s'
                         % (c.name, meth, ', '.join(best[:3]), ' | '.join(diff[:6])), f.node.lineno, {'diff': diff})
            if meth == 'update':
                want = SLOT_OF[nc]
                if slots == [want]:
                    rep.ok('R-SIB', f.module.rel, '%s.update' % c.name, 'slot:%s' % nc, 'kernel function intersect.%s' % want, f.node.lineno)
                else:
                    rep.fail('R-SIB', f.module.rel, '%s.update' % c.name, 'slot:%s' % nc, 'operation for %s merges with intersect.%s, expected intersect.%s'
                             % (nc, '/'.join(slots) or '?', want), f.node.lineno)
    # the reference form itself: both buffers extended, both remainders stored back
    rf = ops[ref_nc].methods['update']
    ef = E.method_effects(rf.node)
    src = ast.unparse(rf.node)
    p = [a.arg for a in rf.node.args.args[1:3]]
    need = ['self.%s_buf = self.%s_buf + %s' % (p[0], p[0], p[0]), 'self.%s_buf = self.%s_buf + %s' % (p[1], p[1], p[1])]
    ks = densesum.kernel_slot(ix, rf)
    stored_back = False
    if ks is not None:
        call = ks[3]
        for st in rf.node.body:
            if isinstance(st, ast.Assign) and st.value is call and isinstance(st.targets[0], ast.Tuple) and len(st.targets[0].elts) == 4:
                l, r = st.targets[0].elts[2].id, st.targets[0].elts[3].id
                a1 = 'self.%s_buf = %s' % (p[0], l)
                a2 = 'self.%s_buf = %s' % (p[1], r)
                stored_back = a1 in src and a2 in src
    if all(n in src for n in need) and stored_back:
        rep.ok('R-SIB', rf.module.rel, '%s.update' % ops[ref_nc].name, 'carry-over', 'both operand buffers are extended with the new batch and both remainders returned by the kernel are stored back', rf.node.lineno)
    else:
        rep.fail('R-SIB', rf.module.rel, '%s.update' % ops[ref_nc].name, 'carry-over', 'the reference binary operation does not extend both buffers and store both remainders back', rf.node.lineno)
    # 2. the online merge kernel
    nord, narms, used = ordkernel.check_kernel(ix, rep, ON_KERNEL)
    ordkernel.check_append_helper(ix, rep, ON_KERNEL)
    rep.floor('orderings of the four segment ends', nord, 13)
    # slot functions have the reference meaning
    decided = 0
    for nc, c in fam:
        nf, partial, trail = densesum.summarize_online_operation(ix, c)
        want = opref.DENSE.get(nc)
        f = c.methods['update']
        if nf[0] == 'unknown':
            rep.error('%s: %s.update no longer summarised (%s)' % (f.where, c.name, nf[1]))
            continue
        decided += 1
        if nf == want:
            rep.ok('R-OPSUM', f.module.rel, '%s.update' % c.name, 'dense-online:%s' % nc, '%s [%s]' % (opref.describe(nf), trail), f.node.lineno)
        else:
            rep.fail('R-OPSUM', f.module.rel, '%s.update' % c.name, 'dense-online:%s' % nc, 'operator %s: %s' % (nc, opref.diff(nf, want)), f.node.lineno)
    # 3. unary pointwise operations are stateless: chunk boundaries cannot matter for them
    for nc in ('Abs', 'Sqrt', 'Exp', 'Ln', 'Neg', 'Negate'):
        c = ops.get(nc)
        if c is None:
            continue
        f = c.methods['update']
        rep.analysed(f)
        ef = E.method_effects(f.node)
        nf, partial, trail = densesum.summarize_online_operation(ix, c)
        want = opref.DENSE.get(nc)
        if ef.written_attrs():
            rep.fail('R-PURE', f.module.rel, '%s.update' % c.name, 'stateless:%s' % nc, 'pointwise operation keeps state %s between updates' % sorted(ef.written_attrs()), f.node.lineno)
        else:
            rep.ok('R-PURE', f.module.rel, '%s.update' % c.name, 'stateless:%s' % nc, 'update() writes no attribute', f.node.lineno)
        decided += 1
        if nf == want:
            rep.ok('R-OPSUM', f.module.rel, '%s.update' % c.name, 'dense-online:%s' % nc, opref.describe(nf), f.node.lineno)
        else:
            rep.fail('R-OPSUM', f.module.rel, '%s.update' % c.name, 'dense-online:%s' % nc, 'operator %s: %s' % (nc, opref.diff(nf, want) if nf[0] != 'unknown' else nf[1]), f.node.lineno)
        if partial and nc not in opref.PARTIAL:
            rep.fail('R-PARTIAL', f.module.rel, '%s.update' % c.name, 'dense-online:%s' % nc, 'total operator raises under `%s`' % partial, f.node.lineno)
    # once / historically untimed: scan whose state persists across updates (that is what makes them chunk-independent)
    for nc in ('Once', 'Historically'):
        c = ops.get(nc)
        nf, partial, trail = densesum.summarize_online_operation(ix, c)
        want = opref.DENSE.get(nc)
        f = c.methods['update']
        decided += 1
        if nf == want:
            rep.ok('R-OPSUM', f.module.rel, '%s.update' % c.name, 'dense-online:%s' % nc, opref.describe(nf) + ' (state kept in self between chunks)', f.node.lineno)
        else:
            rep.fail('R-OPSUM', f.module.rel, '%s.update' % c.name, 'dense-online:%s' % nc, 'operator %s: %s' % (nc, opref.diff(nf, want) if nf[0] != 'unknown' else nf[1]), f.node.lineno)
    rep.floor('dense online operators summarised', decided, 18)
    # 3b. leaves and the comparison table
    # constants: the signal [[0, v], [inf, v]] already extends to infinity, so it may reach the operand buffers only once -- with the first update
    um = ix.module('rtamt.semantics.abstract_dense_time_online_interpreter')
    uv = um.classes.get('DenseTimeOnlineUpdateVisitor')
    f = uv.methods.get('visitConstant') if uv is not None else None
    if f is None:
        rep.error('DenseTimeOnlineUpdateVisitor.visitConstant vanished')
    else:
        rep.analysed(f)
        slot = 'dense-online:Constant'
        rets = [r for r in ast.walk(f.node) if isinstance(r, ast.Return) and r.value is not None]
        builds = [n for n in ast.walk(f.node) if isinstance(n, ast.List) and n.elts and all(isinstance(e, ast.List) and len(e.elts) == 2 for e in n.elts)]
        delegates = [c for c in ast.walk(f.node) if isinstance(c, ast.Call) and isinstance(c.func, ast.Attribute) and c.func.attr == 'update'
                     and 'online_operator_dict[%s.name]' % f.node.args.args[1].arg in ast.unparse(c.func.value).replace(' ', '')]
        cop = ops.get('Constant')
        if builds and not delegates:
            rep.fail('R-STATE', f.module.rel, f.qual, slot, 'the update visitor builds the constant signal %s on every update: from the second update on, binary operations append a sample at '
                     'time 0 behind their buffered [inf, v] -- time-stamps go backwards (`out = (2.0 + 1.0) <= a` fed in two updates raises "Unexpected case in the intersection", in one '
                     'update it does not)' % ast.unparse(builds[0]), builds[0].lineno)
        elif delegates and cop is not None:
            g = cop.methods.get('update')
            rep.analysed(g)
            densesum.check_constant_leaf(rep, g, 'self.val', slot)
            # emitted under a flag that the emitting branch clears; nothing afterwards
            ok = False
            for st in ast.walk(g.node):
                if isinstance(st, ast.If) and isinstance(st.test, ast.Attribute) and isinstance(st.test.value, ast.Name) and st.test.value.id == 'self':
                    flag = st.test.attr
                    emits = any(isinstance(n, ast.List) and n.elts and isinstance(n.elts[0], ast.List) for s2 in st.body for n in ast.walk(s2))
                    clears = any(isinstance(s2, ast.Assign) and ast.unparse(s2.targets[0]) == 'self.%s' % flag and isinstance(s2.value, ast.Constant) and s2.value.value is False for s2 in st.body)
                    empty_else = any(isinstance(n, (ast.List, ast.Call)) and ast.unparse(n) in ('[]', 'list()') for s2 in st.orelse for n in ast.walk(s2))
                    if emits and clears and empty_else:
                        ok = True
            if ok:
                rep.ok('R-STATE', g.module.rel, g.qual, slot + ':once', 'the constant signal is handed over with the first update only (flag cleared in the emitting branch, [] afterwards)', g.node.lineno)
            else:
                rep.fail('R-STATE', g.module.rel, g.qual, slot + ':once', 'the constant operation does not stop emitting its signal after the first update', g.node.lineno)
        else:
            rep.error('%s (%s): constant leaf of the dense online update visitor is in no recognised form' % (f.where, f.qual))
    c = ops.get('Predicate')
    if c is not None:
        from sa.props import c07 as _c07, c04 as _c04
        f = c.methods['update']
        rep.analysed(f)
        nf = _c07._dense_online_predicate(ix, c)
        want = ('pointwise', _c04._pred_on_difference())
        if nf == want:
            rep.ok('R-OPSUM', f.module.rel, '%s.update' % c.name, 'dense-online:Predicate', 'comparison table over left - right', f.node.lineno)
        elif nf[0] == 'unknown':
            rep.error('%s (%s.update): predicate no longer in a summarised idiom (%s)' % (f.where, c.name, nf[1]))
        else:
            rep.fail('R-OPSUM', f.module.rel, '%s.update' % c.name, 'dense-online:Predicate', 'the comparison table is %s; the semantics is %s'
                     % (opref.describe(nf), opref.describe(want)), f.node.lineno)
    # 4. the sliding-window kernels of once[a,b] / historically[a,b]: merge step over the order domain, influence interval
    from sa.rules import stackstep as SS
    nst = 0
    ncar = 0
    for nc, opn in (('TimedOnce', 'once'), ('TimedHistorically', 'historically')):
        c = ops.get(nc)
        if c is None:
            rep.error('dense-time online operation of %s vanished' % nc)
            continue
        f = c.methods['update']
        rep.analysed(f)
        nst += SS.check_function(ix, rep, f, opn, slot_prefix='dense-online:')
        SS.check_build(ix, rep, f, opn, online=True, slot_prefix='dense-online:')
        ncar += SS.check_carry(ix, rep, f, opn, slot_prefix='dense-online:')
        SS.check_patchup(ix, rep, f, opn, slot_prefix='dense-online:')
    rep.floor('abstract states of the online sliding-window merge step', nst, 36)
    rep.floor('abstract states of the emit / carry-over split', ncar, 40)
    c = ops.get('TimedSince')
    if c is not None:
        rep.analysed(c.methods['update'])
        SS.check_compose_online(ix, rep, c)
    nrem = ordkernel.check_remainder(ix, rep, ON_KERNEL)
    rep.floor('orderings of the remainder loops of the online kernel', nrem, 10)
    c = ops.get('Since')
    if c is not None:
        ns = ordkernel.check_since_online(ix, rep, c)
        rep.floor('orderings of the untimed since merge', ns, 13)
    # composite operations step their parts on every path
    from sa.rules import step as _step
    nns = _step.check_nested_steps(ix, rep, M.operation_classes(ix, 'dense'), 'dense-online')
    rep.floor('sub-operations of composite dense-time online operations', nns, 4)
    # operators of two monitors, or of two sub-formulas, share nothing: no operation object in a class body, no module-level state
    from sa.rules import globals as _G
    _G.fixture_selfcheck(rep)
    ngl = _G.run_global(ix, rep, prefix='rtamt.semantics.stl.dense_time') + _G.run_global(ix, rep, prefix='rtamt.semantics.arithmetic.dense_time')
    rep.floor('dense-time modules scanned for shared operation state', ngl, 30)
    # pastify() of a past formula is the identity only if the bounds it rebuilds are the written ones: each bound converted with its own unit
    # (else the other bound's, else the default) by the normalisers the pastifier and the horizon use
    from sa.rules import units as _u2, unitflow as _uf2
    _pc = ix.find_class('rtamt.pastifier.stl.pastifier', 'StlPastifier')
    _hc = ix.find_class('rtamt.pastifier.stl.horizon', 'StlHorizon')
    _norms = {}
    for _c in (_pc, _hc):
        if _c is None:
            raise AnalysisError('pastifier / horizon class vanished')
        for _f in _c.methods.values():
            for _nf in _uf2.normalisers_used(ix, _c, _f):
                _norms[id(_nf)] = _nf
    for _nf in _norms.values():
        _u2.check_transformer(ix, rep, None, None, 'dense', func=_nf)
    rep.floor('bound normalisers of the pastifier', len(_norms), 1)
    # the samples computed with are the samples supplied (no conversion of the elements on entry)
    from sa.rules import truthy as _te
    _ne = 0
    for _m in M.standard_monitors(ix):
        if _m.kind == 'dense-online':
            _de = ix.resolve_method(_m.cls, 'set_variable_to_ast_from_dataset')
            if _de is None:
                raise AnalysisError('set_variable_to_ast_from_dataset of %s vanished' % _m.kind)
            rep.analysed(_de)
            _ne += _te.check_entry_verbatim(ix, rep, _de, _m.kind)
    rep.floor('data-entry stores', _ne, 1)
    rep.floor('specification wrappers handing the data on', _te.check_wrapper_verbatim(ix, rep), 2)
    # a robustness value is a number, never a flag: in the dense-time online code no value emitted in a sample (or anything it is computed from)
    # is used for its truth value
    from sa.rules import truthy as _tr
    _fs = []
    for _m in sorted(ix.modules.values(), key=lambda m_: m_.name):
        if '.dense_time.online' in _m.name and 'antlr' not in _m.name:
            _fs += list(_m.functions.values()) + [g_ for c_ in _m.classes.values() for g_ in c_.methods.values()]
    rep.floor('dense-time functions that handle robustness values', _tr.check_dense_values(ix, rep, _fs, 'dense-online'), 10)
    explanation = (
        'Carry-over structure only. R-STEP: the update visitor steps every operation object exactly once per update (memo keyed by node name, hit '
        'decided by membership and not by the truth value of the cached result). R-SIB: the eleven binary dense-time online operations (and/or/implies/iff/xor, + - * / pow log) have '
        'identical __init__ and update after normalisation, up to the kernel function, which must be the one of their own operator; the '
        'common form extends both operand buffers with the new batch and stores both remainders returned by the kernel back. R-ORD: the '
        'online merge kernel satisfies the per-ordering emission/advance contract (13 orderings). R-OPSUM: slot functions, unary value '
        'expressions and the once/historically scans equal the reference; unary pointwise operations are stateless, the scans keep their '
        'state in self across updates. R-SEGSTEP/R-SEGBUILD: the merge step of the once[a,b]/historically[a,b] segment stack is evaluated on '
        'every ordering of the segment ends and values consistent with the stack invariant (pop soundness, contiguity, pointwise value, '
        'monotonicity), and the influence interval of sample k is (T[k]+begin, T[k+1]+end, V[k]) in affine normal form; R-COMPOSE: '
        'since[a,b] = once[a,b](right) and historically[0,a](left since right) in update() and update_final(). R-CARRY: after the merge every '
        'segment is split at the time of the last input sample -- evaluated on the five orderings of that time against the segment ends: the '
        'part up to it is emitted, the part beyond it is carried to the next update, nothing is lost or carried twice. R-ORD (since): the untimed since merges its operand buffers itself; over the 13 orderings it emits iff the segments overlap, at max(starts), the non-strict since step, updates its state and drops the segment ending first. R-ORD (remainder): the two remainder loops of the kernel give, over the five orderings of the exhausted operand\'s last sample against the current segment of the other, the closing sample method(list-1 value, list-2 value) at the last commonly known time, make progress and keep no stale closing sample. R-SEGBUILD (patch-up): when the next batch arrives the last carried segment is re-ended at the first new time-stamp + end. NOT decided: how the binary operations stitch the closing sample of one update to the first sample of the next (duplicate suppression).')
    assumptions = ['observed while probing and outside static reach: once[0,1](a>=2) fed sample by sample differs from the whole-signal run at one instant; '
                   'no structural rule separates that code from a correct one, so it is documented in DESIGN.md and not claimed']
    return explanation, assumptions, 'one instance per sibling and method, per ordering, per summarised operator', {'exhaustive': True}
