"""C02  Discrete-time online monitor equals offline evaluation at every step (structural part)."""
from sa.index import AnalysisError
from sa import dispatch as D, model as M, opsum as O
from sa.rules import exh, opref, pure, step, windowrule
from sa.props import c01


def check(ix, rep):
    from sa.rules import round11 as _r11
    rep.floor('calls of set_ast inside the interpreter classes', _r11.check_set_ast_callers(ix, rep), 1)
    rep.floor('sites that clear the ast-installed flag', _r11.check_set_ast_flag_writers(ix, rep), 1)
    mons = {m.kind: m for m in M.standard_monitors(ix)}
    on, off = mons.get('discrete-online'), mons.get('discrete-offline')
    if on is None or off is None:
        raise AnalysisError('discrete-time interpreters not found')
    # 1. every operator stepped once per update (repeated sub-formula text, shared sub-specs)
    for m in M.monitors(ix):
        if m.kind == 'discrete-online':
            step.check_step(ix, rep, m)
    # 1b. a robustness value is a number, never a flag (0.0 is a legitimate value): operations and the update visitor
    from sa.rules import truthy
    fs = []
    for ncname, opc in sorted(exh.constructed_operations(ix, on).items()):
        for mn in ('update', 'reset', '__init__'):
            g = opc.methods.get(mn)
            if g is not None and mn == 'update':
                fs.append(g)
    nt = truthy.check_functions(ix, rep, fs, 'discrete-online')
    rep.floor('update() methods checked for truth-value use of robustness', nt, 28)
    de = ix.resolve_method(on.cls, 'set_variable_to_ast_from_dataset')
    if de is None:
        raise AnalysisError('data-entry function of the online monitor vanished')
    rep.analysed(de)
    truthy.check_data_entry(ix, rep, de, 'discrete-online')
    # 3. construction and update visitors are exhaustive
    cells = exh.exh_monitor(ix, rep, on)
    rep.floor('dispatch cells of the online construction visitor', cells, 39)
    from sa.rules import step as _step2
    nbe = _step2.check_buffer_every_path(ix, rep, M.operation_classes(ix, 'discrete'), 'discrete-online')
    rep.floor('ring buffers of the discrete-time online operations', nbe, 4)
    nss = exh.check_store_sites(ix, rep, on)
    rep.floor('stores into the operator table', nss, 28)
    exh.update_visitor_leaves(ix, rep, on)
    # 2. operator summaries agree with the offline handlers (same init, same step => equal at every prefix length)
    offsum, _ = c01.opsum_offline_discrete(ix, _Quiet(rep), off)
    ops = exh.constructed_operations(ix, on)
    agree = 0
    for ncname, opc in sorted(ops.items()):
        f = ix.resolve_method(opc, 'update')
        rep.analysed(f)
        rep.unit(f.module.rel)
        slot = 'online~offline:%s' % ncname
        if ncname == 'Variable':
            continue
        nf, partial = O.summarize_online_discrete(opc, ix)
        ref = opref.DISCRETE.get(ncname)
        other = offsum.get(ncname)
        if nf[0] == 'unknown':
            if ref is not None:
                rep.error('%s: %s.update is no longer in a summarised idiom (%s); it was decided on the pinned tree' % (f.where, opc.name, nf[1]))
                continue
            continue  # bounded operators: decided by the window rule below
        if other is None or other[0] == 'unknown':
            rep.undecided('R-OPSUM', f.module.rel, '%s.update' % opc.name, slot, 'offline handler not summarised', f.node.lineno)
            continue
        agree += 1
        if nf != other:
            rep.fail('R-OPSUM', f.module.rel, '%s.update' % opc.name, slot,
                     'online operation and offline handler of %s differ: %s  [online: %s | offline: %s]'
                     % (ncname, opref.diff(nf, other), opref.describe(nf), opref.describe(other)), f.node.lineno)
        elif ref is not None and nf != ref:
            rep.fail('R-OPSUM', f.module.rel, '%s.update' % opc.name, slot,
                     'online operation of %s differs from the reference: %s' % (ncname, opref.diff(nf, ref)), f.node.lineno)
        else:
            rep.ok('R-OPSUM', f.module.rel, '%s.update' % opc.name, slot, opref.describe(nf), f.node.lineno)
    rep.floor('online/offline operator pairs compared', agree, 24)
    # bounded operators: both the ring-buffer operations and the offline slicing handlers have the reference window
    nwo, won = windowrule.check_online(ix, rep, on)
    nwf, wof = windowrule.check_offline(ix, _Quiet(rep), off)
    rep.floor('bounded online operations whose window was derived', nwo, 4)
    # 4. update() is a function of the operator's own state and the operands
    n = pure.pure_updates(ix, rep, sorted(set(ops.values()), key=lambda c: c.qual))
    rep.floor('operation update() methods checked for hidden inputs', n, 28)
    # the period the online monitor counts its windows in is the one the user configured, also after reset()
    from sa.rules import units
    nc = units.check_interpreter_ownership(ix, rep)
    rep.floor('interpreter ownership obligations of the specification classes', nc, 4)
    # the online operator table and the memo are keyed by node.name: the name has to determine the node
    from sa.rules import nodename
    nn = nodename.check(ix, rep, 'online-key')
    rep.floor('name obligations (parts of the printed name, skeletons)', nn, 120)
    # the samples computed with are the samples supplied (no conversion of the elements on entry)
    from sa.rules import truthy as _te
    _ne = 0
    for _m in M.standard_monitors(ix):
        if _m.kind == 'discrete-online':
            _de = ix.resolve_method(_m.cls, 'set_variable_to_ast_from_dataset')
            if _de is None:
                raise AnalysisError('set_variable_to_ast_from_dataset of %s vanished' % _m.kind)
            rep.analysed(_de)
            _ne += _te.check_entry_verbatim(ix, rep, _de, _m.kind)
    rep.floor('data-entry stores', _ne, 1)
    rep.floor('specification wrappers handing the data on', _te.check_wrapper_verbatim(ix, rep), 2)
    # pastify() of a past formula is the identity only if the bounds it rebuilds are the written ones: each bound converted with its own unit
    # (else the other bound's, else the default) by the normalisers the pastifier and the horizon use
    from sa.rules import units as _u2, unitflow as _uf2
    _pc = ix.find_class('rtamt.pastifier.stl.pastifier', 'StlPastifier')
    _hc = ix.find_class('rtamt.pastifier.stl.horizon', 'StlHorizon')
    _norms = {}
    for _c in (_pc, _hc):
        if _c is None:
            raise AnalysisError('pastifier / horizon class vanished')
        for _f in _c.methods.values():
            for _nf in _uf2.normalisers_used(ix, _c, _f):
                _norms[id(_nf)] = _nf
    for _nf in _norms.values():
        _u2.check_transformer(ix, rep, None, None, 'dense', func=_nf)
    rep.floor('bound normalisers of the pastifier', len(_norms), 1)
    # two monitors share no operator: no operation object or operator table in a class body or at module level
    from sa.rules import globals as _G2
    _G2.fixture_selfcheck(rep)
    _ngl = _G2.run_global(ix, rep, prefix='rtamt.semantics')
    rep.floor('semantics modules scanned for shared state', _ngl, 60)
    explanation = (
        'R-STEP: operators are keyed by printed node name and sub-spec nodes are shared, so the update visitor must memoise per '
        'update under that very key and renew the memo once per update(); the rule checks key agreement (construction visitor, '
        'look-up in visitBinary/visitUnary, memo test/store), that a hit returns the cached value, and that renewal precedes the '
        'traversal. R-OPSUM agreement: each online operation (constructor = initial state, straight-line update = step) and the '
        'offline handler of the same node class are abstractly interpreted to the same normal form (pointwise / scan / shift); '
        'equal init and step give equality at every prefix length by induction on the step index. R-EXH: every supported node class '
        'gets an operator; the update visitor covers both leaf classes. R-PURE: update() reads self.*, operands, builtins only.')
    assumptions = ['equality of the four deque-based bounded operations with the offline slicing handlers is NOT decided (window arithmetic)',
                   'Python evaluation order of straight-line update bodies as modelled by the abstract interpreter']
    return explanation, assumptions, 'one instance per operator pair, per memo obligation, per dispatch cell', {'exhaustive': True}


class _Quiet(object):
    """report proxy: run the offline summaries without recording their instances under this property"""
    def __init__(self, rep):
        self._r = rep

    def __getattr__(self, k):
        if k in ('ok', 'fail', 'undecided'):
            return lambda *a, **kw: None
        return getattr(self._r, k)
