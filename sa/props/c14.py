"""C14  The parser accepts exactly the specification language and fails only cleanly
(claimed for the 'fails only cleanly / no silent acceptance' half)."""
import ast

from sa.index import AnalysisError
from sa import grammar as G, genparser as GP, model as M
from sa.rules import parserrules as P, units


def check(ix, rep):
    from sa.rules import round11 as _r11
    rep.floor('interpreter limits on the parse path', _r11.check_parse_limits(ix, rep), 2)
    rep.floor('setters of the default unit', _r11.check_default_unit_domain(ix, rep), 1)
    rep.floor('lower-bound guards', _r11.check_nonnegative_bound(ix, rep), 1)
    rep.floor('integer literal conversions with a base', _r11.check_literal_bases(ix, rep), 2)
    rep.floor('setters of the specification text', _r11.check_text_setters(ix, rep), 1)
    grammars = G.load(ix.repo)
    for n in grammars:
        rep.unit('rtamt/antlr/grammar/tl/%s.g4' % n)
    rules = G.effective_rules(grammars, 'StlParser')
    nlabels = sum(1 for alts in rules.values() for a in alts if a.label)
    rep.floor('labelled grammar alternatives (STL)', nlabels, 45)
    ltl, stl, absast = P.parser_classes(ix)
    classes = [ltl, stl, absast]
    P.check_listener(ix, rep, grammars)
    rep.floor('methods of RTAMTException that handle the constructor argument', P.check_exception_constructor(ix, rep), 2)
    P.check_subspec_registration(ix, rep)
    ctx = GP.context_classes(ix.module('rtamt.antlr.parser.stl.StlParser'))
    nopt = P.check_optional(ix, rep, stl, rules, ctx) + P.check_optional(ix, rep, ltl, rules, ctx)
    rep.floor('dereferences of optional grammar elements', nopt, 8)
    nr = P.check_raises(ix, rep, classes)
    rep.floor('explicit raise sites on the parse path', nr, 12)
    nk = P.check_keys(ix, rep, classes)
    rep.floor('dictionary reads on the parse path', nk, 6)
    nl = P.check_literal_domain(ix, rep, classes, grammars)
    rep.floor('literal conversions', nl, 4)
    nd = P.check_dynamic(ix, rep)
    rep.floor('look-ups / instantiations by a name taken from the specification', nd, 2)
    P.check_string_index(ix, rep)
    P.check_interval_guard(ix, rep)
    ng = P.check_interval_guard_units(ix, rep)
    rep.floor('unit cases of the begin<=end guard', ng, 4)
    nb = P.check_builder_exhaustive(ix, rep, grammars)   # "never silently accepts": an alternative without builder drops its operator
    rep.floor('grammar alternatives with a builder obligation', nb, 70)
    nsw = P.check_swallow(ix, rep)
    rep.floor('functions checked for discarded exceptions', nsw, 100)
    ne = P.check_parse_every_path(ix, rep)
    rep.floor('must-pass-through obligations of parse()', ne, 4)
    nt = P.check_termination(ix, rep, [ltl, stl])
    rep.floor('builder methods checked for termination shape', nt, 45)
    # building the monitor from a parsed specification: the unit strings the parser produces are consumed safely (shared with C08)
    only = _Only(rep, ('R-UNITDOM',))
    units.check_transformer(ix, only, 'rtamt.semantics.discrete_time_interpreter', 'DiscreteTimeInterpreter', 'discrete')
    units.check_transformer(ix, only, 'rtamt.semantics.dense_time_interpreter', 'DenseTimeInterpreter', 'dense')
    # "bound constants declared" is a statement about this specification: no class- or module-level table in the parser carries declarations over
    from sa.rules import globals as _G14
    _G14.fixture_selfcheck(rep)
    rep.floor('syntax modules scanned for shared state', _G14.run_global(ix, rep, prefix='rtamt.syntax'), 30)
    explanation = (
        'The "fails only cleanly, never silently accepts" half is decided structurally. R-LISTENER: before the entry rule is invoked both '
        'the ANTLR lexer and parser have their default listeners replaced by one whose syntaxError unconditionally raises RTAMTException, every '
        'Ast factory call supplies that listener type, and the entry rule ends in EOF (illegal characters, trailing garbage). R-OPT: every '
        'accessor of an element that is optional in its grammar alternative is None-tested before it is dereferenced or visited. R-EXC: every '
        'explicit raise on the parse path constructs RTAMTException. R-KEY: every read of a specification dictionary is justified (membership '
        'guard, KeyError handler, dominating store, guard-raise, or an interprocedural co-write argument re-validated on every run). Literal '
        'domain: the grammar admits hex/binary literals, so every float()/Decimal() on literal text must handle the converter\'s error; it admits runs of underscores, so the text must pass '
        'through replace(\'_\', \'\') before float()/int(). Objects looked up by a name from the specification (getattr, instantiation) turn '
        'AttributeError/TypeError into RTAMTException. The '
        'specification text is never indexed by position; an interval is built only after a dominating begin<=end guard; builder methods '
        'contain no loop and recurse only into child contexts (termination, given ANTLR\'s own). Unit strings the parser can attach are consumed '
        'without KeyError by both transformers.')
    assumptions = ['ANTLR 4.7.2 prediction/recovery itself terminates and reports every syntax error to the listeners',
                   'completeness (every derivable text is accepted) and wall-clock time are not decided']
    return explanation, assumptions, 'one instance per listener obligation, optional dereference, raise site, dictionary read, literal conversion, builder method', {'exhaustive': True}


class _Only(object):
    """report proxy that keeps the instances of the listed rules only (the dimension rule belongs to C08)"""
    def __init__(self, rep, rules):
        self._r = rep
        self._rules = rules

    def ok(self, rule, *a, **k):
        if rule in self._rules:
            self._r.ok(rule, *a, **k)

    def fail(self, rule, *a, **k):
        if rule in self._rules:
            self._r.fail(rule, *a, **k)

    def __getattr__(self, k):
        return getattr(self._r, k)
