"""C06  Interface-aware semantics differ from standard only at insensitive predicates."""
import ast

from sa.index import AnalysisError, ClassInfo
from sa import dispatch as D, model as M, opsum as O
from sa.rules import iastl, exh, opref


def check(ix, rep):
    mons = [m for m in M.monitors(ix) if m.sem != 'Standard']
    rep.floor('interface-aware monitor classes', len(mons), 16)
    bases = {}
    for mon in mons:
        if mon.mode == 'offline':
            basef = iastl.check_offline_variant(ix, rep, mon)
            bases[(mon.time, id(basef))] = basef
    for (time, _), basef in sorted(bases.items(), key=lambda kv: kv[0][0]):
        iastl.check_offline_base(ix, rep, basef, time, None)
        # numeric robustness of the shared base equals the standard predicate table
        if time == 'discrete':
            nf = _value_table_discrete(basef)
            want = dict(opref.PREDICATE[1])
            for k in sorted(want):
                if nf.get(k) == want[k]:
                    rep.ok('R-OPSUM', basef.module.rel, basef.qual, 'discrete-offline:value:%s' % k, O.show(want[k]), basef.node.lineno)
                else:
                    rep.fail('R-OPSUM', basef.module.rel, basef.qual, 'discrete-offline:value:%s' % k,
                             'numeric robustness of %s in the IA base is %s, the standard semantics has %s' % (k, O.show(nf[k]) if k in nf else 'missing', O.show(want[k])), basef.node.lineno)
    # online
    ops = {}
    for mon in mons:
        if mon.mode == 'online':
            opc = exh.constructed_operations(ix, mon).get('Predicate')
            if opc is None:
                raise AnalysisError('no predicate operation for %s' % mon.label)
            ops.setdefault((mon.time, opc.qual), (opc, []))[1].append(mon)
    for (time, _), (opc, ms) in sorted(ops.items()):
        params, sat = iastl.check_online_operation(ix, rep, opc, time)
        if time == 'discrete':
            iastl.check_verdict_table(rep, sat, 'sample_return', sat.node.args.args[1].arg, sat.node.args.args[2].arg, None, 'discrete-online')
        else:
            lv = None
            for n in ast.walk(sat.node):
                if isinstance(n, ast.For) and isinstance(n.target, ast.Tuple):
                    lv = n.target.elts[1].id
            iastl.check_verdict_table(rep, sat, 'out_val', None, None, '%s[1]' % lv, 'dense-online')
        for mon in ms:
            iastl.check_online_visitor(ix, rep, mon, params)
    nf = iastl.check_factories(ix, rep)
    rep.floor('factory branches', nf, 10)
    nio = iastl.check_iovars(ix, rep)
    rep.floor('node constructors checked for in_vars/out_vars', nio, 38)
    # pastify() keeps the io type of every variable it rebuilds (the delayed copy of an input is still an input)
    pcls = ix.find_class('rtamt.pastifier.stl.pastifier', 'StlPastifier')
    nv = 0
    for c in ix.mro(pcls):
        from sa.index import ClassInfo as _CI
        if not isinstance(c, _CI):
            continue
        for f in c.methods.values():
            if ix.resolve_method(pcls, f.name) is not f:
                continue
            for call in ast.walk(f.node):
                if isinstance(call, ast.Call) and isinstance(call.func, ast.Name) and call.func.id == 'Variable':
                    nv += 1
                    rep.analysed(f)
                    nodep = f.node.args.args[1].arg
                    args = [ast.unparse(a) for a in call.args] + ['%s=%s' % (k.arg, ast.unparse(k.value)) for k in call.keywords]
                    if len(call.args) >= 3 and ast.unparse(call.args[2]) == '%s.io_type' % nodep or any(a == 'iotype=%s.io_type' % nodep for a in args):
                        rep.ok('R-IOVARS', f.module.rel, f.qual, 'pastify:Variable@%d' % nv, 'rebuilt with node.io_type', call.lineno)
                    else:
                        rep.fail('R-IOVARS', f.module.rel, f.qual, 'pastify:Variable@%d' % nv, 'the pastifier rebuilds a variable as `%s` without its io type: the copy is an output by '
                                 'default, so after pastify() predicates over a delayed input look output-sensitive' % ast.unparse(call)[:60], call.lineno)
    rep.floor('Variable reconstructions in the pastifier', nv, 1)
    # the parser builds a Variable with the io signature declared for *that variable*: the io table is written under declared names
    # (declare_var / set_var_io_type / the declaration rule), which contain no '.', so it has to be read under the same expression that
    # becomes node.var -- the head of a dotted reference -- and by subscript: a .get() default turns an unregistered key into a direction
    from sa import model as M_
    npv = 0
    for pv in M_.parser_visitors(ix):
        for f in pv.methods.values():
            for call in ast.walk(f.node):
                if not (isinstance(call, ast.Call) and isinstance(call.func, ast.Name) and call.func.id == 'Variable' and call.args):
                    continue
                npv += 1
                rep.analysed(f)
                name_arg = ast.unparse(call.args[0])
                io = call.args[2] if len(call.args) >= 3 else next((k.value for k in call.keywords if k.arg == 'iotype'), None)
                defs = {}
                for st in ast.walk(f.node):
                    if isinstance(st, ast.Assign) and len(st.targets) == 1 and isinstance(st.targets[0], ast.Name):
                        defs.setdefault(st.targets[0].id, []).append(st.value)
                src = io
                if isinstance(io, ast.Name) and len(defs.get(io.id, [])) == 1:
                    src = defs[io.id][0]
                slot = 'parser:Variable(%s)' % name_arg
                # the first argument is the part before the first '.': bound once to <x>.split('.')[0] / the popped head
                head_ok = False
                if isinstance(call.args[0], ast.Name) and len(defs.get(call.args[0].id, [])) == 1:
                    hv = defs[call.args[0].id][0]
                    if isinstance(hv, ast.Subscript) and isinstance(hv.slice, ast.Constant) and hv.slice.value == 0:
                        base = hv.value
                        if isinstance(base, ast.Name) and len(defs.get(base.id, [])) == 1:
                            base = defs[base.id][0]
                        head_ok = isinstance(base, ast.Call) and isinstance(base.func, ast.Attribute) and base.func.attr == 'split' and base.args \
                            and isinstance(base.args[0], ast.Constant) and base.args[0].value == '.'
                if not head_ok and isinstance(call.args[0], ast.Name):
                    # id_head, _, id_tail = id.partition('.')
                    for st in ast.walk(f.node):
                        if isinstance(st, ast.Assign) and isinstance(st.targets[0], ast.Tuple) and st.targets[0].elts and isinstance(st.targets[0].elts[0], ast.Name) \
                                and st.targets[0].elts[0].id == call.args[0].id and isinstance(st.value, ast.Call) and isinstance(st.value.func, ast.Attribute) \
                                and st.value.func.attr in ('partition', 'split') and st.value.args and isinstance(st.value.args[0], ast.Constant) and st.value.args[0].value == '.':
                            head_ok = True
                        # id_head, id_tail = self.split_id(id): a helper of the visitor that returns (part before the first '.', rest)
                        if isinstance(st, ast.Assign) and isinstance(st.targets[0], ast.Tuple) and st.targets[0].elts and isinstance(st.targets[0].elts[0], ast.Name) \
                                and st.targets[0].elts[0].id == call.args[0].id and isinstance(st.value, ast.Call) and D._self_call(st.value):
                            g = ix.resolve_method(pv, D._self_call(st.value))
                            if g is not None:
                                gp = [a.arg for a in g.node.args.args][1:]
                                for r_ in ast.walk(g.node):
                                    if isinstance(r_, ast.Return) and isinstance(r_.value, ast.Tuple) and r_.value.elts and isinstance(r_.value.elts[0], ast.Name):
                                        hn = r_.value.elts[0].id
                                        for q in ast.walk(g.node):
                                            if isinstance(q, ast.Assign) and isinstance(q.targets[0], ast.Tuple) and q.targets[0].elts and isinstance(q.targets[0].elts[0], ast.Name) \
                                                    and q.targets[0].elts[0].id == hn and isinstance(q.value, ast.Call) and isinstance(q.value.func, ast.Attribute) \
                                                    and q.value.func.attr == 'partition' and isinstance(q.value.func.value, ast.Name) and q.value.func.value.id in gp \
                                                    and q.value.args and isinstance(q.value.args[0], ast.Constant) and q.value.args[0].value == '.':
                                                head_ok = True
                whole = isinstance(call.args[0], ast.Name) and any(isinstance(v, ast.Call) and 'getText' in ast.unparse(v) for v in defs.get(call.args[0].id, []))
                if not head_ok and not whole:
                    raise AnalysisError('%s: how `%s` is derived from the identifier is not recognised' % (f.where, name_arg))
                if src is None:
                    rep.fail('R-IOVARS', f.module.rel, f.qual, slot, 'the parser builds the variable without an io signature: every variable is an output', call.lineno)
                elif isinstance(src, ast.Subscript) and ast.unparse(src.value) == 'self.var_io_dict' and ast.unparse(src.slice) == name_arg and head_ok:
                    rep.ok('R-IOVARS', f.module.rel, f.qual, slot, 'io signature read from var_io_dict under the declared name (the head of the reference)', call.lineno)
                elif not head_ok:
                    rep.fail('R-IOVARS', f.module.rel, f.qual, slot, 'the name given to Variable is not the part of the reference before the first `.`: declarations (and the io table) '
                             'know the variable, not its fields', call.lineno)
                else:
                    rep.fail('R-IOVARS', f.module.rel, f.qual, slot, 'the io signature is `%s`, not self.var_io_dict[%s]: the table is written under declared variable names, so a field '
                             'reference `req.value` is looked up under a key that is never there (and a default then decides the direction): an input read through a field '
                             'becomes an output' % (ast.unparse(src)[:60], name_arg), call.lineno)
    rep.floor('Variable constructions in the parser', npv, 1)
    # a declaration in the text hands its io keyword to the table on every path: `input float req` makes req an input whatever was declared
    # before (an early return in front of the ioType() handling leaves an API-declared variable an output)
    from sa import flow as _flow
    ndecl = 0
    for f in [ix.resolve_method(M_.parser_visitors(ix)[0], 'visitVariableDeclaration')]:
        if f is None:
            raise AnalysisError('visitVariableDeclaration vanished')
        rep.analysed(f)
        ctxp = f.node.args.args[1].arg
        cfg = _flow.CFG(f.node)
        dom = cfg.dominators()
        tests = [n for n in cfg.nodes() if isinstance(cfg.stmt[n], ast.If) and ('%s.ioType()' % ctxp) in ast.unparse(cfg.stmt[n].test)]
        sets = [c for c in ast.walk(f.node) if isinstance(c, ast.Call) and D._self_call(c) == 'set_var_io_type']
        exits = [n for n in cfg.reachable() if n == cfg.exit or isinstance(cfg.stmt[n], ast.Return)]
        ndecl += 1
        if not tests or not sets:
            rep.fail('R-IOVARS', f.module.rel, f.qual, 'declaration:io-keyword', 'the io keyword of a declaration (`%s.ioType()`) is not handed to set_var_io_type' % ctxp, f.node.lineno)
        elif all(any(t in dom[e] for t in tests) for e in exits if e in dom):
            rep.ok('R-IOVARS', f.module.rel, f.qual, 'declaration:io-keyword', 'every path through a declaration looks at its io keyword', f.node.lineno)
        else:
            rep.fail('R-IOVARS', f.module.rel, f.qual, 'declaration:io-keyword', 'a path through visitVariableDeclaration returns before the io keyword is looked at: `input float x` in the text '
                     'leaves x with the io type it had (an output, for a variable declared through the API first) and its predicates are treated as output predicates',
                     f.node.lineno)
    rep.floor('declaration builders checked for the io keyword', ndecl, 1)
    # set_var_io_type(name, t) writes the table the parser reads (var_io_dict[name]) on every path on which the variable exists: a shortcut on one
    # of the redundant sets (`if name in self.in_vars: return`) skips the store although declare_var() has put the entry back to 'output' since
    absast_ = ix.find_class('rtamt.syntax.ast.parser.abstract_ast_parser', 'AbstractAst')
    sio = absast_.methods.get('set_var_io_type') if absast_ is not None else None
    if sio is None:
        raise AnalysisError('AbstractAst.set_var_io_type vanished')
    rep.analysed(sio)
    namep = sio.node.args.args[1].arg
    cfg = _flow.CFG(sio.node)

    def _is_store(st):
        return isinstance(st, ast.Assign) and any(isinstance(t, ast.Subscript) and ast.unparse(t.value) == 'self.var_io_dict' and ast.unparse(t.slice) == namep for t in st.targets)
    blocked = {n for n in cfg.nodes() if cfg.stmt[n] is not None and _is_store(cfg.stmt[n])}
    # the arm taken when the variable does not exist is exempt
    for n in cfg.nodes():
        st = cfg.stmt[n]
        if isinstance(st, ast.If):
            t = ast.unparse(st.test).replace(' ', '')
            absent_body = t in ('not%sinself.vars' % namep, '%snotinself.vars' % namep, 'not(%sinself.vars)' % namep)
            absent_else = t == '%sinself.vars' % namep
            arm = st.body if absent_body else (st.orelse if absent_else else [])
            for x in arm:
                for y in ast.walk(x):
                    if cfg.node(y) is not None:
                        blocked.add(cfg.node(y))
    seen, stack = set(), [cfg.entry]
    while stack:
        n = stack.pop()
        if n in seen or n in blocked:
            continue
        seen.add(n)
        stack.extend(cfg.succ[n])
    if not any(_is_store(st) for st in ast.walk(sio.node)):
        rep.fail('R-IOVARS', sio.module.rel, sio.qual, 'set_var_io_type:table', 'set_var_io_type() never writes self.var_io_dict[%s], the entry the parser reads' % namep, sio.node.lineno)
    elif cfg.exit in seen:
        rep.fail('R-IOVARS', sio.module.rel, sio.qual, 'set_var_io_type:table', 'set_var_io_type() can return for an existing variable without writing self.var_io_dict[%s]: the parser reads '
                 'the io signature from that table, and declare_var() / a declaration in the text puts the entry back to \'output\' without touching the sets a shortcut may look at'
                 % namep, sio.node.lineno)
    else:
        rep.ok('R-IOVARS', sio.module.rel, sio.qual, 'set_var_io_type:table', 'every path for an existing variable writes var_io_dict[%s]' % namep, sio.node.lineno)
    # the sixteen interface-aware monitors are separate objects: nothing hands one interpreter to two specifications
    from sa.rules import globals as _G
    _G.fixture_selfcheck(rep)
    ngl = _G.run_global(ix, rep, prefix='rtamt.semantics.iastl') + _G.run_global(ix, rep, prefix='rtamt.spec')
    rep.floor('interface-aware and specification modules scanned for shared objects', ngl, 20)
    nt = iastl.check_standard_taint(ix, rep)
    rep.floor('functions scanned for io reads under STANDARD', nt, 300)
    # compression consistency of dense loops (a dropped verdict sample changes the substituted +-inf)
    nc = compress_consistency(ix, rep)
    rep.floor('sample-compression idioms', nc, 9)
    explanation = (
        'Table/sibling analysis over the 16 interface-aware variants x {offline, online} x {discrete, dense}. For each variant the '
        'sensitivity test must read node.out_vars (Output*) or node.in_vars (Input*), the substituted value must be +inf/-inf selected by '
        'the Boolean verdict (*Robustness) or 0 (*Vacuity), and the sensitive branch must pass the numeric robustness through unchanged; '
        'the online operations\' semantics chain must take the +-inf branch exactly for {(OUTPUT_ROBUSTNESS, out_vars), (INPUT_ROBUSTNESS, '
        'in_vars)} and the 0 branch exactly for the two vacuity pairs; each construction visitor passes the Semantics constant of its own '
        'name with node.in_vars/node.out_vars in the constructor\'s parameter order; the factories map Semantics.X to the offline AND online '
        'interpreter of X. Verdict tables: each comparison key maps to its own relation (==, !=, >=, >, <=, <) in all four implementations. '
        'R-SHAPE: what is compared with True is the Boolean (scalar or pair component as inferred from the producer). R-IOVARS: all 37 '
        'non-leaf node constructors concatenate in_vars/out_vars over all children. R-TAINT: nothing reachable from the four standard '
        'interpreters reads in_vars/out_vars/io_type/var_io_dict -- a proof that io declarations have no effect under STANDARD.')
    assumptions = ['everything the standard monitors leave undecided (window arithmetic) is inherited', 'update_final / sat_final paths are out of scope']
    return explanation, assumptions, 'one instance per (variant, obligation), per verdict-table entry, per node constructor', {'exhaustive': True}


def _value_table_discrete(basef):
    """value arms of the discrete IA base as opsum terms"""
    out = {}
    lname = rname = None
    for st in basef.node.body:
        if isinstance(st, ast.Assign) and isinstance(st.targets[0], ast.Name):
            k = O.visit_child_index(st.value)
            if k == 0:
                lname = st.targets[0].id
            if k == 1:
                rname = st.targets[0].id
    for n in ast.walk(basef.node):
        if isinstance(n, ast.For) and isinstance(n.target, ast.Name):
            env = {lname: ('LIST', ('x', 0, 0, None)), rname: ('LIST', ('x', 1, 0, None)), n.target.id: ('IDX',)}
            for s in ast.walk(n):
                if isinstance(s, ast.If):
                    keys = O.comparison_key(s.test)
                    if keys:
                        for st in s.body:
                            if isinstance(st, ast.Assign) and isinstance(st.targets[0], ast.Name) and st.targets[0].id == 'val':
                                try:
                                    v = O.Scalar(env).ev(st.value)
                                except O.Unknown as e:
                                    v = ('unknown', str(e))
                                for k in keys:
                                    out[O.canon_cmp(k)] = v
    return out


def compress_consistency(ix, rep, rule='R-COMPRESS'):
    """`if X != prev ...: append(...)` ... `prev = Y` must remember the quantity it compares (X is Y)"""
    n = 0
    for m in sorted(ix.modules.values(), key=lambda m: m.name):
        if not m.name.startswith('rtamt.semantics') or '.dense_time.' not in m.name:
            continue
        for f in ast.walk(m.tree):
            if not isinstance(f, ast.FunctionDef) or f.name in ('update_final', 'sat_final'):
                continue
            for loop in ast.walk(f):
                if not isinstance(loop, (ast.For, ast.While)):
                    continue
                assigns = {}
                for st in loop.body:
                    if isinstance(st, ast.Assign) and isinstance(st.targets[0], ast.Name) and isinstance(st.value, ast.Name):
                        assigns[st.targets[0].id] = (st.value.id, st)
                for st in loop.body:
                    if not isinstance(st, ast.If):
                        continue
                    for c in ast.walk(st.test):
                        if isinstance(c, ast.Compare) and len(c.ops) == 1 and isinstance(c.ops[0], (ast.NotEq, ast.Eq)) \
                                and isinstance(c.left, ast.Name) and isinstance(c.comparators[0], ast.Name) and c.comparators[0].id in assigns:
                            a, p = c.left.id, c.comparators[0].id
                            n += 1
                            rep.unit(m.rel)
                            rep.analysed('%s::%s' % (m.rel, f.name))
                            if assigns[p][0] == a:
                                rep.ok(rule, m.rel, f.name, '%s~%s' % (a, p), 'sample kept iff `%s` changed; `%s` remembers `%s`' % (a, p, a), st.lineno)
                            else:
                                rep.fail(rule, m.rel, f.name, '%s~%s' % (a, p), 'a sample is dropped when `%s` equals `%s`, but `%s` remembers `%s`: unlike quantities '
                                         'are compared (True == 1.0, False == 0.0), so a sample whose value changed can be dropped'
                                         % (a, p, p, assigns[p][0]), st.lineno)
    return n
