"""C20  Explanations of a violation are a sufficient cause (claimed for necessary structural conditions only)."""
import ast
import copy

from sa.index import AnalysisError, ClassInfo, FuncInfo
from sa import dispatch as D, model as M, norm, flow
from sa.rules import exh

LTL_MOD = 'rtamt.explanation.ltl.discrete_time.explanations'
STL_MOD = 'rtamt.explanation.stl.discrete_time.explanations'
# operator -> (direction, bounded?)   past: intervals move backwards, future: forwards
DIRECTION = {'prev': 'past', 'next': 'future', 'timed_once': 'past', 'timed_historically': 'past', 'timed_always': 'future', 'timed_eventually': 'future'}
DUAL_PAIRS = (('sat_eventually', 'unsat_always'), ('sat_always', 'unsat_eventually'), ('sat_once', 'unsat_historically'), ('sat_historically', 'unsat_once'),
              ('sat_or', 'unsat_and'), ('sat_and', 'unsat_or'),
              ('sat_timed_eventually', 'unsat_timed_always'), ('sat_timed_always', 'unsat_timed_eventually'),
              ('sat_timed_once', 'unsat_timed_historically'), ('sat_timed_historically', 'unsat_timed_once'))
HANDLER_OP = {'Neg': 'not', 'Conjunction': 'and', 'Disjunction': 'or', 'Implies': 'implies', 'Iff': 'iff', 'Xor': 'xor', 'Eventually': 'eventually', 'Always': 'always',
              'Once': 'once', 'Historically': 'historically', 'Previous': 'prev', 'StrongPrevious': 'prev', 'Next': 'next', 'StrongNext': 'next',
              'TimedEventually': 'timed_eventually', 'TimedAlways': 'timed_always', 'TimedOnce': 'timed_once', 'TimedHistorically': 'timed_historically'}
UNSUPPORTED = ('Until', 'Since', 'TimedUntil', 'TimedSince', 'TimedPrecedes')


def helpers(ix):
    out = {}
    for modn in (LTL_MOD, STL_MOD):
        m = ix.module(modn)
        for name, f in m.functions.items():
            if name.startswith('explain_'):
                out[name[len('explain_'):]] = f
    return out


class FlipSign(ast.NodeTransformer):
    """dual of an explanation helper: `sig[i] >= 0` <-> `sig[i] < 0`"""
    def visit_Compare(self, n):
        self.generic_visit(n)
        if len(n.ops) == 1 and isinstance(n.comparators[0], ast.Constant) and n.comparators[0].value == 0 and isinstance(n.left, ast.Subscript):
            if isinstance(n.ops[0], ast.GtE):
                n.ops = [ast.Lt()]
            elif isinstance(n.ops[0], ast.Lt):
                n.ops = [ast.GtE()]
        return n


def resolve_alias(hs, name, depth=0):
    """follow `return explain_X(...)` one-liners"""
    f = hs.get(name)
    if f is None or depth > 3:
        return f
    body = [s for s in f.node.body if not (isinstance(s, ast.Expr) and isinstance(s.value, ast.Constant))]
    if len(body) == 1 and isinstance(body[0], ast.Return) and isinstance(body[0].value, ast.Call) and isinstance(body[0].value.func, ast.Name) \
            and body[0].value.func.id.startswith('explain_'):
        return resolve_alias(hs, body[0].value.func.id[len('explain_'):], depth + 1)
    return f


def check_duals(ix, rep, hs, rule='R-EXPL-MIRROR'):
    n = 0
    for a, b in DUAL_PAIRS:
        fa, fb = resolve_alias(hs, a), resolve_alias(hs, b)
        if fa is None or fb is None:
            raise AnalysisError('explanation helper %s or %s vanished' % (a, b))
        n += 1
        rep.analysed(fa)
        rep.analysed(fb)
        rep.unit(fa.module.rel)
        slot = '%s~%s' % (a, b)
        # helpers that do not look at the signal's values are interval transformers: compared as sets of samples, for every request, bound and
        # length at once (linear arithmetic) -- however they are written
        from sa.rules import ivshift as _iv
        reads_values = lambda fn_: any(isinstance(x, ast.Compare) and any(isinstance(y, ast.Subscript) and isinstance(y.value, ast.Name) and y.value.id == fn_.args.args[0].arg
                                                                            for y in ast.walk(x)) for x in ast.walk(fn_))
        if not reads_values(fa.node) and not reads_values(fb.node):
            try:
                dja, djb = _iv.read_helper(fa.node), _iv.read_helper(fb.node)
                diffset = _iv.same_set(dja, djb, timed=len(fa.node.args.args) == 4)
                if diffset is None:
                    rep.ok(rule, fb.module.rel, 'explain_%s~explain_%s' % (a, b), slot, 'explain_%s and explain_%s select the same samples for every request (decided as interval transformers)' % (b, a), fb.node.lineno)
                else:
                    rep.fail(rule, fb.module.rel, 'explain_%s~explain_%s' % (a, b), slot, 'explaining a violated %s must select the samples explaining a satisfied %s selects; %s selects more for some '
                             'request' % (b.split('_', 1)[1], a.split('_', 1)[1], 'explain_' + (a if diffset == 'first-has-more' else b)), fb.node.lineno)
                continue
            except _iv.Unknown:
                pass
        # bounded helpers that scan a window for runs of one sign: the same window, the opposite sign
        if len(fa.node.args.args) == 4 and len(fb.node.args.args) == 4:
            ka, kb = run_extraction(fa.node), run_extraction(fb.node)
            if ka is not None and kb is not None:
                try:
                    wa, wb = _iv.read_scan_window(fa.node), _iv.read_scan_window(fb.node)
                    dw = _iv.same_set(wa, wb, timed=True)
                    if dw is None and ka != kb:
                        rep.ok(rule, fb.module.rel, 'explain_%s~explain_%s' % (a, b), slot, 'both scan the same window of the operand and extract the runs of opposite sign', fb.node.lineno)
                    elif dw is not None:
                        rep.fail(rule, fb.module.rel, 'explain_%s~explain_%s' % (a, b), slot, 'explain_%s and explain_%s scan different windows of the operand for some request' % (a, b), fb.node.lineno)
                    else:
                        rep.fail(rule, fb.module.rel, 'explain_%s~explain_%s' % (a, b), slot, 'explain_%s and explain_%s extract runs of the same sign: one of them explains a violated operator '
                                 'with the samples at which its operand holds' % (a, b), fb.node.lineno)
                    continue
                except _iv.Unknown:
                    pass
        na = norm.inline_bool_temps(copy.deepcopy(fa.node), paths=True)      # `v = op_signal[i]; if v >= 0` is a sign test on the signal
        na = FlipSign().visit(na)
        da, ta, _ = norm.normal_form(na)
        db, tb, _ = norm.normal_form(fb.node)
        if da == db:
            rep.ok(rule, fb.module.rel, 'explain_%s~explain_%s' % (a, b), slot, 'explain_%s is explain_%s with the sign test flipped' % (b, a), fb.node.lineno)
        else:
            diff = norm.text_diff(ta, tb)
            rep.fail(rule, fb.module.rel, 'explain_%s~explain_%s' % (a, b), slot,
                     'explaining a violated %s must mirror explaining a satisfied %s (same intervals, sign test flipped); differences: %s'
                     % (b.split('_', 1)[1], a.split('_', 1)[1], ' | '.join(diff[:6])), fb.node.lineno, {'diff': diff})
    return n


def check_direction(ix, rep, hs, rule='R-EXPL-DIR'):
    """bounded/one-step helpers move the requested intervals towards the samples the operator reads"""
    n = 0
    for name, f in sorted(hs.items()):
        op = name.split('_', 1)[1] if name.startswith(('sat_', 'unsat_')) else name
        direction = DIRECTION.get(op)
        if direction is None:
            continue
        g = resolve_alias(hs, name)
        n += 1
        rep.analysed(g)
        rep.unit(g.module.rel)
        params = [a.arg for a in g.node.args.args]
        a_, b_ = (params[2], params[3]) if len(params) >= 4 else (None, None)
        if len(params) == 4:
            # bounded helpers: the samples selected (helpers that do not look at values) or scanned (helpers that do) for a request are the samples
            # the operator reads -- decided for every request, bound and length, whatever the locals are called
            from sa.rules import ivshift as _iv
            try:
                looks = any(isinstance(x_, ast.Compare) and any(isinstance(y, ast.Subscript) and isinstance(y.value, ast.Name) and y.value.id == params[0] for y in ast.walk(x_))
                            for x_ in ast.walk(g.node))
                dj_ = _iv.read_scan_window(g.node) if looks else _iv.read_helper(g.node)
                dset = _iv.same_set(dj_, _iv.timed_reference(direction), timed=True)
                slot = 'direction:%s' % name
                if dset is None:
                    rep.ok(rule, g.module.rel, g.qual, slot, 'for the request [b,e] the helper %s exactly the samples a %s operator over [a,b] reads' % ('scans' if looks else 'selects', direction), g.node.lineno)
                else:
                    rep.fail(rule, g.module.rel, g.qual, slot, 'for some request the helper %s %s than the samples a %s operator over [a,b] reads ([begin%sb, end%sa] clipped to the signal)'
                             % ('scans' if looks else 'selects', 'more' if dset == 'first-has-more' else 'fewer', direction, '-' if direction == 'past' else '+a .. +', '-' if direction == 'past' else ''), g.node.lineno)
                continue
            except _iv.Unknown:
                pass
        shifts = []
        for x in ast.walk(g.node):
            if isinstance(x, ast.BinOp) and isinstance(x.op, (ast.Add, ast.Sub)) and isinstance(x.left, ast.Name) and x.left.id in ('begin', 'end'):
                r = ast.unparse(x.right)
                if (a_ and r in (a_, b_)) or (not a_ and r == '1' and not _in_range_call(g.node, x)):
                    shifts.append((x.left.id, '+' if isinstance(x.op, ast.Add) else '-', r, x.lineno))
        clamps = {c.func.id for c in ast.walk(g.node) if isinstance(c, ast.Call) and isinstance(c.func, ast.Name) and c.func.id in ('min', 'max')
                  and any(isinstance(z, ast.BinOp) for z in c.args)}
        slot = 'direction:%s' % name
        if not shifts:
            rep.fail(rule, g.module.rel, g.qual, slot, 'helper does not shift the requested intervals by the operator\'s bounds', g.node.lineno)
            continue
        want_sign = '-' if direction == 'past' else '+'
        bad = [s for s in shifts if s[1] != want_sign]
        if a_:
            # begin moves by the far bound for past (begin - b), by the near bound for future (begin + a); end the other way round
            want_pairs = {('begin', b_), ('end', a_)} if direction == 'past' else {('begin', a_), ('end', b_)}
            got_pairs = {(s[0], s[2]) for s in shifts}
            if got_pairs != want_pairs and not bad:
                rep.fail(rule, g.module.rel, g.qual, slot, 'intervals are shifted as %s; a %s operator over [a,b] needs %s' %
                         (sorted('%s%s%s' % (s[0], s[1], s[2]) for s in shifts), direction, sorted('%s%s%s' % (p[0], want_sign, p[1]) for p in want_pairs)), shifts[0][3])
                continue
        want_clamp = 'max' if direction == 'past' else 'min'
        if bad:
            rep.fail(rule, g.module.rel, g.qual, slot, 'a %s operator reads samples %s the evaluation point, but the helper shifts the intervals %s (%s)'
                     % (direction, 'before' if direction == 'past' else 'after', 'forwards' if direction == 'past' else 'backwards',
                        ', '.join('%s %s %s' % (s[0], s[1], s[2]) for s in bad)), bad[0][3])
        elif a_ and clamps != {want_clamp}:
            rep.fail(rule, g.module.rel, g.qual, slot, 'shifted intervals are clamped with %s; a %s operator must clamp with %s(..., %s)'
                     % (sorted(clamps), direction, want_clamp, '0' if direction == 'past' else 'len-1'), g.node.lineno)
        else:
            rep.ok(rule, g.module.rel, g.qual, slot, 'intervals move %s' % ('backwards, clamped at 0' if direction == 'past' else 'forwards, clamped at the end of the trace'), g.node.lineno)
    return n


def _in_range_call(fnode, node):
    for c in ast.walk(fnode):
        if isinstance(c, ast.Call) and isinstance(c.func, ast.Name) and c.func.id == 'range' and any(node is z for a in c.args for z in ast.walk(a)):
            return True
    return False


def check_all_intervals(ix, rep, hs, rule='R-EXPL-ALL'):
    """every helper honours all requested intervals"""
    n = 0
    for name, f in sorted(hs.items()):
        g = resolve_alias(hs, name)
        if g is not f:
            continue
        params = [a.arg for a in g.node.args.args]
        ip = 'intervals'
        if ip not in params:
            continue
        n += 1
        rep.analysed(g)
        slot = 'all-intervals:%s' % name
        loops = [s for s in ast.walk(g.node) if isinstance(s, ast.For) and isinstance(s.iter, ast.Name) and s.iter.id == ip]
        returns_same = any(isinstance(r, ast.Return) and ip in ast.unparse(r.value) for r in ast.walk(g.node) if isinstance(r, ast.Return) and r.value is not None)
        idx = [s for s in ast.walk(g.node) if isinstance(s, ast.Subscript) and isinstance(s.value, ast.Name) and s.value.id == ip]
        if loops or (returns_same and not idx):
            rep.ok(rule, g.module.rel, g.qual, slot, 'iterates over / passes on every requested interval', g.node.lineno)
            continue
        if not idx:
            rep.fail(rule, g.module.rel, g.qual, slot, 'the requested intervals are not used', g.node.lineno)
            continue
        # a single interval is picked: admissible only if the result depends on one end and the extreme interval is picked
        which = ast.unparse(idx[0].slice).replace(' ', '')
        first = which == '0'
        last = which in ('-1', 'len(%s)-1' % ip)
        # decided on the helper read as an interval transformer, when it can be read so: what it selects for any other request is contained in
        # what it selects for the one it looks at
        if first or last:
            from sa.rules import ivshift as _iv
            try:
                dj_ = _iv.read_helper(g.node)
                if _iv.pick_covers_all(dj_, 'last' if last else 'first', timed=len(g.node.args.args) == 4):
                    rep.ok(rule, g.module.rel, g.qual, slot, 'looks at the %s requested interval only; what any other request needs is contained in what that one selects' % ('last' if last else 'first'), g.node.lineno)
                else:
                    rep.fail(rule, g.module.rel, g.qual, slot, 'only the %s of the requested intervals is honoured, and what an %s request needs is not contained in what that one selects: when '
                             'the parent asks for several disjoint intervals the others are dropped and the reported samples are no sufficient cause'
                             % ('last' if last else 'first', 'earlier' if last else 'later'), idx[0].lineno)
                continue
            except _iv.Unknown:
                pass
        used = set()
        for x in ast.walk(g.node):
            if isinstance(x, ast.Call) and isinstance(x.func, ast.Attribute) and x.func.attr == 'append':
                for nm in ast.walk(x):
                    if isinstance(nm, ast.Name) and nm.id in ('begin', 'end'):
                        used.add(nm.id)
            if isinstance(x, ast.For) and isinstance(x.iter, ast.Call):
                for nm in ast.walk(x.iter):
                    if isinstance(nm, ast.Name) and nm.id in ('begin', 'end'):
                        used.add(nm.id)
            # the interval returned as a list display: `return [[begin, len(op_signal) - 1]]`
            if isinstance(x, ast.Return) and isinstance(x.value, ast.List):
                for nm in ast.walk(x.value):
                    if isinstance(nm, ast.Name) and nm.id in ('begin', 'end'):
                        used.add(nm.id)
            # the scan written as a while loop: `i = begin` starts it, `i <= end` / `i < end + 1` stops it
            if isinstance(x, ast.Assign) and isinstance(x.value, ast.Name) and x.value.id in ('begin', 'end') and any(isinstance(w_, ast.While) for w_ in ast.walk(g.node)):
                used.add(x.value.id)
            if isinstance(x, ast.While):
                for nm in ast.walk(x.test):
                    if isinstance(nm, ast.Name) and nm.id in ('begin', 'end'):
                        used.add(nm.id)
        if (used == {'begin'} and first) or (used == {'end'} and last):
            rep.ok(rule, g.module.rel, g.qual, slot, 'uses only `%s` of the %s requested interval, which bounds all of them' % (used.pop(), 'first' if first else 'last'), g.node.lineno)
        elif not used:
            rep.error('%s (%s): which end of the picked interval the helper uses is not read (no `begin` / `end` in what it appends, returns or scans)' % (g.where, g.qual))
        else:
            rep.fail(rule, g.module.rel, g.qual, slot, 'only interval [%s] of the requested intervals is honoured (uses %s): when the parent asks for several disjoint intervals the '
                     'others are dropped and the reported samples are no sufficient cause' % (which, sorted(used)), idx[0].lineno)
    return n



def check_signal_index(ix, rep, hs, cls=None, rule='R-INDEX'):
    """a helper that looks at the operand `k` samples before a requested one (`signal[i - 1]` with i running over a requested interval, which may start at 0)
    guards the index: without `i > 0` the request [0, e] reads sample -1 -- the *last* sample of the signal -- and what is reported then depends on a
    sample the value at 0 does not read"""
    n = 0
    funcs = sorted(hs.items())
    if cls is not None:
        # a new helper is inlined into the handler that calls it (E0): the handlers are scanned as well
        for k_ in ix.mro(cls):
            if isinstance(k_, ClassInfo):
                funcs += [('%s.%s' % (k_.name, mn_), mf_) for mn_, mf_ in sorted(k_.methods.items()) if mn_.startswith('visit')]
    for name, f in funcs:
        parent = {}
        for p_ in ast.walk(f.node):
            for c_ in ast.iter_child_nodes(p_):
                parent[id(c_)] = p_
        for x in ast.walk(f.node):
            if not (isinstance(x, ast.Subscript) and isinstance(x.value, ast.Name) and isinstance(x.slice, ast.BinOp) and isinstance(x.slice.op, ast.Sub)
                    and isinstance(x.slice.left, ast.Name) and isinstance(x.slice.right, ast.Constant) and isinstance(x.slice.right.value, int) and x.slice.right.value >= 1):
                continue
            i = x.slice.left.id
            # i is the variable of a loop over range(<name>, ..): a requested position
            loop = None
            q = x
            guards = []
            while id(q) in parent:
                pq = parent[id(q)]
                if isinstance(pq, ast.If) and q is not pq.test and any(q is b_ for b_ in pq.body):
                    guards.append(pq.test)
                if isinstance(pq, ast.IfExp) and q is pq.body:
                    guards.append(pq.test)
                if isinstance(pq, ast.BoolOp) and isinstance(pq.op, ast.And):
                    guards.extend(v_ for v_ in pq.values if v_ is not q)
                if isinstance(pq, ast.For) and isinstance(pq.target, ast.Name) and pq.target.id == i:
                    loop = pq
                    break
                q = pq
            if loop is None or not (isinstance(loop.iter, ast.Call) and isinstance(loop.iter.func, ast.Name) and loop.iter.func.id == 'range' and loop.iter.args):
                continue
            lo = loop.iter.args[0] if len(loop.iter.args) >= 2 else ast.Constant(value=0)
            if isinstance(lo, ast.Constant) and isinstance(lo.value, int) and lo.value >= x.slice.right.value:
                continue
            if isinstance(lo, ast.BinOp) and isinstance(lo.op, ast.Add) and isinstance(lo.right, ast.Constant) and isinstance(lo.right.value, int) and lo.right.value >= x.slice.right.value:
                continue
            n += 1
            rep.analysed(f)
            gtxt = [ast.unparse(g_).replace(' ', '') for g_ in guards]
            ok = any(t_ in ('%s>0' % i, '%s>=1' % i, '%s!=0' % i, '0<%s' % i, '%s-1>=0' % i, '%s>=%d' % (i, x.slice.right.value)) for t_ in gtxt)
            slot = 'index:%s:%s' % (name, ast.unparse(x).replace(' ', ''))
            if ok:
                rep.ok(rule, f.module.rel, f.qual, slot, 'guarded by a test on the index', x.lineno)
            else:
                rep.fail(rule, f.module.rel, f.qual, slot, '`%s` with %s running over a requested interval, which may start at 0: for the request [0, e] the helper reads sample -1, the last sample of '
                         'the signal, and decides by it what is reported for sample 0' % (ast.unparse(x), i), x.lineno)
    return n

def check_handlers(ix, rep, cls, hs):
    """R-EXH of the explainer, handler/helper pairing by polarity, polarity flips, accumulation"""
    d = D.dispatch_of(ix, cls)
    built = set(M.parser_builds(ix))
    n = 0
    normalisers = {}
    for nc in D.node_classes(ix):
        if nc.name not in built:
            continue
        meth, _ = d.method_for(nc, ix)
        cat, info, f = D.classify(ix, cls, meth) if meth else ('missing', None, None)
        slot = 'explainer:%s' % nc.name
        where = f.module.rel if f else cls.module.rel
        sym = f.qual if f else '%s.%s' % (cls.name, meth)
        n += 1
        if f is not None:
            rep.analysed(f)
            rep.unit(f.module.rel)
        if cat == 'missing':
            rep.fail('R-EXH', where, sym, slot, 'no handler method: AttributeError while explaining', None)
            continue
        if cat == 'reject':
            if D.is_rtamt_exception(ix, info) and nc.name in UNSUPPORTED:
                rep.ok('R-EXH', where, sym, slot, 'unsupported operator rejected with RTAMTException', f.node.lineno)
            elif not D.is_rtamt_exception(ix, info):
                rep.fail('R-EXH', where, sym, slot, 'rejected with %s' % getattr(info, 'name', info), f.node.lineno)
            else:
                rep.fail('R-EXH', where, sym, slot, 'operator %s of the supported fragment is rejected' % nc.name, f.node.lineno)
            continue
        if cat == 'fallthrough':
            if nc.name in ('Negate', 'Ln', 'Log'):
                rep.ok('R-EXH', where, sym, slot, 'pointwise arithmetic: the requested intervals are passed to the operands unchanged (visitChildren)', f.node.lineno)
            elif nc.name in UNSUPPORTED:
                rep.fail('R-EXH', where, sym, slot, 'unsupported operator %s is not rejected: its operands are explained as if it were pointwise' % nc.name, f.node.lineno)
            else:
                rep.fail('R-EXH', where, sym, slot, '%s has no explanation handler: intervals are passed through as if it were pointwise' % nc.name, f.node.lineno)
            continue
        # compute: the request is handed on to every operand (a handler that never visits an operand reports none of its variables)
        binary_ = ix.find_class('rtamt.syntax.node.binary_node', 'BinaryNode')
        unary_ = ix.find_class('rtamt.syntax.node.unary_node', 'UnaryNode')
        arity = 2 if ix.is_subclass(nc, binary_) else 1 if ix.is_subclass(nc, unary_) else 0
        if arity:
            reached = _children_reached(ix, cls, f, f.node.args.args[1].arg, set())
            miss = [k for k in range(arity) if 'all' not in reached and k not in reached]
            if miss:
                rep.fail('R-EXPL-ALL', where, sym, slot + ':operands', 'the handler of %s never visits operand %s: nothing below it is explained, the variables it mentions are missing from the '
                         'reported cause' % (nc.name, ', '.join(str(k) for k in miss)), f.node.lineno)
            else:
                rep.ok('R-EXPL-ALL', where, sym, slot + ':operands', 'every operand is visited', f.node.lineno)
        op = HANDLER_OP.get(nc.name)
        calls = [c.func.id[len('explain_'):] for c in ast.walk(f.node) if isinstance(c, ast.Call) and isinstance(c.func, ast.Name) and c.func.id.startswith('explain_')]
        if op is not None and op not in ('prev', 'next') or op in ('prev', 'next'):
            pass
        if op is not None:
            # if flag: sat_<op> else: unsat_<op>
            choice = _polarity_choice(f.node)
            if choice is not None:
                sat, uns = choice
                got = (sat[0].func.id if sat else None, uns[0].func.id if uns else None)
                want = ('explain_sat_%s' % op, 'explain_unsat_%s' % op)
                if got == want:
                    rep.ok('R-EXPL-PAIR', where, sym, slot + ':helpers', '%s / %s' % want, f.node.lineno)
                else:
                    rep.fail('R-EXPL-PAIR', where, sym, slot + ':helpers', 'satisfied/violated %s is explained with %s / %s, expected %s / %s' % ((op,) + got + want), f.node.lineno)
                # bounds passed in (begin, end) order
                for c in sat + uns:
                    if len(c.args) == 4:
                        elem = f.node.args.args[1].arg
                        # (begin, end) of the node *in samples*: bound by one tuple assignment from a normaliser applied to the node, in this order
                        names = [a.id if isinstance(a, ast.Name) else None for a in c.args[2:]]
                        src = None
                        for st in f.node.body:
                            if isinstance(st, ast.Assign) and isinstance(st.targets[0], ast.Tuple) and [getattr(x, 'id', None) for x in st.targets[0].elts] == names \
                                    and isinstance(st.value, ast.Call) and any(isinstance(a, ast.Name) and a.id == elem for a in st.value.args):
                                src = st.value
                        if src is None:
                            if [ast.unparse(a) for a in c.args[2:]] == ['%s.begin' % elem, '%s.end' % elem]:
                                pass      # the written numbers: reported by R-UNITFLOW (raw bounds)
                            else:
                                rep.fail('R-EXPL-PAIR', where, sym, slot + ':bounds', 'helper is given (%s) instead of the node\'s (begin, end)' % ', '.join(ast.unparse(a) for a in c.args[2:]), c.lineno)
                        else:
                            g = ix.resolve_method(cls, src.func.attr) if isinstance(src.func, ast.Attribute) and D._self_call(src) else ix.resolve_expr(f.module, src.func)
                            if g is None or not hasattr(g, 'node'):
                                raise AnalysisError('%s: normaliser `%s` not resolved' % (f.where, ast.unparse(src.func)))
                            normalisers[id(g)] = g
            elif nc.name not in ('Iff', 'Xor'):
                rep.fail('R-EXPL-PAIR', where, sym, slot + ':helpers', 'handler does not choose the helper by polarity', f.node.lineno)
        # operand binding: every way the handler reaches an operand (results[children[k]], visit(children[k], ...)) is used for both operands of a
        # binary node, the helper gets (signal of operand 0, signal of operand 1) and its k-th result goes to operand k
        if ix.is_subclass(nc, ix.find_class('rtamt.syntax.node.binary_node', 'BinaryNode')):
            elem = f.node.args.args[1].arg
            import re as _re
            templ = {}
            for x in ast.walk(f.node):
                if isinstance(x, (ast.Subscript, ast.Call)):
                    txt = ast.unparse(x)
                    m_ = _re.search(r'%s\.children\[(\d)\]' % _re.escape(elem), txt)
                    if m_ and txt.count('%s.children[' % elem) == 1 and (txt.startswith('self.spec.results[') or txt.startswith('self.visit(')):
                        key = 'results' if txt.startswith('self.spec.results[') else 'visit'
                        templ.setdefault(key, set()).add(int(m_.group(1)))
            bslot = slot + ':operands'
            bad_t = [k_ for k_, v_ in templ.items() if v_ != {0, 1}]
            sig = {}
            for st in f.node.body:
                if isinstance(st, ast.Assign) and isinstance(st.targets[0], ast.Name) and ast.unparse(st.value).startswith('self.spec.results[%s.children[' % elem):
                    sig[st.targets[0].id] = int(ast.unparse(st.value).split('children[')[1][0])
            order_bad = None
            res_bad = None
            for c in ast.walk(f.node):
                if isinstance(c, ast.Call) and isinstance(c.func, ast.Name) and c.func.id.startswith('explain_') and len(c.args) >= 3:
                    ks = [sig.get(a.id) if isinstance(a, ast.Name) else None for a in c.args[:2]]
                    if None not in ks and ks != [0, 1]:
                        order_bad = c
            for st in ast.walk(f.node):
                if isinstance(st, ast.Assign) and isinstance(st.targets[0], ast.Tuple) and len(st.targets[0].elts) == 2 and isinstance(st.value, ast.Call) \
                        and isinstance(st.value.func, ast.Name) and st.value.func.id.startswith('explain_'):
                    r0, r1 = [e.id for e in st.targets[0].elts if isinstance(e, ast.Name)][:2]
                    for c in ast.walk(f.node):
                        if isinstance(c, ast.Call) and D._self_call(c) == 'visit' and len(c.args) == 2 and isinstance(c.args[1], ast.List) and c.args[1].elts \
                                and isinstance(c.args[1].elts[0], ast.Name):
                            k_ = 0 if ast.unparse(c.args[0]).endswith('children[0]') else 1
                            if c.args[1].elts[0].id in (r0, r1) and c.args[1].elts[0].id != (r0, r1)[k_]:
                                res_bad = c
            if bad_t:
                rep.fail('R-EXPL-PAIR', where, sym, bslot, 'the handler of the binary operator %s reaches its operands through %s for operand %s only: the other operand\'s '
                         'signal is never read (copy of the wrong child), so its samples are explained from the wrong robustness' % (nc.name, bad_t[0], sorted(templ[bad_t[0]])), f.node.lineno)
            elif order_bad is not None:
                rep.fail('R-EXPL-PAIR', where, sym, bslot, 'the helper is given the operand signals in the order %s' % ast.unparse(order_bad)[:80], order_bad.lineno)
            elif res_bad is not None:
                rep.fail('R-EXPL-PAIR', where, sym, bslot, 'the intervals computed for one operand are passed to the other: %s' % ast.unparse(res_bad)[:80], res_bad.lineno)
            elif templ:
                rep.ok('R-EXPL-PAIR', where, sym, bslot, 'both operands are read and explained, in (left, right) order', f.node.lineno)
        # polarity passed to the operands
        visits = [c for c in ast.walk(f.node) if isinstance(c, ast.Call) and D._self_call(c) == 'visit' and len(c.args) == 2 and isinstance(c.args[1], ast.List) and len(c.args[1].elts) == 2]
        for c in visits:
            if nc.name in ('Rise', 'Fall', 'Neg', 'Implies', 'Previous', 'StrongPrevious', 'Next', 'StrongNext'):
                break      # pointwise: polarity per (operand, offset) is derived from the operator summary in check_footprints
            child = ast.unparse(c.args[0])
            pol = ast.unparse(c.args[1].elts[1]).replace(' ', '')
            pv_ = _polarity_var(f.node)
            pol = {pv_: 'flag', 'not' + pv_: 'notflag', '(not' + pv_ + ')': 'notflag'}.get(pol, pol)
            k = 0 if child.endswith('children[0]') else 1
            flip = (nc.name == 'Neg') or (nc.name == 'Implies' and k == 0)
            want = 'notflag' if flip else 'flag'
            pslot = '%s:polarity:%d' % (slot, k)
            if pol == want:
                rep.ok('R-POLARITY', where, sym, pslot, 'operand %d explained with %s polarity' % (k, 'the opposite' if flip else 'the same'), c.lineno)
            else:
                rep.fail('R-POLARITY', where, sym, pslot, 'operand %d of %s is explained with %s polarity, it contributes with %s polarity: a satisfied antecedent/negated '
                         'operand is explained as if violated, so its samples are not reported' % (k, nc.name, 'the same' if pol == 'flag' else 'the opposite', 'the opposite' if flip else 'the same'), c.lineno)
    # the normalisers the handlers take their bounds from convert to samples: b * U[unit] / (period * U[period unit]), unit = own, else the other
    # bound's, else the default (the evaluation's conversion, R-DIM of C08)
    from sa.rules import units as _units
    from sa.rules import memo as _memo
    for g in normalisers.values():
        _units.check_transformer(ix, rep, None, None, 'samples', func=g)
        # a normaliser that remembers its answers: everything they depend on renews the memo (the period can change between two explain() calls)
        if g.owner is not None:
            _memo.check_method(ix, rep, cls, g, 'normaliser')
    rep.floor('bound normalisers used by the explanation handlers', len(normalisers), 1)
    return n


def _shift_table(rep, hs):
    """{helper name: d} -- by how much each interval helper moves the requested samples, *derived* from the helper (R-SHIFT): the helper's
    output set is compared with {x+d} clipped to the signal for d in {0,-1,+1} by linear arithmetic over all n, b, e"""
    if getattr(rep, '_shift_table', None) is not None:
        return rep._shift_table
    from sa.rules import ivshift
    if not ivshift.self_test():
        raise AnalysisError('R-SHIFT self-test failed')
    table = {}
    for name, want in (('unary', 0), ('prev', -1), ('next', 1)):
        f = resolve_alias(hs, name)
        if f is None:
            raise AnalysisError('explanation helper explain_%s vanished' % name)
        rep.analysed(f)
        try:
            d, dj = ivshift.classify(f.node)
        except ivshift.Unknown as e:
            raise AnalysisError('%s: interval helper not understood (%s)' % (f.where, e))
        slot = 'explainer:helper:%s' % f.node.name
        if d == want:
            table[f.node.name] = d
            rep.ok('R-SHIFT', f.module.rel, f.qual, slot, 'operand samples = requested samples %+d, clipped to the signal (all n, b, e)' % d if d else 'passes the requested samples on', f.node.lineno)
        else:
            w = ivshift.witness(dj, want)
            side = ivshift.equivalent(dj, want)
            ex = ''
            if w:
                n_, b_, e_, x_, impl = w
                ex = ': for %d samples and the request [%d,%d] operand sample %d is %s' % (n_, b_, e_, x_, 'asked for although the value does not read it' if impl else
                                                                                          'read by the value (sample %d of the result reads it) but not asked for' % (x_ - want))
            rep.fail('R-SHIFT', f.module.rel, f.qual, slot, 'the helper does not map the requested samples S to {x%+d | x in S} within the signal (%s)%s; a sample the violation depends on '
                     'and that is not reported can be re-assigned so that the violation disappears' % (want, 'misses samples' if side == 'too-few' else 'adds samples', ex), f.node.lineno)
            table[f.node.name] = want
    fb = resolve_alias(hs, 'binary')
    if fb is None:
        raise AnalysisError('explanation helper explain_binary vanished')
    rb = [s for s in fb.node.body if isinstance(s, ast.Return)]
    p2 = fb.node.args.args[-1].arg
    def _same_intervals(e):
        # the parameter itself or a container copy of it
        if isinstance(e, ast.Call) and isinstance(e.func, ast.Name) and e.func.id == 'list' and len(e.args) == 1:
            e = e.args[0]
        if isinstance(e, ast.Subscript) and isinstance(e.slice, ast.Slice) and e.slice.lower is None and e.slice.upper is None:
            e = e.value
        return ast.unparse(e) == p2
    if len(rb) == 1 and isinstance(rb[0].value, ast.Tuple) and len(rb[0].value.elts) == 2 and all(_same_intervals(e) for e in rb[0].value.elts):
        rep.ok('R-SHIFT', fb.module.rel, fb.qual, 'explainer:helper:%s' % fb.node.name, 'passes the requested samples on to both operands', fb.node.lineno)
    else:
        rep.fail('R-SHIFT', fb.module.rel, fb.qual, 'explainer:helper:%s' % fb.node.name, 'explain_binary does not hand the requested intervals to both operands', fb.node.lineno)
    table[fb.node.name] = 0
    # the arithmetic helpers: the value of x*y, x+y, |x| ... changes with the magnitude of its operands at the requested samples, so each operand is
    # asked for all of them (R-SUPPORT) -- a helper that narrows the request by looking at the signals (`only where the other factor is non-zero`)
    # drops, at a sample where both factors are 0, both of them: re-assigning the two unreported samples makes the product anything
    ARITH = ('abs', 'sqrt', 'exp', 'pow', 'addition', 'multiplication', 'subtraction', 'division', 'log', 'ln', 'negate', 'neg')
    fu = resolve_alias(hs, 'unary')
    for an in ARITH:
        fa = hs.get(an)
        if fa is None:
            continue
        rep.analysed(fa)
        params = [a.arg for a in fa.node.args.args]
        body = [st for st in fa.node.body if not (isinstance(st, ast.Expr) and isinstance(st.value, ast.Constant))]
        ok = False
        if len(body) == 1 and isinstance(body[0], ast.Return) and body[0].value is not None:
            v = body[0].value
            iv = params[-1]

            def same(e):
                if isinstance(e, ast.Call) and isinstance(e.func, ast.Name) and e.func.id == 'list' and len(e.args) == 1:
                    e = e.args[0]
                if isinstance(e, ast.Subscript) and isinstance(e.slice, ast.Slice) and e.slice.lower is None and e.slice.upper is None:
                    e = e.value
                return isinstance(e, ast.Name) and e.id == iv
            if isinstance(v, ast.Call) and isinstance(v.func, ast.Name) and v.func.id in (fb.node.name, fu.node.name if fu is not None else '') and v.args and same(v.args[-1]):
                ok = True
            elif same(v) and len(params) == 2:
                ok = True
            elif isinstance(v, ast.Tuple) and len(v.elts) == len(params) - 1 and all(same(e) for e in v.elts):
                ok = True
        slot = 'explainer:helper:%s:support' % fa.node.name
        if ok:
            rep.ok('R-SUPPORT', fa.module.rel, fa.qual, slot, 'every operand is asked for all requested samples', fa.node.lineno)
        else:
            rep.fail('R-SUPPORT', fa.module.rel, fa.qual, slot, 'the helper of an arithmetic operator does not hand the requested samples to its operands unchanged: the value of the '
                     'operator depends on the magnitude of every operand at every requested sample (for a product: where both factors are 0 a narrowing by "the other factor is '
                     'non-zero" reports neither, and re-assigning both makes the product anything)', fa.node.lineno)
    rep._shift_table = table
    return table


def _children_reached(ix, cls, f, nodep, seen, depth=0):
    """indexes k such that the handler visits <node>.children[k] (itself or through methods of the visitor it hands the node to); 'all' for
    visitChildren / a loop over the children"""
    out = set()
    if id(f) in seen or depth > 4:
        return out
    seen.add(id(f))
    for x in ast.walk(f.node):
        if isinstance(x, (ast.For, ast.comprehension)) and ast.unparse(x.iter).replace(' ', '') in ('%s.children' % nodep,):
            out.add('all')
        if not isinstance(x, ast.Call):
            continue
        name = D._self_call(x)
        if name == 'visitChildren' and x.args and isinstance(x.args[0], ast.Name) and x.args[0].id == nodep:
            out.add('all')
        elif name in ('visit', 'visit_with_own_polarity') or (name and x.args and isinstance(x.args[0], ast.Subscript)):
            a0 = x.args[0] if x.args else None
            if isinstance(a0, ast.Subscript) and ast.unparse(a0.value) == '%s.children' % nodep and isinstance(a0.slice, ast.Constant):
                out.add(a0.slice.value)
        elif name and any(isinstance(a, ast.Name) and a.id == nodep for a in x.args):
            g = ix.resolve_method(cls, name)
            if g is not None and g is not f:
                pos = [i for i, a in enumerate(x.args) if isinstance(a, ast.Name) and a.id == nodep][0]
                ps = [a.arg for a in g.node.args.args][1:]
                if pos < len(ps):
                    out |= _children_reached(ix, cls, g, ps[pos], seen, depth + 1)
    return out


def _polarity_var(fnode):
    """the local that holds the polarity handed down (args[1])"""
    for st in fnode.body:
        if isinstance(st, ast.Assign) and len(st.targets) == 1:
            t, v = st.targets[0], st.value
            if isinstance(t, ast.Name) and ast.unparse(v).replace(' ', '') == 'args[1]':
                return t.id
            if isinstance(t, ast.Tuple) and len(t.elts) == 2 and isinstance(t.elts[1], ast.Name):
                if ast.unparse(v).replace(' ', '') in ('args', 'args[0],args[1]', '(args[0],args[1])', 'args[:2]', 'args[0:2]'):
                    return t.elts[1].id
    return 'flag'


def _polarity_choice(fnode):
    """how a handler picks its helper by polarity -> ([calls made when satisfied], [calls made when violated]) or None.
    `if flag: A(..) else: B(..)`, the same with `not flag` and the arms exchanged, `h = A if flag else B; h(..)` and `(A if flag else B)(..)`"""
    pv = _polarity_var(fnode)

    def pol(t):
        if isinstance(t, ast.Name) and t.id == pv:
            return True
        if isinstance(t, ast.UnaryOp) and isinstance(t.op, ast.Not) and isinstance(t.operand, ast.Name) and t.operand.id == pv:
            return False
        if isinstance(t, ast.Compare) and len(t.ops) == 1 and isinstance(t.left, ast.Name) and t.left.id == pv and isinstance(t.comparators[0], ast.Constant) \
                and isinstance(t.comparators[0].value, bool) and isinstance(t.ops[0], (ast.Eq, ast.Is, ast.NotEq, ast.IsNot)):
            positive = t.comparators[0].value
            return positive if isinstance(t.ops[0], (ast.Eq, ast.Is)) else not positive
        return None

    def calls(stmts):
        return [c for c in ast.walk(ast.Module(body=list(stmts), type_ignores=[])) if isinstance(c, ast.Call) and isinstance(c.func, ast.Name)]
    for st in fnode.body:
        if isinstance(st, ast.If) and pol(st.test) is not None:
            a, b = calls(st.body), calls(st.orelse)
            return (a, b) if pol(st.test) else (b, a)
    # a helper chosen by a conditional expression
    chosen = {}
    for st in fnode.body:
        if isinstance(st, ast.Assign) and len(st.targets) == 1 and isinstance(st.targets[0], ast.Name) and isinstance(st.value, ast.IfExp) \
                and pol(st.value.test) is not None and isinstance(st.value.body, ast.Name) and isinstance(st.value.orelse, ast.Name):
            chosen[st.targets[0].id] = st.value
    for c in ast.walk(fnode):
        if not isinstance(c, ast.Call):
            continue
        sel = None
        if isinstance(c.func, ast.Name) and c.func.id in chosen:
            sel = chosen[c.func.id]
        elif isinstance(c.func, ast.IfExp) and pol(c.func.test) is not None and isinstance(c.func.body, ast.Name) and isinstance(c.func.orelse, ast.Name):
            sel = c.func
        if sel is not None:
            a = ast.copy_location(ast.Call(func=sel.body, args=c.args, keywords=c.keywords), c)
            b = ast.copy_location(ast.Call(func=sel.orelse, args=c.args, keywords=c.keywords), c)
            return ([a], [b]) if pol(sel.test) else ([b], [a])
    return None


def run_extraction(fnode):
    """a helper that scans `for i in range(lo, hi + 1)` with a two-state machine -- opens a run at the first i with C(signal[i]), closes it at the first
    i with not C (emitting [start, i-1]) and emits the run still open after the scan as [start, hi] -- selects { i in [lo, hi] : C(signal[i]) }.
    -> 'ge0' | 'lt0' (the C), or None when the function is not of this shape.  Names are free; the window [lo, hi] is read by ivshift.read_scan_window."""
    params = [a.arg for a in fnode.args.args]
    sig = params[0]
    outer = [s_ for s_ in fnode.body if isinstance(s_, ast.For)]
    if len(outer) != 1:
        return None
    inner = [s_ for s_ in outer[0].body if isinstance(s_, ast.For)]
    if len(inner) != 1 or not isinstance(inner[0].target, ast.Name):
        return None
    i = inner[0].target.id
    it = inner[0].iter
    if not (isinstance(it, ast.Call) and isinstance(it.func, ast.Name) and it.func.id == 'range' and len(it.args) == 2):
        return None
    hi = it.args[1]
    hi_last = ast.unparse(hi.left).replace(' ', '') if isinstance(hi, ast.BinOp) and isinstance(hi.op, ast.Add) and isinstance(hi.right, ast.Constant) and hi.right.value == 1 else None
    if hi_last is None:
        return None

    def pred(t):
        if isinstance(t, ast.Compare) and len(t.ops) == 1 and isinstance(t.left, ast.Subscript) and isinstance(t.left.value, ast.Name) and t.left.value.id == sig \
                and ast.unparse(t.left.slice) == i and isinstance(t.comparators[0], ast.Constant) and t.comparators[0].value == 0:
            if isinstance(t.ops[0], ast.GtE):
                return 'ge0'
            if isinstance(t.ops[0], ast.Lt):
                return 'lt0'
        return None
    if len(inner[0].body) != 1:
        return None
    st = inner[0].body[0]
    if not isinstance(st, ast.If) or len(st.orelse) != 1 or not isinstance(st.orelse[0], ast.If) or st.orelse[0].orelse:
        return None
    a, b = st, st.orelse[0]
    if not (isinstance(a.test, ast.BoolOp) and isinstance(a.test.op, ast.And) and len(a.test.values) == 2 and isinstance(b.test, ast.BoolOp) and isinstance(b.test.op, ast.And)
            and len(b.test.values) == 2):
        return None
    na, ca = a.test.values
    sb, cb = b.test.values
    if not (isinstance(na, ast.UnaryOp) and isinstance(na.op, ast.Not) and isinstance(na.operand, ast.Name) and isinstance(sb, ast.Name) and sb.id == na.operand.id):
        return None
    state = sb.id
    p1, p2 = pred(ca), pred(cb)
    if p1 is None or p2 is None or p1 == p2:
        return None
    start = None
    for x in a.body:
        if isinstance(x, ast.Assign) and isinstance(x.targets[0], ast.Name) and ast.unparse(x.value) == i:
            start = x.targets[0].id
    opens = [ast.unparse(x).replace(' ', '') for x in a.body]
    closes = [ast.unparse(x).replace(' ', '') for x in b.body]
    app = [x for x in b.body if isinstance(x, ast.Expr) and isinstance(x.value, ast.Call) and isinstance(x.value.func, ast.Attribute) and x.value.func.attr == 'append']
    if start is None or '%s=True' % state not in opens or '%s=False' % state not in closes or len(app) != 1 \
            or ast.unparse(app[0].value.args[0]).replace(' ', '') != '[%s,%s-1]' % (start, i):
        return None
    # nothing else in the two arms (a `break` after the first closed run makes the scan stop at one witness: not the selection described above)
    if len(a.body) != 2 or len(b.body) != 2 or any(isinstance(x, (ast.Break, ast.Continue, ast.Return)) for x in ast.walk(inner[0])):
        return None
    outname = app[0].value.func.value.id
    tail = [x for x in outer[0].body if isinstance(x, ast.If) and isinstance(x.test, ast.Name) and x.test.id == state]
    if len(tail) != 1 or ast.unparse(tail[0].body[0]).replace(' ', '') != '%s.append([%s,%s])' % (outname, start, hi_last):
        return None
    if not any(isinstance(x, ast.Assign) and ast.unparse(x).replace(' ', '') == '%s=False' % state for x in outer[0].body):
        return None
    return p1


def selection_of(fnode):
    """run-extraction idiom: for each requested [begin,end] a two-state scan over range(begin, end+1) that opens a run at the first i with
    C(signal[i]) and closes it at the first i with not C, and emits the open run after the loop: output k = { i in request : C_k(i) }.
    -> {output position: (index of the signal parameter, 'ge0' | 'lt0')} or None when the function is not of this shape"""
    params = [a.arg for a in fnode.args.args]
    rets = [s for s in fnode.body if isinstance(s, ast.Return)]
    if len(rets) != 1 or not isinstance(rets[0].value, ast.Tuple):
        return None
    outs = [e.id for e in rets[0].value.elts if isinstance(e, ast.Name)]
    loops = [s for s in fnode.body if isinstance(s, ast.For)]
    if len(loops) != 1 or len(outs) != len(rets[0].value.elts):
        return None
    outer = loops[0]
    inner = [s for s in outer.body if isinstance(s, ast.For)]
    if len(inner) != 1 or not isinstance(inner[0].target, ast.Name):
        return None
    it = inner[0].iter
    if not (isinstance(outer.target, ast.Tuple) and len(outer.target.elts) == 2 and isinstance(it, ast.Call) and ast.unparse(it.func) == 'range' and len(it.args) == 2
            and ast.unparse(it.args[0]) == outer.target.elts[0].id and ast.unparse(it.args[1]).replace(' ', '') == '%s+1' % outer.target.elts[1].id):
        return None
    i = inner[0].target.id

    def pred(t):
        """signal[i] >= 0 / < 0 -> (param index, kind)"""
        if isinstance(t, ast.Compare) and len(t.ops) == 1 and isinstance(t.left, ast.Subscript) and isinstance(t.left.value, ast.Name) and t.left.value.id in params \
                and ast.unparse(t.left.slice) == i and isinstance(t.comparators[0], ast.Constant) and t.comparators[0].value == 0:
            if isinstance(t.ops[0], ast.GtE):
                return (params.index(t.left.value.id), 'ge0')
            if isinstance(t.ops[0], ast.Lt):
                return (params.index(t.left.value.id), 'lt0')
        return None
    result = {}
    for st in inner[0].body:
        if not isinstance(st, ast.If) or len(st.orelse) != 1 or not isinstance(st.orelse[0], ast.If) or st.orelse[0].orelse:
            return None
        a, b = st, st.orelse[0]
        if not (isinstance(a.test, ast.BoolOp) and isinstance(a.test.op, ast.And) and len(a.test.values) == 2 and isinstance(b.test, ast.BoolOp) and len(b.test.values) == 2):
            return None
        na, ca = a.test.values
        sb, cb = b.test.values
        if not (isinstance(na, ast.UnaryOp) and isinstance(na.op, ast.Not) and isinstance(na.operand, ast.Name) and isinstance(sb, ast.Name) and sb.id == na.operand.id):
            return None
        state = sb.id
        p1, p2 = pred(ca), pred(cb)
        if p1 is None or p2 is None or p1[0] != p2[0] or p1[1] == p2[1]:
            return None
        opens = [ast.unparse(x).replace(' ', '') for x in a.body]
        start = None
        for x in a.body:
            if isinstance(x, ast.Assign) and isinstance(x.targets[0], ast.Name) and ast.unparse(x.value) == i:
                start = x.targets[0].id
        if '%s=True' % state not in opens or start is None:
            return None
        closes = [ast.unparse(x).replace(' ', '') for x in b.body]
        app = [x for x in b.body if isinstance(x, ast.Expr) and isinstance(x.value, ast.Call) and isinstance(x.value.func, ast.Attribute) and x.value.func.attr == 'append']
        if '%s=False' % state not in closes or len(app) != 1 or ast.unparse(app[0].value.args[0]).replace(' ', '') != '[%s,%s-1]' % (start, i):
            return None
        outname = app[0].value.func.value.id
        # the run still open when the request ends
        tail = [x for x in outer.body if isinstance(x, ast.If) and isinstance(x.test, ast.Name) and x.test.id == state]
        if len(tail) != 1 or ast.unparse(tail[0].body[0]).replace(' ', '') != '%s.append([%s,%s])' % (outname, start, i):
            return None
        # state initialised closed per request
        if not any(isinstance(x, ast.Assign) and ast.unparse(x).replace(' ', '') == '%s=False' % state for x in outer.body):
            return None
        if outname in outs:
            result[outs.index(outname)] = p1
    return result or None


def _visit_facts(ix, cls, f, subst=None, depth=0):
    """[(child expr text, intervals expr, flag expr, defining function, substitution)] for every self.visit(child, [intervals, flag]) executed by f,
    following calls of helper methods of the explainer (parameters replaced by the arguments)"""
    subst = subst or {}
    out = []
    for c in ast.walk(f.node):
        if not isinstance(c, ast.Call):
            continue
        m = D._self_call(c)
        if m == 'visit' and len(c.args) == 2 and isinstance(c.args[1], ast.List) and len(c.args[1].elts) == 2:
            out.append((c.args[0], c.args[1].elts[0], c.args[1].elts[1], f, subst, c))
        elif m and not (m.startswith('visit') and (len(m) == 5 or m[5].isupper())) and depth < 2:
            g = ix.resolve_method(cls, m)
            if g is not None and g is not f:
                ps = [a.arg for a in g.node.args.args[1:]]
                sub2 = {p: (a, f, subst) for p, a in zip(ps, c.args)}
                out += _visit_facts(ix, cls, g, sub2, depth + 1)
    return out


def _resolve(e, f, subst):
    """follow parameter substitution and single local definitions -> (expr, function, subst) of the defining expression"""
    for _ in range(6):
        if isinstance(e, ast.Name) and e.id in subst:
            e, f, subst = subst[e.id]
            continue
        if isinstance(e, ast.Name):
            ds = [st for st in ast.walk(f.node) if isinstance(st, ast.Assign) and len(st.targets) == 1 and isinstance(st.targets[0], ast.Name) and st.targets[0].id == e.id]
            if len(ds) == 1:
                e = ds[0].value
                continue
        break
    return e, f, subst


def check_nonmonotone(ix, rep, cls, hs, rule='R-POLARITY'):
    """iff and xor are not monotone in their operands: whether they hold is fixed by the truth values of *both* operands, so a violated iff has one
    operand that holds and one that does not.  Asking both "why are you violated" (the polarity of the connective) makes the holding operand
    report nothing, and re-assigning its samples can turn it false and the iff true.  Each operand has to be asked with its own polarity: as
    holding on the requested samples where its value is >= 0, as violated on the others."""
    from sa.props import c01, c02
    mon = [m for m in M.standard_monitors(ix) if m.kind == 'discrete-offline'][0]
    sums, _ = c01.opsum_offline_discrete(ix, c02._Quiet(rep), mon)
    d = D.dispatch_of(ix, cls)
    n = 0
    for nc in D.node_classes(ix):
        nf = sums.get(nc.name)
        if nf is None or nf[0] != 'pointwise' or '.arithmetic.' in nc.module.name + '.' or nc.name == 'Predicate':
            continue
        # operands below a function that is neither min, max nor negation
        nonmono = set()

        def walk(e, inside):
            if isinstance(e, tuple) and e:
                if not isinstance(e[0], str):
                    for a_ in e:
                        walk(a_, inside)
                    return
                if e[0] == 'x':
                    if inside:
                        nonmono.add(e[1])
                    return
                nxt = inside or e[0] not in ('min', 'max', 'neg', 'table')
                for a_ in e[1:]:
                    walk(a_, nxt)
        walk(nf[1], False)
        if not nonmono:
            continue
        meth, _ = d.method_for(nc, ix)
        cat, info, f = D.classify(ix, cls, meth) if meth else ('missing', None, None)
        if cat != 'compute':
            continue
        rep.analysed(f)
        facts = _visit_facts(ix, cls, f)
        for k in sorted(nonmono):
            n += 1
            slot = 'explainer:%s:own-polarity:%d' % (nc.name, k)
            have = set()
            for (child, iv, flag, g, subst, call) in facts:
                ce, _, _ = _resolve(child, g, subst)
                if not ast.unparse(ce).endswith('children[%d]' % k):
                    continue
                if not (isinstance(flag, ast.Constant) and isinstance(flag.value, bool)):
                    continue
                # the intervals: output j of a selection helper applied to this operand's own signal
                ive = iv
                sel = None
                if isinstance(ive, ast.Name):
                    for st in ast.walk(g.node):
                        if isinstance(st, ast.Assign) and isinstance(st.value, ast.Call) and isinstance(st.value.func, ast.Name) and st.value.func.id.startswith('explain_'):
                            tg = st.targets[0]
                            names = [x.id if isinstance(x, ast.Name) else None for x in (tg.elts if isinstance(tg, ast.Tuple) else [tg])]
                            if ive.id in names:
                                h = resolve_alias(hs, st.value.func.id[len('explain_'):])
                                so = selection_of(h.node) if h is not None else None
                                j = names.index(ive.id)
                                if so and j in so:
                                    pidx, kind = so[j]
                                    sig, sf, ss = _resolve(st.value.args[pidx], g, subst)
                                    if ast.unparse(sig).replace(' ', '').endswith('results[%s]' % ast.unparse(ce).replace(' ', '')):
                                        sel = kind
                if (flag.value is True and sel == 'ge0') or (flag.value is False and sel == 'lt0'):
                    have.add(flag.value)
            if have == {True, False}:
                rep.ok(rule, f.module.rel, f.qual, slot, 'asked as holding where its own value is >= 0 and as violated where it is < 0', f.node.lineno)
                # necessary, not sufficient: the *value* of iff/xor is -|l - r| / |l - r|, so it also changes when an operand keeps its truth value
                # and changes its magnitude.  A sufficient cause has to pin the operand's value, i.e. report its whole support; the explainer
                # only has polarity-directed explanations (a holding `p -> q` is explained by whichever side makes it hold).  Sound forms: the
                # handler rejects operands that are not predicates, or asks for the full support (no such mode exists in the explainer).
                rejects = any(isinstance(x, ast.Raise) for x in ast.walk(f.node))
                sslot = 'explainer:%s:full-support:%d' % (nc.name, k)
                if rejects:
                    rep.ok('R-SUPPORT', f.module.rel, f.qual, sslot, 'compound operands are rejected', f.node.lineno)
                else:
                    rep.fail('R-SUPPORT', f.module.rel, f.qual, sslot, 'the value of %s is %s|l - r|: it changes with the magnitude of an operand, not only with its truth value, so a '
                             'sufficient cause has to contain everything operand %d depends on.  The operand is explained by polarity (what makes it hold / fail), which for a compound '
                             'operand is a part of its support: `((x>=0) -> (y>=0)) iff (z>=0)` with x = -2, y = -1, z = 5 is violated (-3), x@0 and z@0 are reported, and y@0 := 5 '
                             'makes both sides 5 and the formula hold' % (nc.name, '-' if nc.name == 'Iff' else '', k), f.node.lineno)
            else:
                rep.fail(rule, f.module.rel, f.qual, slot, '%s is not monotone in operand %d, but the operand is not asked with its own polarity (as holding on the requested samples where '
                         'it holds, as violated on the others; found: %s): in a violated `p %s q` an operand that holds is asked why it is violated and reports nothing -- re-assigning '
                         'its samples changes its truth value and, with it, that of the formula' % (nc.name, k, sorted(have) or 'the polarity of the connective for both', 'iff' if nc.name == 'Iff' else 'xor'),
                         f.node.lineno)
    return n


def check_footprints(ix, rep, cls, hs, rule='R-EXPL-ALL'):
    """a pointwise operator whose value at t reads its operand at offsets S (from the operator summary of the offline handler: prev {-1}, next {+1},
    rise/fall {-1, 0}, everything else {0}) must ask its operand to explain every offset in S -- a sample the value depends on and that is not
    reported can be re-assigned so that the violation disappears -- and with the polarity the summary gives that occurrence (the parity of the
    negations above the leaf: rise = min(x[t], neg x[t-1]) needs x[t] with the same and x[t-1] with the opposite polarity)"""
    from sa.props import c01, c02
    mon = {m.kind: m for m in M.standard_monitors(ix)}['discrete-offline']
    sums, _ = c01.opsum_offline_discrete(ix, c02._Quiet(rep), mon)
    d = D.dispatch_of(ix, cls)
    n = 0
    for nc in D.node_classes(ix):
        nf = sums.get(nc.name)
        if nf is None or nf[0] != 'pointwise' or (isinstance(nf[1], tuple) and nf[1] and nf[1][0] == 'table'):
            continue
        if nc.name in ('Iff', 'Xor'):
            continue      # not monotone in their operands: no polarity
        need = {}

        def leaves(e, neg):
            if isinstance(e, tuple) and e:
                if not isinstance(e[0], str):
                    for a_ in e:
                        if isinstance(a_, tuple):
                            leaves(a_, neg)
                    return
                if e[0] == 'x':
                    need.setdefault((e[1], e[2]), set()).add('notflag' if neg else 'flag')
                    return
                if e[0] == 'neg':
                    leaves(e[1], not neg)
                    return
                if e[0] not in ('min', 'max'):
                    # arithmetic: the explanation passes the intervals on unchanged, polarity is not meaningful
                    for a_ in e[1:]:
                        if isinstance(a_, tuple):
                            leaves_any(a_)
                    return
                for a_ in (e[1:] if isinstance(e[0], str) else e):
                    if isinstance(a_, tuple):
                        leaves(a_, neg)

        def leaves_any(e):
            if isinstance(e, tuple) and e:
                if e[0] == 'x':
                    need.setdefault((e[1], e[2]), set()).add('any')
                    return
                for a_ in (e[1:] if isinstance(e[0], str) else e):
                    if isinstance(a_, tuple):
                        leaves_any(a_)
        leaves(nf[1], False)
        if all(k[1] == 0 for k in need) and nc.name not in ('Neg', 'Implies'):
            continue
        meth, _ = d.method_for(nc, ix)
        cat, info, f = D.classify(ix, cls, meth) if meth else ('missing', None, None)
        if cat != 'compute':
            continue
        n += 1
        rep.analysed(f)
        defs = {}
        for st in ast.walk(f.node):
            if isinstance(st, ast.Assign) and isinstance(st.value, ast.Call) and isinstance(st.value.func, ast.Name) and st.value.func.id.startswith('explain_'):
                g = resolve_alias(hs, st.value.func.id[len('explain_'):])
                gname = g.node.name if g is not None else st.value.func.id
                tg = st.targets[0]
                if isinstance(tg, ast.Name):
                    defs[tg.id] = (gname, None)
                elif isinstance(tg, ast.Tuple):
                    for j, e_ in enumerate(tg.elts):
                        if isinstance(e_, ast.Name):
                            defs[e_.id] = (gname, j)
        SHIFT = _shift_table(rep, hs)
        got = {}
        other = set()
        for c in ast.walk(f.node):
            if isinstance(c, ast.Call) and D._self_call(c) == 'visit' and len(c.args) == 2 and isinstance(c.args[1], ast.List) and len(c.args[1].elts) == 2:
                k = 0 if ast.unparse(c.args[0]).endswith('children[0]') else 1
                iv = c.args[1].elts[0]
                pol = ast.unparse(c.args[1].elts[1]).replace(' ', '')
                sh = None
                if isinstance(iv, ast.Name) and iv.id in defs and defs[iv.id][0] in SHIFT:
                    sh = SHIFT[defs[iv.id][0]]
                elif isinstance(iv, ast.Name) and iv.id == 'intervals':
                    sh = 0
                elif isinstance(iv, ast.Name) and iv.id in defs:
                    # a polarity-specific helper (explain_sat_or ...): it selects among the requested samples, offset 0
                    sh = 0
                if sh is None:
                    other.add(k)
                else:
                    got.setdefault((k, sh), set()).add(pol)
        slot = 'explainer:%s:footprint' % nc.name
        probs = []
        for (k, sh), pols in sorted(need.items()):
            have = got.get((k, sh))
            if have is None:
                probs.append('the value of %s at t depends on operand %d at offset %+d but the explanation never asks that operand about that offset (asked: %s): the sample is not '
                             'reported and re-assigning it can remove the violation' % (nc.name, k, sh, sorted(o for (kk, o) in got if kk == k) or 'nothing'))
            elif 'any' not in pols and not (pols & have):
                probs.append('operand %d at offset %+d contributes with %s polarity but is explained with %s' % (
                    k, sh, 'the opposite' if 'notflag' in pols else 'the same', 'the same' if 'flag' in have else 'the opposite'))
        if probs:
            for pr in probs:
                polr = 'contributes with' in pr
                rep.fail('R-POLARITY' if polr else rule, f.module.rel, f.qual, slot + (':polarity' if polr else ''), pr, f.node.lineno)
        else:
            rep.ok(rule, f.module.rel, f.qual, slot, 'asks about %s' % sorted('operand %d offset %+d (%s)' % (k, sh, '/'.join(sorted(p))) for (k, sh), p in need.items()), f.node.lineno)
    return n


def check_accumulation(ix, rep, cls, rule='R-ACCUM'):
    """explanations[k] = v must merge when k can repeat; the table is cleared per explain(); nothing is visited unless the top value is negative"""
    init = ix.resolve_method(cls, '__init__')
    # type of self.explanations
    etype = None
    for c in ix.mro(cls):
        if isinstance(c, ClassInfo) and '__init__' in c.methods:
            for st in ast.walk(c.methods['__init__'].node):
                if isinstance(st, ast.Assign) and ast.unparse(st.targets[0]) == 'self.explanations' and isinstance(st.value, ast.Call):
                    etype = ix.resolve_expr(c.module, st.value.func)
    merging = False
    if isinstance(etype, ClassInfo):
        si = ix.resolve_method(etype, '__setitem__')
        if si is not None:
            src = ast.unparse(si.node)
            merging = 'interval_union' in src and ' in self' in src
            rep.analysed(si)
    # alternatively every store site merges explicitly
    sites = []
    for c in ix.mro(cls):
        if isinstance(c, ClassInfo):
            for f in c.methods.values():
                for st in ast.walk(f.node):
                    if isinstance(st, ast.Assign) and isinstance(st.targets[0], ast.Subscript) and ast.unparse(st.targets[0].value) == 'self.explanations':
                        sites.append((f, st))
    if merging:
        rep.ok(rule, etype.module.rel, etype.name + '.__setitem__', 'merge', 'storing under an existing name merges the intervals (%d store sites)' % len(sites), etype.node.lineno)
        # ... on every path: a path that returns without storing loses the new intervals, unless it is taken only when there are none.  (An "already
        # covered" shortcut that compares with the span of the stored list -- first begin to last end -- drops an interval lying in a gap.)
        from sa import flow as _flow20
        ivp = si.node.args.args[-1].arg
        cfg = _flow20.CFG(si.node)

        def _is_store(st):
            return st is not None and any(isinstance(c, ast.Call) and isinstance(c.func, ast.Attribute) and c.func.attr == '__setitem__' for c in ast.walk(st)) \
                and not isinstance(st, (ast.If, ast.For, ast.While, ast.FunctionDef))
        blocked = {n for n in cfg.nodes() if _is_store(cfg.stmt[n])}
        # arms taken only when the new intervals are empty
        for n in cfg.nodes():
            st = cfg.stmt[n]
            if isinstance(st, ast.If):
                t = ast.unparse(st.test).replace(' ', '')
                if t in ('not%s' % ivp, 'len(%s)==0' % ivp, '%s==[]' % ivp, 'not%s:' % ivp):
                    for x in st.body:
                        for y in ast.walk(x):
                            if cfg.node(y) is not None:
                                blocked.add(cfg.node(y))
        seen, stack = set(), [cfg.entry]
        while stack:
            n = stack.pop()
            if n in seen or n in blocked:
                continue
            seen.add(n)
            stack.extend(cfg.succ[n])
        if cfg.exit in seen:
            rep.fail(rule, si.module.rel, si.qual, 'merge:every-path', '__setitem__ can return without storing although the new list of intervals is not empty: what a later visit of '
                     'the same variable or sub-formula adds is dropped (a shortcut that compares with the span of the stored intervals loses an interval lying in a gap between them)',
                     si.node.lineno)
        else:
            rep.ok(rule, si.module.rel, si.qual, 'merge:every-path', 'every path with new intervals stores the union', si.node.lineno)
    else:
        explicit = all('interval_union' in ast.unparse(st.value) or '.get(' in ast.unparse(st.value) for f, st in sites)
        if sites and explicit:
            rep.ok(rule, sites[0][0].module.rel, cls.name, 'merge', 'every store merges with the existing entry', sites[0][1].lineno)
        else:
            f, st = sites[0] if sites else (init, init.node)
            rep.fail(rule, f.module.rel, cls.name, 'merge', 'explanations[name] = intervals overwrites: a variable or sub-formula reached twice keeps only the intervals of the '
                     'last visit (%d plain store sites)' % len(sites), st.lineno)
    ex = ix.resolve_method(cls, 'explain')
    rep.analysed(ex)
    src = ast.unparse(ex.node).replace(' ', '')
    if 'self.explanations.clear()' in src or 'self.explanations=' in src:
        rep.ok(rule, ex.module.rel, ex.qual, 'cleared', 'the table is emptied at the start of explain()', ex.node.lineno)
    else:
        rep.fail(rule, ex.module.rel, ex.qual, 'cleared', 'explain() does not empty the table: after a satisfied evaluation the explanations of an earlier violated one are still reported', ex.node.lineno)
    # gate
    visits = [c for c in ast.walk(ex.node) if isinstance(c, ast.Call) and D._self_call(c) == 'visit']
    gated = False
    binds = {}
    for n in ast.walk(ex.node):
        if isinstance(n, ast.Assign) and len(n.targets) == 1 and isinstance(n.targets[0], ast.Name):
            binds[n.targets[0].id] = n.value

    def _is_top_value(e):
        # <signal of the specification's last assertion>[0], the signal read from the results table (through locals)
        if not (isinstance(e, ast.Subscript) and ast.unparse(e.slice) == '0'):
            return False
        b = e.value
        seen_ = 0
        while isinstance(b, ast.Name) and b.id in binds and seen_ < 5:
            b = binds[b.id]
            seen_ += 1
        return '.results[' in ast.unparse(b)
    for n in ast.walk(ex.node):
        if isinstance(n, ast.If) and isinstance(n.test, ast.Compare) and len(n.test.ops) == 1 and all(any(v is x for x in ast.walk(ast.Module(body=n.body, type_ignores=[]))) for v in visits):
            l, op, r = n.test.left, n.test.ops[0], n.test.comparators[0]
            if (isinstance(op, ast.Lt) and _is_top_value(l) and ast.unparse(r) in ('0', '0.0')) or (isinstance(op, ast.Gt) and _is_top_value(r) and ast.unparse(l) in ('0', '0.0')):
                gated = True
    arg_ok = all(ast.unparse(v.args[1]).replace(' ', '') == '[[[0,0]],False]' for v in visits)
    if gated and arg_ok and visits:
        rep.ok(rule, ex.module.rel, ex.qual, 'gate', 'explanation starts at sample 0 with violated polarity, only when the value at 0 is negative', ex.node.lineno)
    else:
        rep.fail(rule, ex.module.rel, ex.qual, 'gate', 'explain() does not start from ([[0,0]], violated) guarded by `top_signal[0] < 0`', ex.node.lineno)


def check_output_only(ix, rep, cls, rule='R-ACCUM'):
    """"the specification" is the assertion evaluate() returns -- the last entry of ast.specs; the sub-specifications in front of it are explained
    where it refers to them.  An explain() that starts a traversal at every entry reports, for a *satisfied* specification, the samples of a
    violated sub-specification (say the antecedent of an implication): the property's second clause, "for a specification that is satisfied at time
    0 nothing is reported"."""
    n = 0
    seen = set()
    for k in ix.mro(cls):
        ex = getattr(k, 'methods', {}).get('explain')
        if ex is None or id(ex) in seen:
            continue
        seen.add(id(ex))
        rep.analysed(ex)
        n += 1
        loops = [l for l in ast.walk(ex.node) if isinstance(l, ast.For) and ast.unparse(l.iter).endswith('.specs')
                 and any(isinstance(c, ast.Call) and D._self_call(c) == 'visit' for c in ast.walk(l))]
        visits = [c for c in ast.walk(ex.node) if isinstance(c, ast.Call) and D._self_call(c) == 'visit']
        last = False
        for c in visits:
            a = c.args[0] if c.args else None
            e = a
            if isinstance(a, ast.Name):
                ds = [st.value for st in ast.walk(ex.node) if isinstance(st, ast.Assign) and len(st.targets) == 1 and isinstance(st.targets[0], ast.Name) and st.targets[0].id == a.id]
                if len(ds) == 1:
                    e = ds[0]
            t = ast.unparse(e).replace(' ', '') if e is not None else ''
            if t.endswith('.specs[-1]') or ('.specs[len(' in t and t.endswith('.specs)-1]')):
                last = True
        if loops:
            rep.fail(rule, ex.module.rel, ex.qual, 'output-only', 'explain() starts a traversal at every entry of ast.specs whose value at 0 is negative: a sub-specification that is violated is '
                     'explained although the specification (the last assertion, the one evaluate() returns) is satisfied -- `p = (x>=0); out = p or (y>=0)` with x = -1, y = 2 is '
                     'satisfied (2.0) and x@0 is reported', loops[0].lineno)
        elif last:
            rep.ok(rule, ex.module.rel, ex.qual, 'output-only', 'only the output assertion (last entry of ast.specs) is explained', ex.node.lineno)
        else:
            raise AnalysisError('%s: which assertion explain() starts from is not recognised' % ex.where)
    return n


def check_union(ix, rep, rule='R-ACCUM'):
    """the merging primitive: sorted iteration, overlap-or-adjacent test, merged end = max of the two ends"""
    n = 0
    for modn in (LTL_MOD, STL_MOD):
        m = ix.module(modn)
        f = m.functions.get('interval_union')
        if f is None:
            continue
        n += 1
        rep.analysed(f)
        loop = [s for s in f.node.body if isinstance(s, ast.For)]
        probs = []
        if not loop or 'sorted(' not in ast.unparse(loop[0].iter):
            probs.append('does not iterate over the intervals in sorted order')
        else:
            b, e = [x.id for x in loop[0].target.elts] if isinstance(loop[0].target, ast.Tuple) else (None, None)
            merged = None
            for st in ast.walk(loop[0]):
                if isinstance(st, ast.Assign) and isinstance(st.targets[0], ast.Subscript) and ast.unparse(st.targets[0]).replace(' ', '') == 'out[-1][1]':
                    merged = st.value
            other_store = [st for st in ast.walk(loop[0]) if isinstance(st, ast.Assign) and isinstance(st.targets[0], ast.Subscript) and ast.unparse(st.targets[0].slice) == '1']
            if merged is None and other_store:
                # the last interval is extended through a local alias / a guarded store: a form that is not read here (the guarded store `if e > x[1]: x[1] = e` is max)
                st_ = other_store[0]
                guarded_max = False
                for iff in ast.walk(loop[0]):
                    if isinstance(iff, ast.If) and any(st_ is q for q in iff.body) and isinstance(iff.test, ast.Compare) and len(iff.test.ops) == 1:
                        l_, r_ = ast.unparse(iff.test.left).replace(' ', ''), ast.unparse(iff.test.comparators[0]).replace(' ', '')
                        tgt = ast.unparse(st_.targets[0]).replace(' ', '')
                        val = ast.unparse(st_.value).replace(' ', '')
                        if (isinstance(iff.test.ops[0], ast.Gt) and l_ == val == e and r_ == tgt) or (isinstance(iff.test.ops[0], ast.Lt) and r_ == val == e and l_ == tgt):
                            guarded_max = True
                if not guarded_max:
                    rep.error('%s (interval_union): how the last interval is extended is not read (`%s`)' % (f.where, ast.unparse(st_)[:50]))
                    continue
                merged = ast.parse('max(out[-1][1], %s)' % e, mode='eval').body
            if merged is None:
                probs.append('never extends the last interval')
            else:
                ok = isinstance(merged, ast.Call) and getattr(merged.func, 'id', None) == 'max' and \
                    sorted(ast.unparse(a).replace(' ', '') for a in merged.args) == sorted(['out[-1][1]', e])
                if not ok:
                    probs.append('extends the last interval to `%s` instead of max(old end, new end): an interval nested in the previous one shrinks the union' % ast.unparse(merged))
        if probs:
            for pr in probs:
                rep.fail(rule, m.rel, 'interval_union', 'union', 'interval_union %s' % pr, f.node.lineno)
        else:
            rep.ok(rule, m.rel, 'interval_union', 'union', 'sorted, overlap-or-adjacent merge keeps the larger end', f.node.lineno)
    return n


def check(ix, rep):
    hs = helpers(ix)
    rep.floor('explanation helper functions', len(hs), 45)
    cls = ix.find_class('rtamt.explanation.stl.discrete_time.explainer', 'STLExplainer')
    nh = check_handlers(ix, rep, cls, hs)
    rep.floor('explainer dispatch cells', nh, 38)
    nd = check_direction(ix, rep, hs)
    rep.floor('directional helpers', nd, 12)
    nm = check_duals(ix, rep, hs)
    rep.floor('sat/unsat dual pairs', nm, 10)
    na = check_all_intervals(ix, rep, hs)
    rep.floor('helpers checked for honouring every interval', na, 20)
    check_signal_index(ix, rep, hs, cls)      # zero sites on today's tree (no helper looks at an earlier sample by index); instances appear with such a helper
    check_accumulation(ix, rep, cls)
    noo = check_output_only(ix, rep, cls)
    rep.floor('explain() entry points', noo, 1)
    nfp = check_footprints(ix, rep, cls, hs)
    nnm = check_nonmonotone(ix, rep, cls, hs)
    from sa.rules import units as _u
    npa = _u.check_period_reaches_ast(ix, rep)
    rep.floor('sampling settings the explainer reads from the ast', npa, 2)
    from sa.rules import unitflow
    nrb = unitflow.check_raw_bounds(ix, rep, prefixes=('rtamt/explanation/', 'rtamt/pastifier/stl/horizon'), label='explainer')
    rep.floor('functions reading the bounds of a timed node (explainer and its normaliser)', nrb, 1)
    rep.floor('operands of non-monotone connectives (iff, xor)', nnm, 4)
    rep.floor('shifting pointwise operators checked for their explanation footprint', nfp, 6)
    nu = check_union(ix, rep)
    rep.floor('interval_union definitions', nu, 1)
    explanation = (
        'Necessary structural conditions of "the reported samples are a sufficient cause", each of which a concrete failing input exists for when '
        'broken. R-EXH: every operator of the supported fragment has an explanation handler, until/since/precedes are rejected with '
        'RTAMTException, pass-through only for pointwise arithmetic. R-EXPL-PAIR: each handler picks explain_sat_<op> / explain_unsat_<op> of its '
        'own operator by polarity and passes (begin, end). R-POLARITY: the polarity handed to an operand is flipped exactly under `not` and for '
        'the antecedent of `implies`. R-EXPL-DIR: helpers of past operators move intervals backwards (begin-b, end-a, clamp 0), of future operators '
        'forwards (begin+a, end+b, clamp len-1). R-EXPL-MIRROR: explaining a violated always/historically/and (..) is the sign-flipped copy of '
        'explaining a satisfied eventually/once/or (..), for the unbounded and bounded helpers. R-EXPL-ALL: a helper iterates over all requested '
        'intervals, or picks the first (when only `begin` matters) / last (when only `end` matters). R-ACCUM: storing explanations under a name that '
        'repeats merges; the table is emptied per explain(); nothing is visited unless the value at sample 0 is negative.')
    assumptions = ['sufficiency itself quantifies over all re-assignments of unreported samples and is NOT decided; these are necessary conditions',
                   'the offline results the explainer reads are correct (C01)']
    return explanation, assumptions, 'one instance per dispatch cell, helper pairing, polarity edge, helper direction, dual pair, helper interval use', {'exhaustive': True}
