"""C15  Syntactic variants and documented sugar denote the same monitor."""
from sa.index import AnalysisError
from sa import grammar as G, genparser as GP
from sa.rules import parserrules as P


def check(ix, rep):
    from sa.rules import round11 as _r11
    rep.floor('integer literal conversions with a base', _r11.check_literal_bases(ix, rep), 2)
    grammars = G.load(ix.repo)
    for n in grammars:
        rep.unit('rtamt/antlr/grammar/tl/%s.g4' % n)
    rules = G.effective_rules(grammars, 'StlParser')
    ltl, stl, absast = P.parser_classes(ix)
    na = P.check_aliases(ix, rep, grammars)
    rep.floor('alias tokens', na, 16)
    nt = P.check_textfree(ix, rep, [ltl, stl], grammars, rules)
    rep.floor('getText() sites in the builders', nt, 10)
    P.check_text_comparisons(ix, rep, grammars, rules)
    P.check_builder_shape(ix, rep)
    P.check_string_index(ix, rep)
    npz = P.check_precedence(ix, rep, grammars)
    rep.floor('binary alternatives with precedence facts', npz, 22)
    # ... and the grouping by precedence is what the user gets: the listener does not turn the parser's resolution of a choice into an error
    # (redundant parentheses must not be what makes a formula acceptable)
    nl = P.check_listener(ix, rep, grammars)
    rep.floor('sites that install the error listener', nl, 2)
    nl = P.check_ltl_front_end(ix, rep, grammars)
    rep.floor('LTL/STL front-end obligations', nl, 100)
    nb = P.check_builder_exhaustive(ix, rep, grammars)
    rep.floor('grammar alternatives with a builder obligation', nb, 70)
    ctx = GP.context_classes(ix.module('rtamt.antlr.parser.stl.StlParser'))
    P.check_optional(ix, rep, stl, rules, ctx)
    P.check_optional(ix, rep, ltl, G.effective_rules(grammars, 'LtlParser'), ctx)
    P.check_unless_sugar(ix, rep)
    # the LTL front end delays every assertion by its own look-ahead, as the STL front end does
    from sa.props import c03 as _c03d
    _c03d.check_pastify_driver(ix, rep, ix.find_class('rtamt.pastifier.ltl.pastifier', 'LtlPastifier'), ix.find_class('rtamt.pastifier.ltl.horizon', 'LtlHorizon'))
    _c03d.check_pastify_driver(ix, rep, ix.find_class('rtamt.pastifier.stl.pastifier', 'StlPastifier'), ix.find_class('rtamt.pastifier.stl.horizon', 'StlHorizon'))
    # one node per occurrence: the parser's dispatch hands back the node built for the tree it was given
    from sa.rules import parserrules as _Pfresh
    rep.floor('parser dispatch methods checked for node sharing', _Pfresh.check_dispatch_transparent(ix, rep), 2)
    explanation = (
        'Information-flow argument over the front end: the AST builder sees a parse only through (alternative label, child contexts, text of '
        'single-spelling tokens, identifiers, literals); hence two texts whose token-type sequences differ only by alias choice, "," vs ":", '
        'redundant parentheses, the final ";" or the assertion head build equal ASTs, and every later stage consumes only the AST. Decided '
        'facts: the alias table of the property = the token alternatives of LtlLexer.g4 = the strings accepted by both generated lexers (the '
        'serialized ATN is extracted from the source and decoded) and no earlier token shadows an alias; no multi-spelling token is ever '
        'getText()-inspected and text comparisons on sub-rules are exhaustive and map each spelling to the right constructor; visitInterval '
        'reads intervalTime(0/1) only, visitExprParen is transparent, parse() appends the missing ";", the assertion head defaults to `out`. '
        'Precedence: the order of the binary alternatives in the grammar equals the order in the generated parser, precedence levels strictly '
        'decrease and every right operand is parsed at level+1 (left-associative), identically for the LTL and STL parsers. LTL front end: '
        'every accessor a builder calls exists on the generated context class of its own parser, every node constructor is called with an '
        'admissible number of arguments, and the interval-free arm of each STL builder constructs exactly what the LTL builder constructs. '
        '`unless[a,b]` is built as always[0,b] phi or phi until[a,b] psi with both units carried.')
    assumptions = ['the ANTLR 4.7.2 runtime matches tokens by longest match, then rule order (used for the alias-shadowing rule)',
                   'equal ASTs give equal monitors: all later stages consume only the AST (C01..C12)']
    return explanation, assumptions, 'one instance per alias and view, getText site, comparison chain entry, precedence level, accessor, constructor call', {'exhaustive': True}
