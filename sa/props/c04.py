"""C04  Dense-time offline robustness (claimed for the merge kernel and the operator tables only)."""
import ast

from sa.index import AnalysisError
from sa import dispatch as D, model as M, opsum as O
from sa.rules import exh, opref, ordkernel, densesum, units, pure, ownrule
from sa.rules import stackstep as SS

OFF_KERNEL = 'rtamt.semantics.stl.dense_time.offline.intersection'
UNDECIDED = ('TimedOnce', 'TimedHistorically', 'TimedSince', 'TimedAlways', 'TimedEventually', 'TimedUntil')


def check(ix, rep):
    from sa.rules import round11 as _r11
    rep.floor('functions of the monitors scanned for rounded bounds', _r11.check_no_rounding(ix, rep), 50)
    mon = {m.kind: m for m in M.standard_monitors(ix)}['dense-offline']
    # 1. the merge kernel over the finite order domain
    nord, narms, used = ordkernel.check_kernel(ix, rep, OFF_KERNEL)
    rep.floor('orderings of the four segment ends', nord, 13)
    rep.floor('branches of the merge chain', narms, 4)      # two arms may be merged (a < b, a == b -> a <= b); the 13 orderings above are what is decided
    if len(used) != narms:
        rep.note('branches never first-true under p1<c1, p2<c2: %s' % sorted(set(range(narms)) - used))
    ordkernel.check_finitary(ix, rep, OFF_KERNEL)
    ordkernel.check_append_helper(ix, rep, OFF_KERNEL)
    # 2. exhaustiveness with the dense reject list
    cells = exh.exh_monitor(ix, rep, mon)
    rep.floor('dispatch cells', cells, 39)
    # 3. operator tables
    d = D.dispatch_of(ix, mon.cls)
    decided = 0
    nfw = 0
    for nc in D.node_classes(ix):
        meth, _ = d.method_for(nc, ix)
        if not meth:
            continue
        cat, info, f = D.classify(ix, mon.cls, meth)
        if cat != 'compute':
            continue
        slot = 'dense-offline:%s' % nc.name
        rep.analysed(f)
        rep.unit(f.module.rel)
        if nc.name == 'Constant':
            densesum.check_constant_leaf(rep, f, '%s.val' % f.node.args.args[1].arg, slot)
            continue
        if nc.name == 'Variable':
            continue
        if nc.name == 'Predicate':
            nf, partial = densesum.predicate_table_offline(ix, f)
            trail = 'difference+table'
            want = ('pointwise', _pred_on_difference())
        else:
            nf, partial, trail = densesum.summarize_offline_handler(ix, f)
            want = opref.DENSE.get(nc.name)
        if nc.name in UNDECIDED:
            SS.check_forward(ix, rep, mon.cls, f, nc.name)
            nfw += 1
            continue
        if want is None:
            continue
        if nf[0] == 'unknown':
            rep.error('%s (%s): handler of %s is no longer in a summarised idiom (%s)' % (f.where, f.qual, nc.name, nf[1]))
            continue
        decided += 1
        if nf == want:
            rep.ok('R-OPSUM', f.module.rel, f.qual, slot, '%s [%s]' % (opref.describe(nf), trail), f.node.lineno)
        else:
            rep.fail('R-OPSUM', f.module.rel, f.qual, slot, 'operator %s: %s  [handler via %s: %s | reference: %s]'
                     % (nc.name, opref.diff(nf, want), trail, opref.describe(nf), opref.describe(want)), f.node.lineno)
        if partial and nc.name not in opref.PARTIAL:
            rep.fail('R-PARTIAL', f.module.rel, f.qual, slot, 'total operator raises under `%s`' % partial, f.node.lineno)
    rep.floor('dense offline operators summarised', decided, 22)
    rep.floor('bounded handlers whose forwarding to the kernel was checked', nfw, 6)
    # 3b. the sliding-window kernels
    m = ix.module('rtamt.semantics.stl.dense_time.offline.ast_visitor')
    nst = 0
    for opn in ('once', 'historically', 'always', 'eventually'):
        kf = m.functions.get(opn + '_timed_operation')
        if kf is None:
            rep.error('kernel %s_timed_operation vanished' % opn)
            continue
        rep.analysed(kf)
        nst += SS.check_function(ix, rep, kf, opn, slot_prefix='dense-offline:')
        SS.check_build(ix, rep, kf, opn, slot_prefix='dense-offline:', origin=True)
        SS.check_output(ix, rep, kf, opn, slot_prefix='dense-offline:', origin=True)
    rep.floor('abstract states of the sliding-window merge step', nst, 72)
    # output compression never drops the first sample
    allf = list(m.functions.values()) + [g for c in m.classes.values() for g in c.methods.values()]
    nfs = densesum.check_first_sample(ix, rep, allf, 'dense-offline')
    rep.floor('compressing output loops', nfs, 6)
    for which in ('since', 'until'):
        kf = m.functions.get(which + '_timed_operation')
        if kf is None:
            rep.error('kernel %s_timed_operation vanished' % which)
            continue
        rep.analysed(kf)
        SS.check_compose(ix, rep, kf, which)
    from sa.rules import memo
    memo.check_offline_memo_renewed(ix, rep, mon)
    # one interpreter per specification: no caching decorator on the factories, no module- or class-level state in the dense-time offline modules
    from sa.rules import globals as _G4
    _G4.fixture_selfcheck(rep)
    rep.floor('dense-time offline modules scanned for shared state', _G4.run_global(ix, rep, prefix='rtamt.semantics.stl.dense_time.offline') + _G4.run_global(ix, rep, prefix='rtamt.semantics.abstract_dense_time_offline'), 3)
    # the samples computed with are the samples supplied (no conversion of the elements on entry)
    from sa.rules import truthy as _te
    _ne = 0
    for _m in M.standard_monitors(ix):
        if _m.kind == 'dense-offline':
            _de = ix.resolve_method(_m.cls, 'set_variable_to_ast_from_dataset')
            if _de is None:
                raise AnalysisError('set_variable_to_ast_from_dataset of %s vanished' % _m.kind)
            rep.analysed(_de)
            _ne += _te.check_entry_verbatim(ix, rep, _de, _m.kind)
    rep.floor('data-entry stores', _ne, 1)
    rep.floor('specification wrappers handing the data on', _te.check_wrapper_verbatim(ix, rep), 2)
    # a robustness value is a number, never a flag: in the dense-time offline code no value emitted in a sample (or anything it is computed from)
    # is used for its truth value
    from sa.rules import truthy as _tr
    _fs = []
    for _m in sorted(ix.modules.values(), key=lambda m_: m_.name):
        if '.dense_time.offline' in _m.name and 'antlr' not in _m.name:
            _fs += list(_m.functions.values()) + [g_ for c_ in _m.classes.values() for g_ in c_.methods.values()]
    rep.floor('dense-time functions that handle robustness values', _tr.check_dense_values(ix, rep, _fs, 'dense-offline'), 10)
    from sa.rules import truthy as _truthy
    _truthy.check_exact_comparisons(ix, rep, prefixes=('rtamt/semantics/stl/dense_time/', 'rtamt/semantics/arithmetic/dense_time/', 'rtamt/semantics/iastl/dense_time/'))
    # 4. bound conversion and side conditions
    units.check_transformer(ix, rep, 'rtamt.semantics.dense_time_interpreter', 'DenseTimeInterpreter', 'dense')
    pure.pure_handlers(ix, rep, mon)
    ownrule.run(ix, rep)
    explanation = (
        'Decided parts only. (1) R-ORD: the 13-way Allen merge of two step functions is evaluated over all 13 weak orderings of the segment '
        'ends p1<c1, p2<c2: the raising default is unreachable, each ordering\'s first-true branch emits iff the segments overlap with positive '
        'length, at max(p1,p2), with method(value1, value2) in (left, right) order, and advances the list whose segment ends first; operands '
        'are copied and extended with [inf, last value]. (2) R-OPSUM: every pointwise/untimed operator is reduced to a normal form -- the body '
        'of the slot function handed to the kernel (with operand order checked through handler and helper), the per-sample value expression of '
        'unary loops, the comparison table over the difference signal, the scan (direction, init, step) of once/historically/eventually/always/'
        'since/until -- and compared with the dense reference table (non-strict since/until). (3) R-EXH with the dense reject list; R-DIM for '
        'the bound conversion; R-PURE/R-OWN. (4) the six bounded operators: R-FORWARD (handler hands operands in order and the converted '
        'bounds to its own kernel), R-SEGSTEP (the merge step of the segment stack evaluated on every ordering of segment ends and values '
        'consistent with the stack invariant: pop soundness, contiguity, pointwise value, monotonicity), R-SEGBUILD (influence interval of '
        'sample k in affine normal form, every sample visited once, filler segment for begin > 0), R-SEGOUT (segments to samples: every '
        'value change emitted at the segment start, future operators clipped at time 0), R-COMPOSE (since[a,b]/until[a,b] from the unary '
        'kernels). NOT decided: that the stack invariant is the right one is a hand lemma (DESIGN.md); end of the output domain.')
    assumptions = ['hand lemma: the merge invariant (prefix of both lists consumed up to the current segment) given the per-ordering contract',
                   'hand lemma: the stack invariant I of R-SEGSTEP is inductive given strictly increasing input time-stamps and 0 <= begin <= end']
    return explanation, assumptions, 'one instance per ordering, per dispatch cell, per summarised operator', {'exhaustive': True}


def _pred_on_difference():
    d = O.mk('sub', [opref.X0, opref.X1])
    return ('table', tuple(sorted({'EQ': O.neg(O.mk('abs', [d])), 'NEQ': O.mk('abs', [d]), 'LEQ': O.neg(d), 'LESS': O.neg(d), 'GEQ': d, 'GREATER': d}.items())))
