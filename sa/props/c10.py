"""C10  reset() returns an online monitor to its initial state."""
import ast

from sa.index import AnalysisError, ClassInfo
from sa import dispatch as D
from sa import model as M
from sa import effects as E
from sa import flow
from sa.rules import astpure, exh, state

AST_PUBLICATION = {
    'results': 'write-only publication of the last results (update never reads it)',
    'var_object_dict': 'input slots, overwritten from the data set on every update (assumption: every update supplies every free variable)',
}


def _init_defined(ix, cls):
    out = {}
    for c in ix.mro(cls):
        if isinstance(c, ClassInfo) and '__init__' in c.methods:
            ef = E.method_effects(c.methods['__init__'])
            for a, vals in ef.writes.items():
                out.setdefault(a, vals[-1])
    return out


def _reset_chain(ix, cls):
    """[(FuncInfo, caller FuncInfo|None)] executed by cls.reset(): the resolved reset, super().reset() targets,
    self.m() callees (the construction pass behind visitAst/visit* is analysed by C17, not followed here)."""
    out = []
    seen = set()
    work = [(ix.resolve_method(cls, 'reset'), None)]
    while work:
        f, caller = work.pop()
        if f is None or id(f) in seen:
            continue
        seen.add(id(f))
        out.append((f, caller))
        for call in ast.walk(f.node):
            if isinstance(call, ast.Call):
                g = D._delegation(ix, cls, f.owner, call)
                if g is not None:
                    work.append((g, f))
                m = D._self_call(call)
                if m and m != 'reset' and not m.startswith('visit'):
                    work.append((ix.resolve_method(cls, m), f))
    return out



def _probe_locals(fnode):
    """locals bound exactly once to `getattr(self, 'G', d)` / `hasattr(self, 'G')`: a test on such a local is a test on the probe"""
    stores = {}
    for n in ast.walk(fnode):
        if isinstance(n, ast.Name) and isinstance(n.ctx, ast.Store):
            stores[n.id] = stores.get(n.id, 0) + 1
    out = {}
    for n in ast.walk(fnode):
        if isinstance(n, ast.Assign) and len(n.targets) == 1 and isinstance(n.targets[0], ast.Name) and stores.get(n.targets[0].id) == 1 \
                and isinstance(n.value, ast.Call) and isinstance(n.value.func, ast.Name) and n.value.func.id in ('getattr', 'hasattr') and len(n.value.args) >= 2 \
                and isinstance(n.value.args[0], ast.Name) and n.value.args[0].id == 'self':
            out[n.targets[0].id] = n.value
    return out


def _probe_test(fnode, test):
    """the test with probe locals replaced by their probes (a copy)"""
    import copy
    pl = _probe_locals(fnode)
    if not pl:
        return test

    class Sub(ast.NodeTransformer):
        def visit_Name(self, n):
            if isinstance(n.ctx, ast.Load) and n.id in pl:
                return copy.deepcopy(pl[n.id])
            return n
    return Sub().visit(copy.deepcopy(test))


def _guards(fnode):
    """attrs G for which fnode starts with ``if <self.G missing/None>: return`` before other work."""
    out = set()
    for st in fnode.body:
        if isinstance(st, ast.Assign) and len(st.targets) == 1 and isinstance(st.targets[0], ast.Name) and st.targets[0].id in _probe_locals(fnode):
            continue
        if isinstance(st, ast.If) and st.body and isinstance(st.body[-1], ast.Return):
            for n in ast.walk(_probe_test(fnode, st.test)):
                if isinstance(n, ast.Call) and isinstance(n.func, ast.Name) and n.func.id in ('getattr', 'hasattr') and len(n.args) >= 2:
                    if isinstance(n.args[0], ast.Name) and n.args[0].id == 'self' and isinstance(n.args[1], ast.Constant):
                        out.add(n.args[1].value)
            continue
        if isinstance(st, ast.Expr) and isinstance(st.value, ast.Constant):
            continue
        break
    return out


def _cowritten(ix, cls, G):
    """attrs written by every non-constructor method on the MRO that writes G (transitively)."""
    result = None
    for c in ix.mro(cls):
        if not isinstance(c, ClassInfo):
            continue
        for name, f in c.methods.items():
            if name == '__init__' or ix.resolve_method(cls, name) is not f:
                continue
            ef = E.method_effects(f)
            if G in ef.writes:
                tot = E.transitive_effects(ix, cls, name)
                w = set(tot.writes)
                # super().m() chain
                for call in ast.walk(f.node):
                    if isinstance(call, ast.Call):
                        g = D._delegation(ix, cls, f.owner, call)
                        if g is not None:
                            w |= set(E.method_effects(g).writes)
                result = w if result is None else (result & w)
    return result or set()



def _restores_inputs(fnode):
    """reset() gives every free variable its declared default again: for v over <ast>.free_vars (or .vars) the entry <ast>.var_object_dict[v]
    becomes <ast>.create_var_from_name(v) -- written as a loop of stores, as `D.update((v, C(v)) for v in S)` or with a dict comprehension;
    <ast> is self.ast or a local bound once to it (also through getattr(self, 'ast', None))"""
    alias = {'self.ast'}
    stores = {}
    for n in ast.walk(fnode):
        if isinstance(n, ast.Name) and isinstance(n.ctx, ast.Store):
            stores[n.id] = stores.get(n.id, 0) + 1
    for n in ast.walk(fnode):
        if isinstance(n, ast.Assign) and len(n.targets) == 1 and isinstance(n.targets[0], ast.Name) and stores.get(n.targets[0].id) == 1:
            v = ast.unparse(n.value).replace('"', "'").replace(' ', '')
            if v in ('self.ast', "getattr(self,'ast',None)", "getattr(self,'ast')"):
                alias.add(n.targets[0].id)

    def is_ast_attr(e, attrs):
        return isinstance(e, ast.Attribute) and e.attr in attrs and ast.unparse(e.value) in alias

    def default_of(e, var):
        return isinstance(e, ast.Call) and is_ast_attr(e.func, ('create_var_from_name',)) and len(e.args) == 1 and isinstance(e.args[0], ast.Name) and e.args[0].id == var

    for n in ast.walk(fnode):
        if isinstance(n, ast.For) and isinstance(n.target, ast.Name) and is_ast_attr(n.iter, ('free_vars', 'vars')):
            for st in ast.walk(n):
                if isinstance(st, ast.Assign) and default_of(st.value, n.target.id) and any(
                        isinstance(t, ast.Subscript) and is_ast_attr(t.value, ('var_object_dict',)) and isinstance(t.slice, ast.Name) and t.slice.id == n.target.id for t in st.targets):
                    return True
        if isinstance(n, ast.Call) and isinstance(n.func, ast.Attribute) and n.func.attr == 'update' and is_ast_attr(n.func.value, ('var_object_dict',)) and len(n.args) == 1:
            a = n.args[0]
            if isinstance(a, (ast.GeneratorExp, ast.ListComp)) and len(a.generators) == 1 and not a.generators[0].ifs and isinstance(a.generators[0].target, ast.Name) \
                    and is_ast_attr(a.generators[0].iter, ('free_vars', 'vars')) and isinstance(a.elt, ast.Tuple) and len(a.elt.elts) == 2:
                v = a.generators[0].target.id
                if isinstance(a.elt.elts[0], ast.Name) and a.elt.elts[0].id == v and default_of(a.elt.elts[1], v):
                    return True
            if isinstance(a, ast.DictComp) and len(a.generators) == 1 and not a.generators[0].ifs and isinstance(a.generators[0].target, ast.Name) \
                    and is_ast_attr(a.generators[0].iter, ('free_vars', 'vars')):
                v = a.generators[0].target.id
                if isinstance(a.key, ast.Name) and a.key.id == v and default_of(a.value, v):
                    return True
    return False

def check(ix, rep):
    from sa.rules import round11 as _r11
    rep.floor('calls of set_ast inside the interpreter classes', _r11.check_set_ast_callers(ix, rep), 1)
    mons = [m for m in M.monitors(ix) if m.mode == 'online']
    rep.floor('online monitor classes', len(mons), 10)
    checked_ops = {}
    nop = 0
    for mon in mons:
        cls = mon.cls
        chain2 = _reset_chain(ix, cls)
        if not chain2 or chain2[0][0] is None:
            rep.fail('R-STATE', mon.visitor.module.rel, mon.label, 'reset', 'monitor has no reset()')
            continue
        chain = [f for f, _ in chain2]
        for f in chain:
            rep.analysed(f)
            rep.unit(f.module.rel)
        top = chain[0]
        slotp = mon.kind
        # ---- (a) reset before the first update: every attribute read exists ---------------------------------
        initd = _init_defined(ix, cls)
        established = {}  # id(func) -> attrs known to exist when the function body (after its guard) runs
        for f, caller in chain2:
            ef = E.method_effects(f)
            guards = _guards(f.node)
            # `if getattr(self, 'G', None) is None: return` says "not built yet" only while no constructor gives G a value: a G that __init__ sets
            # to an (empty) object makes the test false from the start, and the guard protects nothing
            guards = {g for g in guards if not (g in initd and not (isinstance(initd[g], ast.Constant) and initd[g].value is None))}
            cow = set(established.get(id(caller), set())) if caller is not None else set()
            if caller is not None:
                cow |= set(E.method_effects(caller).writes)
                # called only from inside `if <operators were built>:` blocks of the caller: what is written together with that attribute exists here
                sites = [c_ for c_ in ast.walk(caller.node) if isinstance(c_, ast.Call) and isinstance(c_.func, ast.Attribute) and c_.func.attr == f.node.name
                         and isinstance(c_.func.value, ast.Name) and c_.func.value.id == 'self']
                if sites:
                    common = None
                    for c_ in sites:
                        gs = _positive_guards(caller.node, c_, initd)
                        common = gs if common is None else (common & gs)
                    for g in (common or ()):
                        cow |= _cowritten(ix, cls, g) | {g}
            for g in guards:
                cow |= _cowritten(ix, cls, g) | {g}
            established[id(f)] = cow | set(ef.writes)
            for attr, nodes in sorted(ef.reads.items()):
                if ix.resolve_method(cls, attr) is not None:
                    continue  # method reference
                sym = f.qual
                if attr in initd or attr in E.cls_property_names(ix, cls) and attr in initd:
                    rep.ok('R-ATTR', f.module.rel, sym, '%s:self.%s' % (slotp, attr), 'assigned in an __init__ on the MRO', nodes[0].lineno)
                elif attr in cow:
                    rep.ok('R-ATTR', f.module.rel, sym, '%s:self.%s' % (slotp, attr),
                           'read only after an early return guarded on %s, which is written together with it' % sorted(guards), nodes[0].lineno)
                elif all(any(attr in (_cowritten(ix, cls, g_) | {g_}) for g_ in _positive_guards(f.node, n, initd)) for n in nodes):
                    rep.ok('R-ATTR', f.module.rel, sym, '%s:self.%s' % (slotp, attr), 'read only inside `if <the operators were built>:`, which is written together with it', nodes[0].lineno)
                elif all(_under_existence_test(f.node, n, attr) for n in nodes):
                    rep.ok('R-ATTR', f.module.rel, sym, '%s:self.%s' % (slotp, attr), 'read only inside `if getattr(self, %r, None) is not None` / hasattr' % attr, nodes[0].lineno)
                elif all(_in_getattr(f.node, n) for n in nodes):
                    rep.ok('R-ATTR', f.module.rel, sym, '%s:self.%s' % (slotp, attr), 'read through getattr with default', nodes[0].lineno)
                else:
                    rep.fail('R-ATTR', f.module.rel, sym, '%s:self.%s' % (slotp, attr),
                             'reset() reads self.%s, which no constructor assigns (it is created by set_ast()/update()): '
                             'reset() before the first update raises AttributeError' % attr, nodes[0].lineno)
        # ---- (b) reset reaches every operator --------------------------------------------------------------
        rebuilds = False
        visitor_calls = []
        for f in chain:
            for call in ast.walk(f.node):
                if isinstance(call, ast.Call) and isinstance(call.func, ast.Attribute):
                    if call.func.attr == 'set_ast' and isinstance(call.func.value, ast.Name) and call.func.value.id == 'self':
                        rebuilds = True
                    if call.func.attr == 'visitAst' and E.self_loc(call.func.value) == 'resetVisitor':
                        visitor_calls.append((f, call))
        if rebuilds:
            sa = ix.resolve_method(cls, 'set_ast')
            tot = E.transitive_effects(ix, cls, 'set_ast')
            fresh = [v for v in tot.writes.get('online_operator_dict', []) if isinstance(v, ast.Call) and getattr(v.func, 'id', None) == 'dict' and not v.args]
            revisit = 'visitAst' in tot.self_calls
            # ... on every path: reset() hands set_ast the ast that is already installed, so a set_ast that can return early (an "already
            # installed" shortcut) rebuilds nothing
            cfg_sa = flow.CFG(sa.node)
            dom_sa = cfg_sa.dominators()

            def _renews(st_):
                return isinstance(st_, ast.Assign) and any(E.self_loc(t_) == 'online_operator_dict' for t_ in st_.targets) and isinstance(st_.value, ast.Call) \
                    and getattr(st_.value.func, 'id', None) == 'dict' and not st_.value.args

            def _revisits(st_):
                return not isinstance(st_, (ast.If, ast.For, ast.While, ast.Try)) and any(isinstance(x_, ast.Call) and D._self_call(x_) == 'visitAst' for x_ in ast.walk(st_))
            early = None
            for p_ in cfg_sa.pred[cfg_sa.exit]:
                if p_ not in cfg_sa.reachable():
                    continue
                doms = [cfg_sa.stmt[d_] for d_ in dom_sa[p_] if cfg_sa.stmt[d_] is not None]
                if not (any(_renews(x_) for x_ in doms) and any(_revisits(x_) for x_ in doms)):
                    early = cfg_sa.stmt[p_] if cfg_sa.stmt[p_] is not None else sa.node
            if fresh and revisit and early is not None:
                rep.fail('R-STATE', sa.module.rel, sa.qual, '%s:I5-rebuild:every-path' % slotp, 'reset() relies on set_ast(self.ast) to rebuild the operators, but set_ast() can return without '
                         'renewing online_operator_dict and revisiting the ast (line %d): when the ast is the one already installed -- which is what reset() passes -- the operators '
                         'keep their history' % getattr(early, 'lineno', sa.node.lineno), getattr(early, 'lineno', sa.node.lineno))
            elif fresh and revisit:
                rep.ok('R-STATE', sa.module.rel, sa.qual, '%s:I5-rebuild' % slotp, 'reset() rebuilds online_operator_dict from the ast', sa.node.lineno)
            else:
                rep.fail('R-STATE', sa.module.rel, sa.qual, '%s:I5-rebuild' % slotp,
                         'reset() calls set_ast() but set_ast() does not start from an empty operator dict and revisit the ast', sa.node.lineno)
                rebuilds = False
        if not rebuilds:
            if not visitor_calls:
                rep.fail('R-STATE', top.module.rel, top.qual, '%s:reach' % slotp,
                         'reset() neither rebuilds the operators nor runs the reset visitor over the ast', top.node.lineno)
            for (f, call) in visitor_calls:
                a0 = call.args[0] if call.args else None
                if a0 is not None and E.self_loc(a0) == 'ast':
                    rep.ok('R-ARGKIND', f.module.rel, f.qual, '%s:visitAst(self.ast)' % slotp, 'visitAst receives the ast', call.lineno)
                else:
                    rep.fail('R-ARGKIND', f.module.rel, f.qual, '%s:visitAst(%s)' % (slotp, ast.unparse(a0) if a0 else ''),
                             'resetVisitor.visitAst() is given `%s`, not the ast: visitAst iterates .specs, which a node does not have'
                             % (ast.unparse(a0) if a0 else ''), call.lineno)
            _reset_visitor(ix, rep, mon, initd)
        # ---- (c) interpreter-level history ------------------------------------------------------------------
        up = E.transitive_effects(ix, cls, 'update')
        upf = ix.resolve_method(cls, 'update')
        rep.analysed(upf)
        reset_writes = {}
        for f in chain:
            for a, vals in E.method_effects(f).writes.items():
                reset_writes.setdefault(a, []).extend(vals)
        for attr in sorted(up.writes):
            if attr not in up.reads:
                rep.ok('R-STATE', upf.module.rel, upf.qual, '%s:self.%s' % (slotp, attr), 'written but never read by update(): no history', upf.node.lineno)
                continue
            init = initd.get(attr)
            if attr in reset_writes and init is not None and any(state._norm(v) == state._norm(init) for v in reset_writes[attr] if v is not None):
                rep.ok('R-STATE', upf.module.rel, upf.qual, '%s:self.%s' % (slotp, attr), 'reset() assigns the constructor value %s' % ast.unparse(init), upf.node.lineno)
            elif rebuilds and attr == 'online_operator_dict':
                rep.ok('R-STATE', upf.module.rel, upf.qual, '%s:self.%s' % (slotp, attr), 'rebuilt', upf.node.lineno)
            else:
                rep.fail('R-STATE', upf.module.rel, upf.qual, '%s:self.%s' % (slotp, attr),
                         'update() reads and writes self.%s (history) but reset() does not restore its constructor value %s'
                         % (attr, ast.unparse(init) if init is not None else '<none>'), upf.node.lineno)
        for loc in sorted(up.mutations):
            base = E.base_attr(loc)
            if base == 'ast':
                for n in up.mutations[loc]:
                    sub = n.attr if isinstance(n, ast.Attribute) else None
                    if sub is None and isinstance(n, (ast.Subscript,)):
                        sub = getattr(n.value, 'attr', None)
                    if sub in AST_PUBLICATION or sub is None:
                        rep.ok('R-STATE', upf.module.rel, upf.qual, '%s:self.ast.%s' % (slotp, sub), AST_PUBLICATION.get(sub, ''), n.lineno)
                    else:
                        rep.fail('R-STATE', upf.module.rel, upf.qual, '%s:self.ast.%s' % (slotp, sub),
                                 'update() stores state on the specification (ast.%s) that reset() does not clear' % sub, n.lineno)
            elif base in ('updateVisitor',):
                continue
            elif base == 'online_operator_dict':
                rep.ok('R-STATE', upf.module.rel, upf.qual, '%s:self.%s' % (slotp, loc), 'input slot of a variable operator, overwritten on every update', upf.node.lineno)
            else:
                rep.fail('R-STATE', upf.module.rel, upf.qual, '%s:self.%s' % (slotp, loc),
                         'update() mutates self.%s in place and reset() does not restore it' % loc, upf.node.lineno)
        # ---- (c2) inputs: an input that an update leaves out keeps the value it was given before -> history ----
        sv = ix.resolve_method(cls, 'set_variable_to_ast_from_dataset')
        if sv is not None and mon.kind.startswith('discrete'):
            cond_store = None
            for lp in ast.walk(sv.node):
                if isinstance(lp, ast.For):
                    for n in ast.walk(lp):
                        if isinstance(n, ast.Subscript) and isinstance(n.ctx, ast.Store) and ast.unparse(n.value) == 'self.ast.var_object_dict':
                            cond_store = n
            if cond_store is not None:
                restored = any(_restores_inputs(f.node) for f in chain)
                slot = '%s:self.ast.var_object_dict:inputs' % slotp
                if restored:
                    rep.ok('R-STATE', sv.module.rel, sv.qual, slot, 'reset() gives every free variable its declared default object again', sv.node.lineno)
                else:
                    rep.fail('R-STATE', sv.module.rel, sv.qual, slot, 'an input is stored only when the data set of an update contains it, and read on every update: a variable the '
                             'first update after reset() leaves out still has the value fed before the reset, a freshly built monitor reads its declared default', cond_store.lineno)
        # ---- (d) every operation the monitor can build ------------------------------------------------------
        for ncname, opc in sorted(exh.constructed_operations(ix, mon).items()):
            key = (opc.qual, rebuilds)
            if key in checked_ops:
                continue
            checked_ops[key] = state.operation_state(ix, rep, opc, interp_rebuilds=rebuilds)
            nop += 1
    rep.floor('operation classes checked', nop, 50)
    # ---- the specification's own reset(): forwards, and keeps the configured interpreter
    from sa.rules import units
    nc = units.check_interpreter_ownership(ix, rep)
    rep.floor('interpreter ownership obligations of the specification classes', nc, 4)
    # ---- the declared default of a variable is a *new* object every time it is asked for: reset() (inputs) and the parser hand these objects out,
    #      update() writes results into the output object -- a default that is kept and handed out again carries the last pre-reset result
    absast = ix.find_class('rtamt.syntax.ast.parser.abstract_ast_parser', 'AbstractAst')
    cv = absast.methods.get('create_var_from_name') if absast is not None else None
    if cv is None:
        raise AnalysisError('AbstractAst.create_var_from_name vanished')
    rep.analysed(cv)
    rets = [r.value for r in ast.walk(cv.node) if isinstance(r, ast.Return) and r.value is not None]
    bad = None
    for r in rets:
        names = [r.id] if isinstance(r, ast.Name) else []
        exprs = [r] if not names else [st.value for st in ast.walk(cv.node) if isinstance(st, ast.Assign) and any(isinstance(t, ast.Name) and t.id == names[0] for t in st.targets)]
        for e in exprs:
            if isinstance(e, ast.Constant) and e.value is None:
                continue
            if isinstance(e, ast.Constant) and isinstance(e.value, (int, float, complex, str, bool)):
                continue        # an immutable number: sharing it is unobservable (float() returns the same 0.0 object every time, too)
            if isinstance(e, ast.Call) and not (isinstance(e.func, ast.Attribute) and e.func.attr in ('get', 'setdefault', 'pop')):
                continue        # a constructor call: float(), class_()
            bad = e
    if bad is None:
        rep.ok('R-STATE', cv.module.rel, cv.qual, 'fresh-default', 'every returned default is constructed by the call that returns it', cv.node.lineno)
    else:
        rep.fail('R-STATE', cv.module.rel, cv.qual, 'fresh-default', 'create_var_from_name() can return `%s`, an object it did not construct in this call: the default of a type is shared by '
                 'all variables of that type and by reset() -- the output object that update() writes the robustness into is then also the "default" a reset input starts from'
                 % ast.unparse(bad)[:60], bad.lineno)
    # ---- the specification wrapper keeps no history of its own: reset() of the wrapper only forwards to the interpreter, so whatever the wrapper's
    #      update() stores on the specification (or, through the forwarding properties, on the ast) survives reset().  Allowed: the guard flags
    #      (assigned a Boolean literal) and anything the wrapper's own reset() assigns as well.
    nwrap = 0
    for cn in ('AbstractOnlineSpecification', 'AbstractOfflineOnlineSpecification'):
        sc = ix.find_class('rtamt.spec.abstract_specification', cn)
        if sc is None:
            continue
        upw = ix.resolve_method(sc, 'update')
        rsw = ix.resolve_method(sc, 'reset')
        if upw is None or rsw is None:
            continue
        nwrap += 1
        rep.analysed(upw)

        def self_stores(fnode):
            out = []
            for n in ast.walk(fnode):
                tg = []
                if isinstance(n, ast.Assign):
                    tg = [(t, n.value) for t in n.targets]
                elif isinstance(n, ast.AugAssign):
                    tg = [(n.target, None)]
                elif isinstance(n, ast.Call) and isinstance(n.func, ast.Attribute) and n.func.attr in ('append', 'extend', 'update', 'setdefault', 'pop', 'clear', 'add', 'insert', 'remove') \
                        and ast.unparse(n.func.value).startswith('self.') and not ast.unparse(n.func.value).startswith(('self.online_interpreter', 'self.offline_interpreter')):
                    tg = [(n.func.value, None)]
                elif isinstance(n, ast.Call) and isinstance(n.func, ast.Name) and n.func.id == 'setattr' and n.args and ast.unparse(n.args[0]).startswith('self'):
                    tg = [(n.args[0], None)]
                for t, v in tg:
                    for x in (t.elts if isinstance(t, (ast.Tuple, ast.List)) else [t]):
                        base = x
                        while isinstance(base, (ast.Subscript, ast.Attribute)):
                            if isinstance(base, ast.Attribute) and isinstance(base.value, ast.Name) and base.value.id == 'self':
                                out.append((base.attr, x, v, n))
                                break
                            base = base.value
            return out
        reset_attrs = {a for a, _, _, _ in self_stores(rsw.node)}
        bad = [(a, x, n) for a, x, v, n in self_stores(upw.node)
               if not (isinstance(x, ast.Attribute) and isinstance(v, ast.Constant) and isinstance(v.value, bool)) and a not in reset_attrs]
        slot = '%s.update:wrapper-state' % cn
        if bad:
            a, x, n = bad[0]
            rep.fail('R-STATE', upw.module.rel, upw.qual, slot, 'update() of the specification stores `%s`: the specification\'s reset() only forwards to the interpreter, so this value '
                     'survives reset() -- a formula that reads it (the output variable, a published result) continues from the last value before the reset' % ast.unparse(x), n.lineno)
        else:
            rep.ok('R-STATE', upw.module.rel, upw.qual, slot, 'the wrapper stores nothing but its guard flags', upw.node.lineno)
    rep.floor('specification wrappers checked for state of their own', nwrap, 1)
    # ---- (e) what reset() re-derives from must not have been altered in between -------------------------------
    if not astpure.self_test():
        raise AnalysisError('R-ASTPURE self-test: the positive example is not recognised')
    nfun = astpure.check_modules(ix, rep, ('rtamt/semantics/', 'rtamt/spec/', 'rtamt/explanation/'), 'spec-read-only')
    rep.floor('functions checked for stores through parameters', nfun, 780)

    # the configured period survives reset(): reset() writes none of the attributes set_sampling_period() writes
    from sa.rules import units as _ucfg
    rep.floor('online reset chains checked against the sampling settings', _ucfg.check_reset_keeps_settings(ix, rep), 1)
    # ---- (f) the per-update memo of the update visitor is no state: it is renewed before each traversal (a memo emptied *after* the pass
    # survives an update that raised, and reset() does not touch it)
    from sa.rules import step as _step10
    for m_ in M.standard_monitors(ix):
        if m_.mode == 'online':
            _step10.check_step(ix, rep, m_)
    explanation = (
        'Typestate/effect analysis of the reset path. For every concrete online interpreter class the executed reset chain '
        '(resolved reset, super() targets, self-calls) is collected; every self attribute it reads must be constructor-defined or '
        'guarded (reset before first update); reset must reach every operator, either by rebuilding online_operator_dict from the '
        'ast or by the reset visitor applied to the ast (argument-kind rule) whose unary/binary handlers reset the operator stored '
        'under node.name; every attribute update() both reads and writes must be re-assigned its constructor expression. For each '
        'operation class the set of locations update() rebinds or mutates (directly, via aliases, via helper methods) must be '
        're-established by reset() through one of the idioms I1 (re-run __init__ with stored ctor args), I2 (same expression as '
        '__init__), I3 (deque(maxlen=N) refilled with N constants and __init__ calls reset), I4 (no state), I5 (interpreter rebuilds).')
    assumptions = ['dense time: every update() supplies a sample list (possibly empty) for every free variable',
                   'attribute effects through setattr()/__dict__ are not modelled (none occur on these paths)',
                   'the update_final path is out of scope']
    return explanation, assumptions, 'one instance per (monitor kind, attribute read in reset), per interpreter history attribute, per operation class', {'exhaustive': True}


def _under_existence_test(fnode, node, attr):
    """node (a read of self.attr) lies in the body of an `if` whose test establishes that self.attr exists"""
    parents = {}
    for p in ast.walk(fnode):
        for c in ast.iter_child_nodes(p):
            parents[id(c)] = p
    child = node
    q = parents.get(id(node))
    while q is not None and q is not fnode:
        if isinstance(q, ast.If) and any(child is s or any(child is x for x in ast.walk(s)) for s in q.body):
            t = ast.unparse(_probe_test(fnode, q.test)).replace(' ', '').replace('"', "'")
            if t in ("getattr(self,'%s',None)isnotNone" % attr, "hasattr(self,'%s')" % attr):
                return True
        child = q
        q = parents.get(id(q))
    return False


def _positive_guards(fnode, node, initd):
    """attrs G such that node lies in the body of `if getattr(self, 'G', None) is not None:` / `if hasattr(self, 'G'):` -- the positive spelling of the
    early-return guard (effective only while no constructor gives G a value)"""
    parents = {}
    for p in ast.walk(fnode):
        for c in ast.iter_child_nodes(p):
            parents[id(c)] = p
    out = set()
    child = node
    q = parents.get(id(node))
    while q is not None and q is not fnode:
        if isinstance(q, ast.If) and any(child is s or any(child is x for x in ast.walk(s)) for s in q.body):
            qtest = _probe_test(fnode, q.test)
            t = ast.unparse(qtest).replace(' ', '').replace('"', "'")
            for x in ast.walk(qtest):
                if isinstance(x, ast.Call) and isinstance(x.func, ast.Name) and x.func.id in ('getattr', 'hasattr') and len(x.args) >= 2 and isinstance(x.args[1], ast.Constant):
                    g = x.args[1].value
                    if t in ("getattr(self,'%s',None)isnotNone" % g, "hasattr(self,'%s')" % g, "getattr(self,'%s',None)!=None" % g):
                        if not (g in initd and not (isinstance(initd[g], ast.Constant) and initd[g].value is None)):
                            out.add(g)
        child = q
        q = parents.get(id(q))
    return out


def _in_getattr(fnode, n):
    return False


def _reset_visitor(ix, rep, mon, initd):
    rv = None
    for c in ix.mro(mon.cls):
        if isinstance(c, ClassInfo) and '__init__' in c.methods:
            for st in ast.walk(c.methods['__init__'].node):
                if isinstance(st, ast.Assign) and E.self_loc(st.targets[0]) == 'resetVisitor' and isinstance(st.value, ast.Call):
                    rv = ix.resolve_expr(c.module, st.value.func)
    if not isinstance(rv, ClassInfo):
        rep.fail('R-ATTR', mon.cls.module.rel, mon.label, '%s:resetVisitor' % mon.kind,
                 'no constructor on the MRO creates self.resetVisitor: reset() raises AttributeError')
        return
    for meth in ('visitBinary', 'visitUnary'):
        f = ix.resolve_method(rv, meth)
        rep.analysed(f)
        src = [n for n in ast.walk(f.node) if isinstance(n, ast.Call) and isinstance(n.func, ast.Attribute) and n.func.attr == 'reset']
        kids = any(D._self_call(n) in ('visitChildren', 'visit') for n in ast.walk(f.node))
        looked = [n for n in ast.walk(f.node) if isinstance(n, ast.Subscript) and isinstance(n.ctx, ast.Load)
                  and isinstance(n.slice, ast.Attribute) and n.slice.attr == 'name']
        if src and kids and looked:
            rep.ok('R-STATE', f.module.rel, f.qual, '%s:reach' % mon.kind, 'resets the operator under node.name after its children', f.node.lineno)
        else:
            rep.fail('R-STATE', f.module.rel, f.qual, '%s:reach' % mon.kind,
                     'reset visitor handler does not %s' % ('descend into the children' if not kids else 'reset the operator stored under node.name'), f.node.lineno)
    # the reset visitor lives as long as the interpreter: anything it remembers across a traversal must be renewed when the
    # next traversal starts, otherwise the second reset() behaves differently from the first
    persistent = {}
    for c in ix.mro(rv):
        if isinstance(c, ClassInfo):
            for name, f in c.methods.items():
                if name == '__init__' or ix.resolve_method(rv, name) is not f:
                    continue
                ef = E.method_effects(f)
                for a in ef.written_attrs():
                    persistent.setdefault(a, []).append(f)
    entry = ix.resolve_method(rv, 'visitAst')
    entry_writes = set(E.method_effects(entry).writes) if entry is not None else set()
    for a, fs in sorted(persistent.items()):
        renewed = a in entry_writes and any(E.self_loc(st.targets[0]) == a for st in ast.walk(entry.node) if isinstance(st, ast.Assign))
        only_entry = all(f is entry for f in fs)
        if renewed or only_entry:
            rep.ok('R-STATE', fs[0].module.rel, rv.name, '%s:visitor-state:%s' % (mon.kind, a), 'renewed at the start of every traversal', fs[0].node.lineno)
        else:
            rep.fail('R-STATE', fs[0].module.rel, '%s.%s' % (rv.name, fs[0].name), '%s:visitor-state:%s' % (mon.kind, a),
                     'the reset visitor remembers self.%s across calls (written in %s) and visitAst() does not renew it: the visitor object lives as long as the '
                     'interpreter, so from the second reset() on operators are skipped and keep their history' % (a, ', '.join(sorted({f.name for f in fs}))), fs[0].node.lineno)
    d = ix.resolve_method(rv, 'visit')
    # the reset visitor dispatches on Binary/Unary/Leaf: all node classes are one of the three
    bn = {c.name for c in D.node_classes(ix)}
    struct = [ix.find_class('rtamt.syntax.node.binary_node', 'BinaryNode'), ix.find_class('rtamt.syntax.node.unary_node', 'UnaryNode'),
              ix.find_class('rtamt.syntax.node.leaf_node', 'LeafNode')]
    for nc in D.node_classes(ix):
        if not any(ix.is_subclass(nc, s) for s in struct):
            rep.fail('R-STATE', nc.module.rel, nc.name, 'kind', 'node class is neither binary, unary nor leaf: the reset visitor raises on it', nc.node.lineno)
