"""C17  Well-formed use never crashes; unsupported constructs are rejected cleanly (structural part)."""
import ast

from sa.index import AnalysisError, ClassInfo
from sa import dispatch as D
from sa import model as M
from sa import flow
from sa.rules import exh, keys

PARTIAL_OPS = ('Sqrt', 'Ln', 'Log', 'Division', 'Pow')  # reference operators that are partial functions

DATA_ENTRY = ('evaluate', 'update', 'set_variable_to_ast_from_dataset')


def check(ix, rep):
    from sa.rules import round11 as _r11
    rep.floor('pastify() wrappers checked for constructs the pastifier removes', _r11.check_pastify_keeps_rejections(ix, rep), 1)
    rep.floor('assignments of the closing sample in the online merge kernel', _r11.check_closing_sample_shape(ix, rep), 20)
    rep.floor('dense-time online operations that remember their frontier', _r11.check_seam(ix, rep), 2)
    rep.floor('guards of set_ast in the specification wrappers', _r11.check_set_ast_guards(ix, rep), 2)
    rep.floor('field accesses of struct-typed variables', _r11.check_field_access(ix, rep), 2)
    mons = M.monitors(ix)
    rep.floor('monitor classes (4 standard + 16 interface-aware)', len(mons), 20)
    nodes = D.node_classes(ix)
    rep.floor('node classes', len(nodes), 39)
    cells = 0
    for mon in mons:
        cells += exh.exh_monitor(ix, rep, mon)
        if mon.mode == 'online':
            exh.update_visitor_leaves(ix, rep, mon)
    rep.floor('(monitor, node class) dispatch cells', cells, 20 * 39)

    # ---- the dense-time online monitor rejects bounded until through the TimedPrecedes node pastify() turns it into:
    #      that rewrite must be unconditional
    from sa.rules import pastify as PZ
    pcls = ix.find_class('rtamt.pastifier.stl.pastifier', 'StlPastifier')
    f = ix.resolve_method(pcls, 'visitTimedUntil')
    if f is None:
        raise AnalysisError('StlPastifier.visitTimedUntil vanished')
    rep.analysed(f)
    ret = PZ.HandlerInterp(ix, pcls, f, D.node_classes(ix)).run()
    if ret is not None and ret[0] == 'build' and ret[1] == 'TimedPrecedes':
        rep.ok('R-EXH', f.module.rel, f.qual, 'pastify:TimedUntil->TimedPrecedes', 'every bounded until becomes a precedes node, which the dense-time online monitor rejects', f.node.lineno)
    else:
        rep.fail('R-EXH', f.module.rel, f.qual, 'pastify:TimedUntil->TimedPrecedes', 'pastify() does not always turn a bounded until into a precedes node (%s): the dense-time online '
                 'monitor then yields a value for a construct it does not support' % (ret[0] if ret else None), f.node.lineno)

    # ---- degenerate data: one-sample traces, surplus variables, order of inputs -------------------------
    seen = set()
    nfun = 0
    for mon in M.standard_monitors(ix):
        for name in DATA_ENTRY:
            f = ix.resolve_method(mon.cls, name)
            if f is None or id(f) in seen:
                continue
            seen.add(id(f))
            nfun += 1
            rep.analysed(f)
            rep.unit(f.module.rel)
            sym = f.qual
            unb, cfg = flow.possibly_unbound(f.node)
            if unb:
                for (nm, st) in unb:
                    loops = flow.enclosing_loops(f.node).get(id(st), [])
                    rep.fail('R-UNBOUND', f.module.rel, sym, nm,
                             'local `%s` is read at line %d but is assigned only inside a loop/branch that may not '
                             'execute (zero-iteration loop on a one-sample trace): UnboundLocalError' % (nm, st.lineno),
                             st.lineno)
            else:
                rep.ok('R-UNBOUND', f.module.rel, sym, 'all-locals', 'every local read is definitely assigned', f.node.lineno)
            # operator lookup by data-supplied name must be guarded
            al = keys.simple_aliases(f.node)
            for ld in keys.dict_loads(f.node, 'online_operator_dict'):
                why = keys.justification(f.node, ld, 'online_operator_dict', al)
                slot = 'online_operator_dict[%s]' % ast.unparse(ld.slice)
                if why:
                    rep.ok('R-KEY', f.module.rel, sym, slot, why, ld.lineno)
                else:
                    rep.fail('R-KEY', f.module.rel, sym, slot,
                             'operator looked up by a name taken from the data set without membership test: a variable '
                             'that is declared (free_vars) but not used by the formula has no operator -> KeyError',
                             ld.lineno)
            if name == 'set_variable_to_ast_from_dataset' and mon.kind == 'discrete-online':
                from sa.rules import truthy as _truthy
                _truthy.check_data_entry(ix, rep, f, mon.kind)
            # inputs in any order: the data set is only iterated, never indexed by position
            if name == 'set_variable_to_ast_from_dataset':
                dparam = f.node.args.args[1].arg
                bad = [n for n in ast.walk(f.node) if isinstance(n, ast.Subscript) and isinstance(n.value, ast.Name)
                       and n.value.id == dparam and isinstance(n.slice, ast.Constant) and isinstance(n.slice.value, int)]
                if bad:
                    rep.fail('R-ORDERFREE', f.module.rel, sym, dparam, 'data set indexed by position', bad[0].lineno)
                else:
                    rep.ok('R-ORDERFREE', f.module.rel, sym, dparam, 'data set consumed as (name, value) pairs only', f.node.lineno)
    rep.floor('data-entry functions', nfun, 8)
    # pastify() is part of "well-formed use": the horizon and the pastifier handlers of supported operators compute, they do not refuse under a condition
    from sa.props import c03 as _c03x
    _hc = ix.find_class('rtamt.pastifier.stl.horizon', 'StlHorizon')
    _pc = ix.find_class('rtamt.pastifier.stl.pastifier', 'StlPastifier')
    rep.floor('horizon + pastifier dispatch cells', _c03x.exh_visitor(ix, rep, _hc, 'StlHorizon') + _c03x.exh_visitor(ix, rep, _pc, 'StlPastifier'), 76)

    # ---- partiality: a total reference operator must not raise on some values --------------------------------
    nops = 0
    for time in ('discrete', 'dense'):
        for qn, c in sorted(M.operation_classes(ix, time).items()):
            up = c.methods.get('update')
            if up is None:
                continue
            nops += 1
            rep.analysed(up)
            rep.unit(up.module.rel)
            opname = c.name.replace('Operation', '').replace('Timed', '')
            raises = [n for n in ast.walk(up.node) if isinstance(n, ast.Raise)]
            if c.name == 'PredicateOperation':
                # the raising else-arm of the comparison table is unreachable for the six operators; C07 checks the table
                raises = [r for r in raises if not _is_else_of_table(up.node, r)]
            # a raise whose path condition reads configuration only (self.*, tables, constants) does not depend on the samples
            raises = [r for r in raises if _data_dependent(up.node, r)]
            if raises and opname not in PARTIAL_OPS:
                rep.fail('R-PARTIAL', up.module.rel, '%s.update' % c.name, opname,
                         'operator `%s` is total in the reference semantics but update() raises under a data-dependent '
                         'test (`%s`)' % (opname, _guard_text(up.node, raises[0])), raises[0].lineno)
            else:
                rep.ok('R-PARTIAL', up.module.rel, '%s.update' % c.name, opname,
                       'raises only where the reference operator is partial' if raises else 'no raise', up.node.lineno)
    rep.floor('online operation classes', nops, 55)
    # offline pointwise handlers
    for mon in M.standard_monitors(ix):
        if mon.mode != 'offline':
            continue
        d = D.dispatch_of(ix, mon.cls)
        for nc in nodes:
            meth, _ = d.method_for(nc, ix)
            cat, info, f = D.classify(ix, mon.cls, meth) if meth else ('missing', None, None)
            if cat != 'compute' or nc.name in ('Predicate',):
                continue
            raises = [n for n in ast.walk(f.node) if isinstance(n, ast.Raise)]
            if raises and nc.name not in PARTIAL_OPS:
                rep.fail('R-PARTIAL', f.module.rel, f.qual, '%s:%s' % (mon.label, nc.name),
                         'operator `%s` is total in the reference semantics but its handler raises under a test'
                         % nc.name, raises[0].lineno)
            else:
                rep.ok('R-PARTIAL', f.module.rel, f.qual, '%s:%s' % (mon.label, nc.name), '', f.node.lineno)

    # ---- dense-time online operations: chunks and buffers may be empty
    from sa.rules import emptyidx
    ne = 0
    for qn, c in sorted(M.operation_classes(ix, 'dense').items()):
        ne += emptyidx.check_class(rep, c, 'dense-online')
    rep.floor('constant indexes into chunks/buffers of dense-time online operations', ne, 45)
    # dense-time sample lists are compressed independently: a loop counter indexes only the list the loop runs over
    npi = emptyidx.check_parallel_index(ix, rep, ('rtamt/semantics/stl/dense_time/', 'rtamt/semantics/iastl/dense_time/', 'rtamt/semantics/arithmetic/dense_time/'), 'dense')
    rep.floor('dense-time loops over sample positions', npi, 15)
    # offline handlers hand lists to each other, not one-shot iterators
    nrl = 0
    for m_ in M.monitors(ix):
        if m_.mode == 'offline':
            nrl += emptyidx.check_handlers_return_lists(ix, rep, m_)
    rep.floor('offline handlers checked for returning lists', nrl, 60)
    # ---- bounded discrete-time operators: every list / ring-buffer index in range, no min()/max() of an empty slice
    from sa.rules import windowrule
    by = {m.kind: m for m in M.standard_monitors(ix)}
    nw1, _ = windowrule.check_offline(ix, rep, by['discrete-offline'], which=('R-INDEX',))
    nw2, _ = windowrule.check_online(ix, rep, by['discrete-online'], which=('R-INDEX',))
    rep.floor('bounded discrete-time operators whose index obligations were derived', nw1 + nw2, 10)
    # a supported specification is not rejected because one interpreter never heard of the configured period
    from sa.rules import units as _units
    nr = _units.check_forwarding_reach(ix, rep)
    rep.floor('interpreters a sampling setting has to reach', nr, 2)
    # bound conversions stay exact: an int bound must not become a float that the discrete transformer cannot take apart (shared with C08)
    from sa.props.c08 import check_exact_division
    check_exact_division(ix, rep)
    # an inherited caller meets the overriding callee: self-calls are matched against every class they can run in
    from sa.rules import selfarity
    na = selfarity.check(ix, rep)
    rep.floor('self-calls matched against the callee of every receiving class', na, 2000)
    explanation = (
        'Static exhaustiveness/effect analysis. For each of the 20 concrete interpreter classes (synthesised from the '
        'factory call sites) the isinstance dispatch chain is resolved along the MRO and every one of the 39 node '
        'classes is mapped to the handler it reaches; the handler is classified compute / reject(T) / fall-through / '
        'missing and compared with the reject matrix transcribed from the property. Online compute cells must build an '
        'operator of the same time interpretation under node.name with an update() of the right arity. Data-entry '
        'functions are checked for possibly-unbound locals (zero-iteration loops), unguarded operator look-ups by '
        'data-supplied names, positional use of the data set; total operators must not raise on data. R-INDEX: the bounded discrete-time '
        'handlers and ring-buffer operations are interpreted symbolically for arbitrary 0 <= begin <= end and trace length >= 1; every index and '
        'every min()/max() over a slice yields a linear obligation (index in range, slice non-empty) discharged by Fourier-Motzkin elimination. '
        'R-EMPTYIDX: in the dense-time online operations every constant index into a chunk parameter or a buffer attribute is protected by a '
        'non-emptiness test (an operand may deliver no sample in an update).')
    assumptions = [
        'Python semantics of isinstance dispatch and MRO as modelled by the resolver (C3 linearisation from source)',
        'the reject matrix is the one the property states: online rejects unbounded/bounded future and next; dense rejects '
        'prev/next/s_prev/s_next/rise/fall; dense online also rejects precedes',
        'absence of arbitrary run-time exceptions inside compute handlers (e.g. ZeroDivisionError) is NOT decided',
    ]
    rule_text = ('one instance per (monitor class, node class) dispatch cell, per data-entry function and rule, per '
                 'operation class; distinct = distinct (rule, file, symbol, slot)')
    return explanation, assumptions, rule_text, {'exhaustive': True}


def _is_else_of_table(func, r):
    for n in ast.walk(func):
        if isinstance(n, ast.If) and r in n.orelse:
            return True
    return False


def _data_dependent(func, r):
    """the conditions under which the raise is reached mention an operand of update() (a parameter, or a local computed from one).
    Conditions: the tests of the enclosing ifs and loops; for a raise in an except handler, the body of its try.  A raise reached
    under no condition at all counts as dependent (it is reported as `unconditional`)."""
    params = {a.arg for a in func.args.posonlyargs + func.args.args[1:] + func.args.kwonlyargs}
    if func.args.vararg:
        params.add(func.args.vararg.arg)
    tainted = set(params)
    changed = True
    while changed:
        changed = False
        for n in ast.walk(func):
            tg = None
            if isinstance(n, ast.Assign):
                tg, val = n.targets, n.value
            elif isinstance(n, ast.AugAssign):
                tg, val = [n.target], n.value
            elif isinstance(n, ast.For):
                tg, val = [n.target], n.iter
            if tg is None:
                continue
            if any(isinstance(x, ast.Name) and x.id in tainted for x in ast.walk(val)):
                for t in tg:
                    for x in ast.walk(t):
                        if isinstance(x, ast.Name) and isinstance(x.ctx, ast.Store) and x.id not in tainted:
                            tainted.add(x.id)
                            changed = True
    parent = {}
    for n in ast.walk(func):
        for c in ast.iter_child_nodes(n):
            parent[id(c)] = n
    conds = []
    n = r
    while id(n) in parent:
        p = parent[id(n)]
        if isinstance(p, (ast.If, ast.While)) and n is not p.test:
            conds.append(p.test)
        elif isinstance(p, ast.For):
            conds.append(p.iter)
        elif isinstance(p, ast.ExceptHandler):
            t = parent.get(id(p))
            if isinstance(t, ast.Try):
                conds.extend(t.body)
        n = p
    if not conds:
        return True
    return any(isinstance(x, ast.Name) and x.id in tainted for c in conds for x in ast.walk(c))


def _guard_text(func, r):
    for n in ast.walk(func):
        if isinstance(n, ast.If) and r in n.body:
            return ast.unparse(n.test)
    return 'unconditional'
