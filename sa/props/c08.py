"""C08  Temporal bounds denote physical durations whatever the unit notation."""
import ast

from sa.index import AnalysisError, ClassInfo
from sa.index import before as _before
from sa import dispatch as D, model as M, grammar as G
from sa.rules import units, unitflow

TIMED = ('TimedAlways', 'TimedEventually', 'TimedUntil', 'TimedOnce', 'TimedHistorically', 'TimedSince', 'TimedPrecedes')


def _exact(ix, cls, f, e, depth=0):
    """None if e is computed exactly, else a reason"""
    if depth > 4:
        return 'conversion chain too deep'
    if isinstance(e, ast.Name):
        defs = [s.value for s in ast.walk(f.node) if isinstance(s, ast.Assign) and isinstance(s.targets[0], ast.Name) and s.targets[0].id == e.id]
        params = [a.arg for a in f.node.args.args]
        if not defs:
            return None if e.id in params else 'unbound name %s' % e.id
        for d in defs:
            if _is_text_method(d) and isinstance(d.func.value, ast.Name) and d.func.value.id == e.id:
                if e.id in params or len(defs) > 1:
                    continue    # text = text.replace(...): exact iff the other definitions of the name are
            if isinstance(d, ast.Call) and isinstance(d.func, ast.Name) and d.func.id in ('str', 'repr') and len(d.args) == 1 and isinstance(d.args[0], ast.Name) \
                    and d.args[0].id == e.id and (e.id in params or len(defs) > 1):
                continue        # text = repr(text): a number becomes the decimal text it prints as (shortest round-trip representation)
            r = _exact(ix, cls, f, d, depth + 1)
            if r:
                return r
        return None
    if isinstance(e, ast.Constant):
        return None if isinstance(e.value, (int, str)) else 'float constant'
    if isinstance(e, ast.Call):
        name = e.func.id if isinstance(e.func, ast.Name) else None
        if name in ('Fraction', 'Decimal', 'int', 'str'):
            for a in e.args:
                r = _exact(ix, cls, f, a, depth + 1)
                if r:
                    return r
            return None
        if name == 'float':
            return 'float() on the path'
        if isinstance(e.func, ast.Attribute) and isinstance(e.func.value, ast.Name) and e.func.value.id == 'self':
            g = ix.resolve_method(cls, e.func.attr)
            if g is None:
                return 'unresolved helper %s' % e.func.attr
            if any(isinstance(c, ast.Call) and isinstance(c.func, ast.Name) and c.func.id == 'float' for c in ast.walk(g.node)):
                return 'helper %s uses float()' % g.name
            rets = [r for r in ast.walk(g.node) if isinstance(r, ast.Return) and r.value is not None]
            if not rets:
                return 'helper %s returns nothing' % g.name
            for r in rets:
                why = _exact(ix, cls, g, r.value, depth + 1)
                if why:
                    return why
            return None
        if _is_text_method(e):
            return _exact(ix, cls, f, e.func.value, depth + 1)
        if isinstance(e.func, ast.Attribute) and e.func.attr in ('getText',):
            return None
        if isinstance(e.func, ast.Attribute) and e.func.attr in ('literal', 'Identifier'):
            return None
        return 'call %s' % ast.unparse(e.func)
    if isinstance(e, ast.Subscript):
        return None  # table look-up of the declared constant's text
    if isinstance(e, ast.Attribute):
        return None
    return 'expression %s' % type(e).__name__


def _is_text_method(e):
    """str -> str methods keep the literal text exact"""
    return isinstance(e, ast.Call) and isinstance(e.func, ast.Attribute) and e.func.attr in ('replace', 'strip', 'lower', 'upper', 'lstrip', 'rstrip')


def exact_return(ix, cls, f):
    for r in ast.walk(f.node):
        if isinstance(r, ast.Return) and isinstance(r.value, ast.Tuple) and len(r.value.elts) == 2:
            return _exact(ix, cls, f, r.value.elts[0])
    return 'no (value, unit) return'


def _is_unit_entry(e):
    """<x>.U[...] -- an entry of the unit table (an integer number of base units)"""
    return isinstance(e, ast.Subscript) and isinstance(e.value, ast.Attribute) and e.value.attr == 'U'


def _mentions_period(e):
    return any((isinstance(x, ast.Name) and 'period' in x.id and 'unit' not in x.id) or (isinstance(x, ast.Attribute) and 'period' in x.attr and 'unit' not in x.attr)
               for x in ast.walk(e))


def _inline_local(fn, e):
    """a local bound exactly once (`base = ast.U[ast.unit]`) stands for the expression it was bound to"""
    if fn is None or not isinstance(e, ast.Name):
        return e
    ds = [st for st in ast.walk(fn) if isinstance(st, ast.Assign) and any(isinstance(t, ast.Name) and t.id == e.id for t in st.targets)]
    others = [x for x in ast.walk(fn) if isinstance(x, ast.Name) and x.id == e.id and isinstance(x.ctx, ast.Store)]
    if len(ds) == 1 and len(others) == 1 and len(ds[0].targets) == 1 and _is_unit_entry(ds[0].value):
        return ds[0].value
    return e


def check_exact_lifts(ix, rep):
    """a duration given by the user as a float (the sampling period: 0.1 with unit s) is a *decimal*; the float holds the nearest binary
    fraction.  Scaled to the base unit first (0.1 * 10**9 rounds to exactly 100000000.0) and lifted to a Fraction afterwards it is the
    decimal the user wrote; Fraction(0.1) is 3602879701896397/36028797018963968, and no bound is a multiple of that.  Every Fraction(...)
    in the library takes an exact operand (Decimal, int, unit-table entries) or a period already multiplied by its unit-table entry."""
    n = 0
    for mod in sorted(ix.modules.values(), key=lambda m: m.rel):
        if '/antlr/' in mod.rel or ix.unimportable(mod):
            continue
        owner = {}
        for fn in ast.walk(mod.tree):
            if isinstance(fn, (ast.FunctionDef,)):
                for x in ast.walk(fn):
                    owner.setdefault(id(x), fn)
        for c in ast.walk(mod.tree):
            if not (isinstance(c, ast.Call) and ((isinstance(c.func, ast.Name) and c.func.id == 'Fraction') or (isinstance(c.func, ast.Attribute) and c.func.attr == 'Fraction'))):
                continue
            n += 1
            rep.unit(mod.rel)
            fn = owner.get(id(c))
            sym = fn.name if fn is not None else '<module>'
            slot = 'lift:%s' % ast.unparse(c)[:50]
            args = [_inline_local(fn, a) for a in c.args]
            why = None
            if len(args) == 2 and all(_is_unit_entry(a) or (isinstance(a, ast.Constant) and isinstance(a.value, int)) for a in args):
                ok = 'ratio of two unit-table entries'
            elif len(args) == 1 and isinstance(args[0], ast.Call) and isinstance(args[0].func, ast.Name) and args[0].func.id in ('Decimal', 'int'):
                ok = 'lift of %s(...)' % args[0].func.id
            elif len(args) == 1 and isinstance(args[0], ast.Constant) and isinstance(args[0].value, (int, str)):
                ok = 'literal'
            elif len(args) == 1 and _is_unit_entry(args[0]):
                ok = 'a unit-table entry (a power of ten: `.limit_denominator()` gives it back exactly)'
            elif len(args) == 1 and isinstance(args[0], ast.Call) and isinstance(args[0].func, ast.Name) and args[0].func.id in ('str', 'repr') and len(args[0].args) == 1:
                ok = 'lift of the decimal text of the number (0.067 is 67/1000)'
            elif len(args) == 1 and isinstance(args[0], ast.BinOp) and isinstance(args[0].op, ast.Mult) and (_is_unit_entry(args[0].left) or _is_unit_entry(args[0].right)):
                other = args[0].right if _is_unit_entry(args[0].left) else args[0].left
                if _mentions_period(other):
                    # the product is a float product: 0.1 * 1e9 happens to be exact, 0.067 * 1e9 is 67000000.00000001 (row 69)
                    ok = None
                    why = 'Fraction(%s) lifts a *float product*: the period 0.067 (s) times 1e9 is 67000000.00000001, so `always[0,134ms]` is "not a multiple of the sampling ' \
                          'period" with set_sampling_period(0.067, \'s\') and accepted with (67, \'ms\') -- two notations of one duration' % ast.unparse(args[0])
                else:
                    ok = 'scaled to the base unit before the lift'
            elif len(args) == 1 and isinstance(args[0], ast.Name) and fn is not None and any(
                    isinstance(st_, ast.Assign) and any(isinstance(t_, ast.Name) and t_.id == args[0].id for t_ in st_.targets) and isinstance(st_.value, ast.Call)
                    and isinstance(st_.value.func, ast.Attribute) and st_.value.func.attr == 'get_sampling_period' for st_ in ast.walk(fn)):
                ok = 'the period as returned by get_sampling_period(): already scaled to the base unit'
            elif len(args) == 1 and _mentions_period(args[0]):
                ok = None
                why = 'Fraction(%s) lifts the float as it is: a period of 0.1 (s) becomes 3602879701896397/36028797018963968, and then no bound is a whole number of ' \
                      'periods -- every timed operator is rejected (or a horizon is off by a rounding error), while 100 ms works' % ast.unparse(args[0])
            else:
                raise AnalysisError('%s:%d: Fraction(%s): operand of unknown exactness' % (mod.rel, c.lineno, ', '.join(ast.unparse(a) for a in args)))
            if why is None:
                rep.ok('R-EXACT', mod.rel, sym, slot, ok, c.lineno)
            else:
                rep.fail('R-EXACT', mod.rel, sym, 'lift:period-product' if 'float product' in why else 'lift:period', why, c.lineno)
    return n


def check_exact_division(ix, rep):
    """the bounds the pastifier and the explainer compute stay exact: they are compared with, added to and divided by Fractions, and the discrete
    transformer asks for `.numerator` / `.denominator`.  `x * U[a] / U[b]` is exact when x is a Fraction and a *float* when x is an int -- and
    the parser's own rewrites build bounds as plain ints (`Interval(0, end)` for unless, the pastifier's `[d,d]` delays).  In the bound
    conversions outside the dense-time interpreter (which works in floats by design) -- the discrete time_unit_transformer, the normalisers of
    rtamt/pastifier and what the explainer derives from them -- every true division has an operand that is a Fraction by construction: a
    `Fraction(...)` call, a name bound to one, or the result of a helper all of whose returns are."""
    scope = []
    for mod in sorted(ix.modules.values(), key=lambda m: m.rel):
        for fn in ast.walk(mod.tree):
            if isinstance(fn, ast.FunctionDef):
                if mod.rel.startswith('rtamt/pastifier/') or (mod.rel.startswith('rtamt/explanation/') and 'bounds' in fn.name) \
                        or (mod.rel == 'rtamt/semantics/discrete_time_interpreter.py' and fn.name == 'time_unit_transformer'):
                    scope.append((mod, fn))
    # helpers whose result is a Fraction by construction (fixed point)
    fr_funcs = set()
    for _round in range(4):
        for mod, fn in scope:
            names = _fraction_names(fn, fr_funcs)
            rets = [r.value for r in ast.walk(fn) if isinstance(r, ast.Return) and r.value is not None]
            if rets and all(all(_has_fraction(e, names, fr_funcs) for e in (r.elts if isinstance(r, ast.Tuple) else [r])) for r in rets):
                fr_funcs.add(fn.name)
    n = 0
    for mod, fn in scope:
        names = _fraction_names(fn, fr_funcs)
        for d in ast.walk(fn):
            if isinstance(d, ast.BinOp) and isinstance(d.op, ast.Div):
                txt = ast.unparse(d)
                n += 1
                if _has_fraction(d.left, names, fr_funcs) or _has_fraction(d.right, names, fr_funcs):
                    rep.ok('R-EXACT', mod.rel, fn.name, 'division:%s' % txt[:40], 'an operand is a Fraction by construction', d.lineno)
                else:
                    rep.fail('R-EXACT', mod.rel, fn.name, 'division:%s' % txt[:40], '`%s` is a true division without a Fraction operand: exact while the bound is a Fraction, a float as soon '
                             'as it is a plain int -- and `unless[a,b]` and the pastifier\'s delays build their bounds as ints: the discrete transformer then fails on '
                             '`.numerator` (AttributeError from update() on a supported formula) or rounds' % txt[:60], d.lineno)
    return n


def _fraction_names(fn, fr_funcs):
    names = set()
    for _ in range(3):
        for st in ast.walk(fn):
            if isinstance(st, ast.Assign) and len(st.targets) == 1:
                t = st.targets[0]
                if isinstance(t, ast.Name) and _has_fraction(st.value, names, fr_funcs):
                    names.add(t.id)
                elif isinstance(t, ast.Tuple) and isinstance(st.value, ast.Call) and _callee_name(st.value) in fr_funcs:
                    names |= {x.id for x in t.elts if isinstance(x, ast.Name)}
    return names


def _callee_name(c):
    return c.func.id if isinstance(c.func, ast.Name) else (c.func.attr if isinstance(c.func, ast.Attribute) else None)


def _has_fraction(e, names, fr_funcs=()):
    for x in ast.walk(e):
        if isinstance(x, ast.Call) and _callee_name(x) == 'Fraction':
            return True
        if isinstance(x, ast.Call) and _callee_name(x) in fr_funcs:
            return True
        if isinstance(x, ast.Name) and x.id in names:
            return True
    return False


def check_decimal_of_number(ix, rep):
    """`Decimal(x)` is the decimal the *text* x spells; of a Python float it is the binary fraction the float holds (Decimal(0.1) =
    0.1000000000000000055...).  Values declared through the API (`declare_const('T', 'float', 0.1)`) reach the literal conversion as the
    objects they are.  Every `Decimal(P)` whose operand is a parameter is preceded by a conversion of a float P to its shortest decimal text
    (`if isinstance(P, float): P = repr(P)` / an unconditional `str(P)`), or takes `str(P)` / `repr(P)` directly."""
    n = 0
    for mod in sorted(ix.modules.values(), key=lambda m: m.rel):
        if '/antlr/' in mod.rel or not mod.rel.startswith('rtamt/syntax/') or ix.unimportable(mod):
            continue
        for fn in ast.walk(mod.tree):
            if not isinstance(fn, ast.FunctionDef):
                continue
            params = [a.arg for a in fn.args.args if a.arg != 'self']
            for c in ast.walk(fn):
                if not (isinstance(c, ast.Call) and isinstance(c.func, ast.Name) and c.func.id == 'Decimal' and len(c.args) == 1):
                    continue
                a = c.args[0]
                n += 1
                slot = 'decimal-of:%s' % ast.unparse(a)[:30]
                if isinstance(a, ast.Call) and isinstance(a.func, ast.Name) and a.func.id in ('str', 'repr'):
                    rep.ok('R-EXACT', mod.rel, fn.name, slot, 'operand rendered as text first', c.lineno)
                    continue
                if not (isinstance(a, ast.Name) and a.id in params):
                    rep.ok('R-EXACT', mod.rel, fn.name, slot, 'operand is not a parameter', c.lineno)
                    continue
                conv = False
                for st in ast.walk(fn):
                    if isinstance(st, ast.Assign) and len(st.targets) == 1 and isinstance(st.targets[0], ast.Name) and st.targets[0].id == a.id \
                            and isinstance(st.value, ast.Call) and isinstance(st.value.func, ast.Name) and st.value.func.id in ('str', 'repr') \
                            and len(st.value.args) == 1 and isinstance(st.value.args[0], ast.Name) and st.value.args[0].id == a.id and _before(st, c):
                        conv = True
                if conv:
                    rep.ok('R-EXACT', mod.rel, fn.name, slot, 'a number is turned into its decimal text before Decimal()', c.lineno)
                else:
                    rep.fail('R-EXACT', mod.rel, fn.name, slot, '`Decimal(%s)`: `%s` is a parameter, and a constant declared through the API as a Python float arrives here as the float -- '
                             'Decimal(0.1) is 0.1000000000000000055511151231257827, so `always[0,T]` with T = 0.1 (s) at a period of 100 ms is rejected as "not a multiple of the '
                             'sampling period" while the literal 0.1 and the declared text \'0.1\' are accepted' % (a.id, a.id), c.lineno)
    return n


def check(ix, rep):
    from sa.rules import round11 as _r11
    rep.floor('unit ratios of the dense-time conversion', _r11.check_dense_conversion_exact(ix, rep), 1)
    rep.floor('setters of the default unit', _r11.check_default_unit_domain(ix, rep), 1)
    rep.floor('functions of the monitors scanned for rounded bounds', _r11.check_no_rounding(ix, rep), 50)
    # 1-3. the two transformers
    units.check_transformer(ix, rep, 'rtamt.semantics.discrete_time_interpreter', 'DiscreteTimeInterpreter', 'discrete')
    units.check_transformer(ix, rep, 'rtamt.semantics.dense_time_interpreter', 'DenseTimeInterpreter', 'dense')
    # 2. producers: what the parser can attach to a bound
    prod = units.parser_unit_strings(ix, rep)
    gs = G.load(ix.repo)
    rules = G.effective_rules(gs, 'StlParser')
    if 'unit' not in rules:
        raise AnalysisError('grammar rule `unit` vanished')
    suffixes = set()
    for alt in rules['unit']:
        for e, _ in alt.flat():
            if e.kind == 'token':
                lits = gs['LtlLexer'].token_literals(e.value)
                if lits is None:
                    raise AnalysisError('unit token %s is not a literal' % e.value)
                suffixes |= lits
    rep.unit('rtamt/antlr/grammar/tl/StlParser.g4')
    keys = {'s', 'ms', 'us', 'ns'}
    if suffixes <= keys:
        rep.ok('R-UNITDOM', 'rtamt/antlr/grammar/tl/StlParser.g4', 'unit', 'suffixes', 'grammar unit suffixes %s are all keys of the unit table' % sorted(suffixes))
    else:
        rep.fail('R-UNITDOM', 'rtamt/antlr/grammar/tl/StlParser.g4', 'unit', 'suffixes', 'grammar admits unit suffix %s that the unit table lacks' % sorted(suffixes - keys))
    for meth, (lits, dyn, f) in sorted(prod.items()):
        bad = sorted(l for l in lits if l != '' and l not in keys)
        if bad:
            rep.fail('R-UNITDOM', f.module.rel, f.qual, 'producer', 'a bound without unit suffix gets the unit string %r, which the transformers neither '
                     'treat as absent (\'\') nor find in the unit table: KeyError when the monitor is built' % bad[0], f.node.lineno)
        elif '' in lits and dyn:
            rep.ok('R-UNITDOM', f.module.rel, f.qual, 'producer', "unit is '' (absent) or a grammar suffix", f.node.lineno)
        else:
            rep.fail('R-UNITDOM', f.module.rel, f.qual, 'producer', 'unit result is not ('' | ctx.unit().getText())', f.node.lineno)
        # 4. exactness: the number returned with the unit is computed without floating point
        stlcls = ix.find_class('rtamt.syntax.ast.parser.stl.parser_visitor', 'StlAstParserVisitor')
        why = exact_return(ix, stlcls, f)
        if why is None:
            rep.ok('R-EXACT', f.module.rel, f.qual, 'exact-bound', 'bound literal converted exactly (Fraction of Decimal / int)', f.node.lineno)
        else:
            rep.fail('R-EXACT', f.module.rel, f.qual, 'exact-bound', 'the bound is not converted exactly (%s): 0.1 s over a 100 ms period is no longer an exact multiple' % why, f.node.lineno)
    # interval construction passes both units through
    stl = ix.find_class('rtamt.syntax.ast.parser.stl.parser_visitor', 'StlAstParserVisitor')
    vi = stl.methods.get('visitInterval')
    rep.analysed(vi)
    ok = False
    for c in ast.walk(vi.node):
        if isinstance(c, ast.Call) and isinstance(c.func, ast.Name) and c.func.id == 'Interval' and len(c.args) == 4:
            ok = [ast.unparse(a) for a in c.args] == ['begin', 'end', 'begin_unit', 'end_unit']
    tgt = [ast.unparse(s.targets[0]).replace(' ', '') + '<-' + ast.unparse(s.value).replace(' ', '') for s in vi.node.body if isinstance(s, ast.Assign) and isinstance(s.targets[0], ast.Tuple)]
    ok = ok and 'begin,begin_unit<-self.visit(ctx.intervalTime(0))' in [t.replace('(', '', 1).replace(')', '', 1) if t.startswith('(') else t for t in tgt] \
        and 'end,end_unit<-self.visit(ctx.intervalTime(1))' in [t.replace('(', '', 1).replace(')', '', 1) if t.startswith('(') else t for t in tgt]
    if ok:
        rep.ok('R-UNITFLOW', vi.module.rel, vi.qual, 'Interval(begin,end,begin_unit,end_unit)', 'each bound keeps its own unit', vi.node.lineno)
    else:
        rep.fail('R-UNITFLOW', vi.module.rel, vi.qual, 'Interval(begin,end,begin_unit,end_unit)', 'visitInterval does not pair intervalTime(0)/(1) with begin/end and their units', vi.node.lineno)
    # every other Interval built by the AST builder from the fields of a parsed interval carries BOTH unit strings of that interval
    # (the transformers resolve a missing unit from the other bound, so dropping either one changes the duration)
    for fn in stl.methods.values():
        if fn is vi:
            continue
        for c in ast.walk(fn.node):
            if isinstance(c, ast.Call) and isinstance(c.func, ast.Name) and c.func.id == 'Interval':
                srcs = set()
                for a in list(c.args) + [k.value for k in c.keywords]:
                    for n in ast.walk(a):
                        if isinstance(n, ast.Attribute) and n.attr in ('begin', 'end') and isinstance(n.value, ast.Name):
                            srcs.add(n.value.id)
                if not srcs:
                    continue
                rep.analysed(fn)
                got = {'begin_unit': ast.unparse(c.args[2]) if len(c.args) > 2 else None, 'end_unit': ast.unparse(c.args[3]) if len(c.args) > 3 else None}
                for k in c.keywords:
                    if k.arg in got:
                        got[k.arg] = ast.unparse(k.value)
                src = sorted(srcs)[0]
                want = {'begin_unit': '%s.begin_unit' % src, 'end_unit': '%s.end_unit' % src}
                slot = 'derived-interval@%s' % fn.name
                if got == want:
                    rep.ok('R-UNITFLOW', fn.module.rel, fn.qual, slot, 'Interval derived from `%s` carries both of its units' % src, c.lineno)
                else:
                    missing = [k for k in want if got[k] != want[k]]
                    rep.fail('R-UNITFLOW', fn.module.rel, fn.qual, slot, '`%s` is built from the bounds of `%s` but %s: a unit written on one bound only is lost and the bound is '
                             're-read in the default unit' % (ast.unparse(c)[:70], src, ', '.join('%s is %s instead of %s' % (k, got[k], want[k]) for k in missing)), c.lineno)
    # timed node constructors copy the four fields
    nsite = 0
    for nc in D.node_classes(ix):
        if nc.name in TIMED:
            init = nc.methods.get('__init__')
            calls = [c for c in ast.walk(init.node) if isinstance(c, ast.Call) and ast.unparse(c.func) == 'Interval.__init__']
            nsite += 1
            want = ['self', 'interval.begin', 'interval.end', 'interval.begin_unit', 'interval.end_unit']
            if calls and [ast.unparse(a) for a in calls[0].args] == want:
                rep.ok('R-UNITFLOW', nc.module.rel, nc.name + '.__init__', 'copy-interval', 'bounds and units copied from the interval', init.node.lineno)
            else:
                rep.fail('R-UNITFLOW', nc.module.rel, nc.name + '.__init__', 'copy-interval', 'timed node does not copy begin, end, begin_unit, end_unit from its interval', init.node.lineno)
    rep.floor('timed node classes', nsite, 7)
    # 5. pastifier and horizon
    n = 0
    normalisers = {}
    for modn, cn in (('rtamt.pastifier.stl.pastifier', 'StlPastifier'), ('rtamt.pastifier.stl.horizon', 'StlHorizon')):
        cls = ix.find_class(modn, cn)
        d = D.dispatch_of(ix, cls)
        for nc in D.node_classes(ix):
            if nc.name not in TIMED:
                continue
            meth, _ = d.method_for(nc, ix)
            cat, info, f = D.classify(ix, cls, meth)
            if cat != 'compute':
                continue
            rep.analysed(f)
            rep.unit(f.module.rel)
            unitflow.check_handler(ix, rep, cls, f, '%s:%s' % (cn, nc.name))
            for nf in unitflow.normalisers_used(ix, cls, f):
                normalisers[id(nf)] = nf
            n += 1
    rep.floor('pastifier/horizon handlers of timed operators', n, 14)
    # a conversion that remembers its answers forgets nothing the answers depend on
    from sa.rules import memo
    ncache = 0
    ncache += memo.check_converters(ix, rep)
    from sa.rules import round11 as _r11lazy
    rep.floor('sites at which a specification hands the ast to an interpreter', _r11lazy.check_set_ast_lazy(ix, rep), 3)
    # the configured period survives reset(): reset() writes none of the attributes set_sampling_period() writes
    from sa.rules import units as _ucfg
    rep.floor('online reset chains checked against the sampling settings', _ucfg.check_reset_keeps_settings(ix, rep), 1)
    nfx = units.check_forwarding_exact(ix, rep)
    rep.floor('arguments forwarded from the specification to the ast', nfx, 8)
    npa = units.check_period_reaches_ast(ix, rep)
    rep.floor('sampling settings read from the ast', npa, 2)
    nrb = unitflow.check_raw_bounds(ix, rep)
    rep.floor('functions reading the bounds of a timed node', nrb, 3)
    nxd = check_exact_division(ix, rep)
    rep.floor('true divisions of time quantities outside the dense interpreter', nxd, 3)
    ndn = check_decimal_of_number(ix, rep)
    rep.floor('Decimal(...) conversions in the front end', ndn, 1)
    nl = check_exact_lifts(ix, rep)
    rep.floor('Fraction(...) lifts', nl, 5)
    # online: operators are stored under the printed name, so the name has to carry both bounds *with their units*
    from sa.rules import nodename
    nk = nodename.check(ix, rep, 'online-key', only_fields=('begin', 'end', 'begin_unit', 'end_unit'))
    rep.floor('interval fields in the names of timed nodes', nk, 28)
    for nf in normalisers.values():
        # the normalising helper itself converts to the default unit: same dimension rule as the dense transformer
        units.check_transformer(ix, rep, None, None, 'dense', func=nf)
    # 6. one unit table; 7. spec.unit forwarding
    units.check_unit_tables(ix, rep)
    units.check_fwd(ix, rep, 'unit')
    explanation = (
        'Unit/dimension analysis. The two time_unit_transformer functions are interpreted path by path over the finite domain '
        '(begin unit absent/present) x (end unit absent/present): every unit-table key must be a present unit (R-UNITDOM), and the returned '
        'bounds, as exact rational functions over the symbols b, e, period, U[.], must equal b*U[unit]/(period*U[period unit]) (discrete) or '
        'b*U[unit]/U[default] (dense) with unit = own unit, else the other bound\'s, else the default (R-DIM); int() of a bound is dominated by a '
        'divisibility guard raising RTAMTException (R-GUARD-DOM). Producers: the parser attaches only \'\' or a grammar suffix, and the grammar '
        'suffixes are keys of the unit table; literals become Fraction(Decimal(text)) (R-EXACT). Units travel with the numbers through '
        'Interval, the timed node constructors, the pastifier and the horizon visitor (R-UNITFLOW). The two unit tables are equal and spec.unit '
        'is forwarded to the ast the transformers read (R-FWD).')
    assumptions = ['Fraction/Decimal arithmetic is exact', 'window arithmetic downstream of the converted bounds is claimed under C01/C02, not here']
    return explanation, assumptions, 'one instance per (transformer, unit case, bound), per producer, per constructor/handler', {'exhaustive': True}
