"""C09  Modular specifications are equivalent to their inlined form (structural part)."""
import ast

from sa.index import AnalysisError, ClassInfo
from sa import dispatch as D, model as M, flow
from sa import effects as E
from sa.rules import step, pure, ownrule


def _visit_expr_id(ix, rep):
    """identifier resolution order in LtlAstParserVisitor.visitExprId: constant, sub-spec, then variable"""
    ltl, stl = M.parser_visitors(ix)
    f = ix.resolve_method(stl, 'visitExprId')
    if f is None:
        raise AnalysisError('visitExprId vanished')
    rep.analysed(f)
    rep.unit(f.module.rel)
    chain = None
    from sa import norm as _norm
    for st in _norm.guards_to_chain(f.node).body:        # guard clauses with early returns are the same chain
        if isinstance(st, ast.If):
            chain = st
            break
    if chain is None:
        rep.fail('R-INLINE', f.module.rel, f.qual, 'resolution-order', 'no identifier resolution chain', f.node.lineno)
        return
    arms = []
    n = chain
    while True:
        arms.append((n.test, n.body))
        if len(n.orelse) == 1 and isinstance(n.orelse[0], ast.If):
            n = n.orelse[0]
        else:
            arms.append((None, n.orelse))
            break

    def which(test):
        if test is None:
            return 'variable'
        s = ast.unparse(test)
        if 'const_val_dict' in s and ' in ' in s:
            return 'const'
        if 'var_subspec_dict' in s and ' in ' in s:
            return 'subspec'
        return 'other:' + s
    order = [which(t) for t, _ in arms]
    if order[-1] != 'variable' or set(order[:-1]) != {'const', 'subspec'}:
        rep.fail('R-INLINE', f.module.rel, f.qual, 'resolution-order',
                 'identifier resolution arms are %s: constants and sub-specification names must be resolved before variables' % order, chain.lineno)
    else:
        rep.ok('R-INLINE', f.module.rel, f.qual, 'resolution-order', 'constant / sub-spec looked up before variable handling', chain.lineno)
    for (t, body), w in zip(arms, order):
        if w == 'const':
            # Constant(float(const_val_dict[id]))
            src = ' '.join(ast.unparse(s) for s in body)
            built = [c for s in body for c in ast.walk(s) if isinstance(c, ast.Call) and isinstance(c.func, ast.Name)
                     and isinstance(ix.resolve_expr(f.module, c.func), ClassInfo) and ix.resolve_expr(f.module, c.func).name == 'Constant']
            if built and 'const_val_dict[' in src:
                rep.ok('R-INLINE', f.module.rel, f.qual, 'const->Constant', 'a declared constant is replaced by a Constant node holding its value', body[0].lineno)
            else:
                rep.fail('R-INLINE', f.module.rel, f.qual, 'const->Constant', 'constant arm does not build Constant(value of the declared constant)', body[0].lineno)
        if w == 'subspec':
            ret = [s for s in body if isinstance(s, ast.Return)]
            got = [s for s in body if isinstance(s, ast.Assign) and 'var_subspec_dict[' in ast.unparse(s.value)]
            if got and (ret and isinstance(ret[0].value, ast.Name) and ret[0].value.id == got[0].targets[0].id or not ret):
                rep.ok('R-INLINE', f.module.rel, f.qual, 'subspec->node', 'a sub-specification name is replaced by the node bound to it', body[0].lineno)
            else:
                rep.fail('R-INLINE', f.module.rel, f.qual, 'subspec->node', 'sub-spec arm does not return the node registered under the name', body[0].lineno)


def _whole_identifier_names(f):
    """locals bound to the whole text of the identifier (`x = ctx.Identifier().getText()`), plus names bound to such a name or to a
    literal (the implicit assertion name 'out')"""
    out = set()
    for _ in range(3):
        for st in ast.walk(f.node):
            if isinstance(st, ast.Assign) and len(st.targets) == 1 and isinstance(st.targets[0], ast.Name):
                v = ast.unparse(st.value).replace(' ', '')
                if v.endswith('.Identifier().getText()') or (isinstance(st.value, ast.Name) and st.value.id in out):
                    out.add(st.targets[0].id)
                # `'out' if <no head> else <head>.getText()`: a literal or the whole text, through a local holding the terminal node
                if isinstance(st.value, ast.IfExp):
                    arms = [st.value.body, st.value.orelse]
                    if all(isinstance(a_, ast.Constant) or (isinstance(a_, ast.Call) and isinstance(a_.func, ast.Attribute) and a_.func.attr == 'getText' and not a_.args) for a_ in arms) \
                            and any(isinstance(a_, ast.Call) for a_ in arms):
                        recv = [a_.func.value for a_ in arms if isinstance(a_, ast.Call)][0]
                        rtxt = ast.unparse(recv).replace(' ', '')
                        if rtxt.endswith('.Identifier()') or (isinstance(recv, ast.Name) and any(isinstance(q, ast.Assign) and len(q.targets) == 1 and isinstance(q.targets[0], ast.Name)
                                                                                                   and q.targets[0].id == recv.id and ast.unparse(q.value).replace(' ', '').endswith('.Identifier()')
                                                                                                   for q in ast.walk(f.node))):
                            out.add(st.targets[0].id)
    return out


def _table_keys(f, table, store):
    """key expressions under which `self.<table>` is written (store) or read / tested (not store) in f"""
    keys = []
    for x in ast.walk(f.node):
        if isinstance(x, ast.Subscript) and ast.unparse(x.value) == 'self.%s' % table and isinstance(x.ctx, ast.Store) == store:
            keys.append(x.slice)
        if not store and isinstance(x, ast.Compare) and len(x.ops) == 1 and isinstance(x.ops[0], (ast.In, ast.NotIn)) and ast.unparse(x.comparators[0]) == 'self.%s' % table:
            keys.append(x.left)
        if not store and isinstance(x, ast.Call) and isinstance(x.func, ast.Attribute) and x.func.attr == 'get' and ast.unparse(x.func.value) == 'self.%s' % table and x.args:
            keys.append(x.args[0])
    return keys


def _key_agreement(ix, rep):
    """a reference finds what the definition registered: visitAssertion writes var_subspec_dict under the whole identifier of the assertion,
    visitExprId has to look a reference up under the whole identifier too (`o.aux` is not `o`)"""
    ltl, stl = M.parser_visitors(ix)
    fa, fe = ix.resolve_method(stl, 'visitAssertion'), ix.resolve_method(stl, 'visitExprId')
    n = 0
    for table in ('var_subspec_dict', 'const_val_dict'):
        wk = _table_keys(fa, table, True) if table == 'var_subspec_dict' else []
        wa = _whole_identifier_names(fa)
        whole_written = all(isinstance(k, ast.Name) and k.id in wa for k in wk)
        rk = _table_keys(fe, table, False)
        we = _whole_identifier_names(fe)
        if not rk:
            continue
        n += 1
        bad = [k for k in rk if not (isinstance(k, ast.Name) and k.id in we)]
        if table == 'var_subspec_dict' and not whole_written:
            rep.fail('R-INLINE', fa.module.rel, fa.qual, 'key:%s:write' % table, 'visitAssertion registers the assertion under `%s`, not under its whole identifier'
                     % ast.unparse(wk[0])[:40], fa.node.lineno)
        elif bad:
            rep.fail('R-INLINE', fe.module.rel, fe.qual, 'key:%s' % table, 'a reference is looked up in %s under `%s`, definitions are registered under the whole identifier: a dotted '
                     'name (`o.aux`) is not found (or finds the entry of `o`) and the reference becomes a plain variable that nobody feeds' % (table, ast.unparse(bad[0])[:40]), bad[0].lineno)
        else:
            rep.ok('R-INLINE', fe.module.rel, fe.qual, 'key:%s' % table, 'looked up under the whole identifier, as registered', fe.node.lineno)
    return n


def _visit_assertion(ix, rep):
    ltl, stl = M.parser_visitors(ix)
    f = ix.resolve_method(stl, 'visitAssertion')
    rep.analysed(f)
    cfg = flow.CFG(f.node)
    reach = cfg.reachable()
    # on every normal exit: var_subspec_dict[id] = out ; specs.append(out)
    reg = [n for n in cfg.nodes() if cfg.stmt[n] is not None and isinstance(cfg.stmt[n], ast.Assign)
           and 'var_subspec_dict[' in ast.unparse(cfg.stmt[n].targets[0])]
    app = [n for n in cfg.nodes() if cfg.stmt[n] is not None and isinstance(cfg.stmt[n], ast.Expr)
           and ast.unparse(cfg.stmt[n]).replace(' ', '').startswith('self.specs.append(')]
    # the same step spelled `self.specs += [out]` / `self.specs.extend([out])`: brought to the append form
    for n in cfg.nodes():
        st = cfg.stmt[n]
        one = None
        if isinstance(st, ast.AugAssign) and isinstance(st.op, ast.Add) and ast.unparse(st.target) == 'self.specs' and isinstance(st.value, ast.List) and len(st.value.elts) == 1:
            one = st.value.elts[0]
        if isinstance(st, ast.Expr) and isinstance(st.value, ast.Call) and ast.unparse(st.value.func) == 'self.specs.extend' and len(st.value.args) == 1 \
                and isinstance(st.value.args[0], ast.List) and len(st.value.args[0].elts) == 1:
            one = st.value.args[0].elts[0]
        if one is not None:
            cfg.stmt[n] = ast.copy_location(ast.Expr(value=ast.Call(func=ast.Attribute(value=ast.Attribute(value=ast.Name(id='self', ctx=ast.Load()), attr='specs', ctx=ast.Load()),
                                                                                    attr='append', ctx=ast.Load()), args=[one], keywords=[])), st)
            app.append(n)
    if not reg or not app:
        rep.fail('R-INLINE', f.module.rel, f.qual, 'register+append', 'visitAssertion does not both register the name in var_subspec_dict and append to specs', f.node.lineno)
        return
    # every path from entry to exit passes through both (post-dominance via removal)
    for what, ns in (('register', reg), ('append', app)):
        blocked = set(ns)
        seen = set()
        stack = [cfg.entry]
        while stack:
            n = stack.pop()
            if n in seen or n in blocked:
                continue
            seen.add(n)
            stack.extend(cfg.succ[n])
        if cfg.exit in seen:
            rep.fail('R-INLINE', f.module.rel, f.qual, what, 'a path through visitAssertion returns normally without the %s step' % what, f.node.lineno)
        else:
            rep.ok('R-INLINE', f.module.rel, f.qual, what, 'every normal path performs the %s step' % what, cfg.stmt[ns[0]].lineno)
    # same object registered and appended
    rv = ast.unparse(cfg.stmt[reg[0]].value)
    av = ast.unparse(cfg.stmt[app[0]].value.args[0])
    if rv == av:
        rep.ok('R-INLINE', f.module.rel, f.qual, 'same-node', 'the node appended to specs is the node registered under the name (shared object)', cfg.stmt[app[0]].lineno)
    else:
        rep.fail('R-INLINE', f.module.rel, f.qual, 'same-node', 'registered `%s` but appended `%s`' % (rv, av), cfg.stmt[app[0]].lineno)
    # specification rule visits assertions in textual order: visitSpecification / visitChildren are generated -- C15 covers the grammar


def _check_subspec_separator(ix, rep, rule='R-INLINE'):
    from sa import grammar as G
    lx = G.load(ix.root if hasattr(ix, 'root') else ix.repo)['LtlLexer']
    line_tokens = []
    for name, alts in lx.rules.items():
        for alt in alts:
            for e in alt.elems:
                if e.kind == 'set' and e.value.startswith('~') and ('\\n' in e.value or '\n' in e.value) and e.repeated:
                    line_tokens.append(name)
    absast = ix.find_class('rtamt.syntax.ast.parser.abstract_ast_parser', 'AbstractAst')
    f = absast.methods.get('add_sub_spec')
    if f is None:
        raise AnalysisError('AbstractAst.add_sub_spec vanished')
    rep.analysed(f)
    param = f.node.args.args[1].arg
    # the value finally assigned to self.modular_spec: flatten the + chain, follow local reassignments of the parameter
    target = None
    for st in f.node.body:
        if isinstance(st, ast.Assign) and ast.unparse(st.targets[0]) == 'self.modular_spec':
            target = st
        if isinstance(st, ast.AugAssign) and isinstance(st.op, ast.Add) and ast.unparse(st.target) == 'self.modular_spec':
            # self.modular_spec += X   is   self.modular_spec = self.modular_spec + X
            target = ast.copy_location(ast.Assign(targets=[st.target], value=ast.BinOp(left=st.target, op=ast.Add(), right=st.value)), st)
    if target is None:
        raise AnalysisError('%s: no assignment to self.modular_spec' % f.where)

    def flat(e):
        if isinstance(e, ast.BinOp) and isinstance(e.op, ast.Add):
            return flat(e.left) + flat(e.right)
        return [e]
    parts = flat(target.value)
    idx = [i for i, e in enumerate(parts) if isinstance(e, ast.Name) and e.id == param]
    tail = parts[idx[-1] + 1:] if idx else []
    sep = ''.join(e.value for e in tail if isinstance(e, ast.Constant) and isinstance(e.value, str))
    ends_line = ('\n' in sep) or ('\r' in sep)
    if not line_tokens:
        rep.ok(rule, f.module.rel, f.qual, 'subspec-separator', 'the lexer has no token that runs to the end of the line', f.node.lineno)
    elif idx and ends_line and all(isinstance(e, ast.Constant) for e in tail):
        rep.ok(rule, f.module.rel, f.qual, 'subspec-separator', 'every sub-specification text is followed by a line terminator (tokens %s end there)' % sorted(set(line_tokens)), target.lineno)
    else:
        rep.fail(rule, f.module.rel, f.qual, 'subspec-separator', 'sub-specification texts are joined with %r: a text ending in a %s token (`// ...`) swallows every sub-specification and '
                 'assertion registered after it, so the modular specification silently means something else than the inlined one' % (sep, '/'.join(sorted(set(line_tokens)))), target.lineno)


def _pastifier_fresh(ix, rep):
    """pastifier handlers return newly built nodes (or the rewritten child), never the visited node itself"""
    nodes = set(c.name for c in D.node_classes(ix))
    n = 0
    for modn, cn in (('rtamt.pastifier.stl.pastifier', 'StlPastifier'),):
        cls = ix.find_class(modn, cn)
        d = D.dispatch_of(ix, cls)
        for nc in D.node_classes(ix):
            meth, _ = d.method_for(nc, ix)
            if not meth:
                continue
            cat, info, f = D.classify(ix, cls, meth)
            if cat != 'compute':
                continue
            n += 1
            rep.analysed(f)
            rep.unit(f.module.rel)
            nodep = f.node.args.args[1].arg
            # reaching definitions of the returned name: constructor calls or self.visit(...)
            bad = None
            defs = {}
            for st in ast.walk(f.node):
                if isinstance(st, ast.Assign) and len(st.targets) == 1 and isinstance(st.targets[0], ast.Name):
                    defs.setdefault(st.targets[0].id, []).append(st.value)
            for r in [s for s in ast.walk(f.node) if isinstance(s, ast.Return)]:
                v = r.value
                cands = defs.get(v.id, []) if isinstance(v, ast.Name) else [v]
                if isinstance(v, ast.Name) and v.id == nodep and not defs.get(nodep):
                    bad = 'returns the visited node itself'
                for c in cands:
                    if isinstance(c, ast.Call):
                        ent = ix.resolve_expr(f.module, c.func) if isinstance(c.func, (ast.Name, ast.Attribute)) else None
                        if isinstance(ent, ClassInfo) and ent.name in nodes:
                            continue
                        if D._self_call(c) == 'visit':
                            continue
                    bad = 'returns `%s`, which is neither a newly built node nor a rewritten child' % ast.unparse(c)[:50]
            slot = 'fresh:%s' % nc.name
            if bad:
                rep.fail('R-FRESHNODE', f.module.rel, f.qual, slot, bad + ': occurrences with different remaining horizons would share one node', f.node.lineno)
            else:
                rep.ok('R-FRESHNODE', f.module.rel, f.qual, slot, 'returns a newly constructed node', f.node.lineno)
    return n


def check(ix, rep):
    from sa.rules import round11 as _r11
    rep.floor('removals from the sub-specification table', _r11.check_subspec_table_writers(ix, rep), 1)
    _visit_expr_id(ix, rep)
    _visit_assertion(ix, rep)
    from sa.rules import store as _st9
    rep.floor('writers of ast.specs', _st9.check_spec_forest_writers(ix, rep), 3)
    # after pastify() too: every assertion is delayed by its own look-ahead (a common delay shifts an output whose sub-specifications look
    # further ahead than it does, while its inlined form is not shifted)
    from sa.props import c03 as _c03
    _pc = ix.find_class('rtamt.pastifier.stl.pastifier', 'StlPastifier')
    _hc = ix.find_class('rtamt.pastifier.stl.horizon', 'StlHorizon')
    if _pc is None or _hc is None:
        raise AnalysisError('pastifier / horizon class vanished')
    _c03.check_pastify_driver(ix, rep, _pc, _hc)
    rep.floor('name tables whose reader and writer keys are compared', _key_agreement(ix, rep), 2)
    mons = M.monitors(ix)
    for m in mons:
        if m.mode == 'online' and m.sem == 'Standard':
            step.check_step(ix, rep, m)
    noff = 0
    for m in M.standard_monitors(ix):
        if m.mode == 'offline':
            noff += pure.pure_handlers(ix, rep, m)
    rep.floor('offline handlers checked for idempotent re-evaluation', noff, 60)
    n = ownrule.run(ix, rep)
    rep.floor('functions in the ownership analysis', n, 250)
    # a declared constant used as a bound denotes the same (value, unit) pair as the literal it stands for
    from sa.rules import units, store
    prod = units.parser_unit_strings(ix, rep)
    a, b = prod['visitConstantTimeLiteral'], prod['visitIntervalTimeLiteral']
    if (a[0], a[1]) == (b[0], b[1]):
        rep.ok('R-INLINE', a[2].module.rel, a[2].qual, 'const-bound-unit', 'a constant bound gets the same unit string as a literal bound (%s or the written suffix)' % sorted(a[0]), a[2].node.lineno)
    else:
        rep.fail('R-INLINE', a[2].module.rel, a[2].qual, 'const-bound-unit', 'a bound given by a declared constant without suffix gets unit %s, a literal bound %s: replacing the constant by its '
                 'literal changes how the unit of the other bound is inherited' % (sorted(a[0]) or 'a computed value', sorted(b[0])), a[2].node.lineno)
    # sub-specification texts are assembled into one text: each must end its own line, because the lexer has tokens (line comments)
    # that run to the end of the line and would swallow the next sub-specification or the main assertion
    _check_subspec_separator(ix, rep)
    # the pastifier rewrites every occurrence of a shared sub-specification for its own remaining look-ahead
    store.check_pastifier_remap(ix, rep)
    nf = _pastifier_fresh(ix, rep)
    rep.floor('pastifier handlers', nf, 30)
    from sa.rules import memo
    for m_ in M.standard_monitors(ix):
        if m_.mode == 'offline':
            memo.check_offline_memo_renewed(ix, rep, m_)
    # the node of a sub-specification is shared by all its references: no constructor alters a node it is given
    from sa.rules import astpure
    nnc = astpure.check_modules(ix, rep, ('rtamt/syntax/node/',), 'node-ctor')
    rep.floor('node constructors and accessors checked for stores through parameters', nnc, 60)
    # a constant declared through the API is the literal it stands for in the inlined text
    from sa.rules import units as _u
    nfx = _u.check_forwarding_exact(ix, rep)
    rep.floor('arguments forwarded from the specification to the ast', nfx, 8)
    # one node per occurrence: the parser's dispatch hands back the node built for the tree it was given
    from sa.rules import parserrules as _Pfresh
    rep.floor('parser dispatch methods checked for node sharing', _Pfresh.check_dispatch_transparent(ix, rep), 2)
    explanation = (
        'Parser shape: visitExprId resolves an identifier as declared constant (-> Constant(value)) or sub-spec name (-> the node '
        'bound to it) before any variable handling; visitAssertion registers the node under its name and appends the same object to '
        'ast.specs on every normal path (CFG must-pass-through). A shared node is therefore evaluated more than once: offline this '
        'is harmless because handlers are pure and do not mutate operands (R-PURE, R-OWN); online it requires the per-update memo of '
        'R-STEP (discrete and dense); the pastifier rebuilds every occurrence as a fresh node (R-FRESHNODE) so occurrences with '
        'different remaining horizons never share state.')
    assumptions = ['ANTLR visits the assertions of a specification in textual order (generated visitChildren)',
                   'equivalence of values is reduced to: same tree shape after substitution + once-per-update stepping + pure re-evaluation']
    return explanation, assumptions, 'one instance per parser obligation, per monitor memo obligation, per handler', {'exhaustive': True}
