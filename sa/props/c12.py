"""C12  Named sub-formula values are the robustness of that sub-formula (structural part)."""
from sa import model as M
from sa.rules import store, ownrule


def check(ix, rep):
    from sa.rules import round11 as _r11
    rep.floor('get_value implementations', _r11.check_get_value(ix, rep), 2)
    rep.floor('variable names re-pointed by the pastifier', _r11.check_variable_remap(ix, rep), 1)
    n = store.check_store(ix, rep)
    rep.floor('result-store obligations', n, 12)
    ni = store.check_identity_keys(ix, rep)
    rep.floor('node classes whose objects key the result stores', ni, 39)
    nn = store.check_name_table(ix, rep)
    rep.floor('name-table obligations', nn, 35)
    from sa.rules import nodename
    nk = nodename.check(ix, rep, 'name-table')
    rep.floor('name obligations (parts of the printed name, skeletons)', nk, 120)
    # a node constructor does not change the nodes it is given: a sub-specification node is shared by every formula that refers to it
    from sa.rules import astpure
    nnc = astpure.check_modules(ix, rep, ('rtamt/syntax/node/',), 'node-ctor')
    rep.floor('node constructors and accessors checked for stores through parameters', nnc, 60)
    store.check_pastifier_remap(ix, rep)
    # a named sub-formula that is stepped twice in one update no longer has the value of the same formula monitored on its own
    from sa.rules import step
    from sa import model as M_
    for m_ in M_.standard_monitors(ix):
        if m_.mode == 'online':
            step.check_step(ix, rep, m_)
    # the spec forest is written only where it is built; the name tables of two specifications are two objects
    rep.floor('writers of ast.specs', store.check_spec_forest_writers(ix, rep), 3)
    from sa.rules import globals as _G12
    _G12.fixture_selfcheck(rep)
    rep.floor('syntax and specification modules scanned for shared state', _G12.run_global(ix, rep, prefix='rtamt.syntax') + _G12.run_global(ix, rep, prefix='rtamt.spec'), 40)
    no = ownrule.run(ix, rep)
    rep.floor('functions in the ownership analysis', no, 250)
    # one node per occurrence: the parser's dispatch hands back the node built for the tree it was given
    from sa.rules import parserrules as _Pfresh
    rep.floor('parser dispatch methods checked for node sharing', _Pfresh.check_dispatch_transparent(ix, rep), 2)
    # get_value(v) of an input variable returns the data supplied: the data-entry functions store the supplied value or a container copy of it
    from sa.rules import truthy as _te12
    _ne12 = 0
    for _m in M.standard_monitors(ix):
        _de = ix.resolve_method(_m.cls, 'set_variable_to_ast_from_dataset')
        if _de is not None:
            rep.analysed(_de)
            _ne12 += _te12.check_entry_verbatim(ix, rep, _de, _m.kind)
    rep.floor('data-entry stores', _ne12, 4)
    explanation = (
        'R-STORE: in the offline visit wrappers and in visitBinary/visitUnary/visitLeaf of the online update visitor every return is '
        'dominated by results[node] = <returned value> (per-function CFG + dominators); the memo-hit path records results[node] too; '
        'both online update() publish updateVisitor.results as ast.results. R-NAMES: every parser method that builds and returns a node '
        'registers it under node.name, visitAssertion maps the assertion identifier (or implicit `out`) to the root node, get_value reads '
        'results through that table. R-REMAP: the pastifier re-points names to rewritten nodes. R-OWN with results[...] entries and '
        'visit() results as borrowed: a stored signal is never resized afterwards (one value per sample).')
    assumptions = ['equality with a stand-alone evaluation of the named formula is compositionality, claimed under C01/C02, not here']
    return explanation, assumptions, 'one instance per visit/return obligation, per node-building parser method, per analysed function', {'exhaustive': True}
