"""C03  Pastified bounded-future monitor reports original robustness with fixed delay (structural part)."""
import ast

from sa.index import AnalysisError
from sa import dispatch as D, model as M
from sa.rules import pastify, unitflow, store, exh

UNBOUNDED = ('Eventually', 'Always', 'Until')


def exh_visitor(ix, rep, cls, label, rule='R-EXH'):
    """every node class the parser/pastifier can build has a real handler (a missing one is dropped from the rewritten tree)"""
    d = D.dispatch_of(ix, cls)
    built = set(M.parser_builds(ix)) | set(M.pastifier_builds(ix))
    n = 0
    for nc in D.node_classes(ix):
        if nc.name not in built:
            continue
        meth, _ = d.method_for(nc, ix)
        slot = '%s:%s' % (label, nc.name)
        if not meth:
            rep.fail(rule, cls.module.rel, cls.name, slot, 'no dispatch arm for %s' % nc.name, cls.node.lineno)
            continue
        cat, info, f = D.classify(ix, cls, meth)
        n += 1
        where = f.module.rel if f else cls.module.rel
        sym = f.qual if f else '%s.%s' % (cls.name, meth)
        line = f.node.lineno if f else None
        if f is not None:
            rep.analysed(f)
            rep.unit(f.module.rel)
        if cat == 'compute':
            if nc.name in UNBOUNDED:
                rep.fail(rule, where, sym, slot, 'unbounded future operator %s is given a value instead of being rejected' % nc.name, line)
            else:
                # a handler of an operator the rewrite supports does not refuse under a condition: the horizon and the pastifier serve the discrete-
                # and the dense-time monitors alike (a test against the sampling grid refuses dense-time bounds such as [0, 0.5], which are supported)
                cond_raise = None
                if f is not None:
                    for x in ast.walk(f.node):
                        if isinstance(x, ast.Raise):
                            cond_raise = x
                        elif isinstance(x, ast.Call) and D._self_call(x) and cond_raise is None:
                            h_ = ix.resolve_method(cls, D._self_call(x))
                            if h_ is not None and not h_.node.name.startswith('visit') and any(isinstance(y, ast.Raise) for y in ast.walk(h_.node)):
                                cond_raise = x
                if cond_raise is not None:
                    rep.fail(rule, where, sym, slot + ':refuses', 'the handler of %s, an operator the rewrite supports, raises under a condition (`%s`): a specification that the monitors '
                             'accept is refused by pastify()' % (nc.name, ast.unparse(cond_raise)[:60]), cond_raise.lineno)
                rep.ok(rule, where, sym, slot, 'compute', line)
        elif cat == 'reject':
            if nc.name in UNBOUNDED and D.is_rtamt_exception(ix, info):
                rep.ok(rule, where, sym, slot, 'unbounded future operator rejected with RTAMTException', line)
            elif nc.name in UNBOUNDED:
                rep.fail(rule, where, sym, slot, 'rejected with %s, not RTAMTException' % getattr(info, 'name', info), line)
            else:
                rep.fail(rule, where, sym, slot, 'operator %s cannot be pastified: its handler unconditionally raises' % nc.name, line)
        else:
            what = ('its look-ahead is the look-ahead of its last operand only and is not recorded' if 'Horizon' in cls.name else
                    'the operator is dropped from the rewritten specification (the rewritten last operand is returned in its place)')
            rep.fail(rule, where, sym, slot, '%s has no handler in %s (%s): %s' % (nc.name, cls.name, cat, what), line)
    return n


def check_pastify_driver(ix, rep, pcls, hcls):
    """pastify(): every assertion rewritten with the look-ahead computed for that assertion; the rewritten specs replace ast.specs in order"""
    # pastify(): horizon of every spec computed before rewriting; specs replaced in order; result has no future operator
    pf = pcls.methods.get('pastify')
    rep.analysed(pf)
    src = ast.unparse(pf.node)
    loops = [s for s in pf.node.body if isinstance(s, ast.For)]
    # iterations over the specs: for-loops and comprehensions (the comprehension node stands for its own loop)
    iters = []      # (node whose body is walked, iteration variable)
    zipped = {}     # iteration variable paired with the spec variable by zip(ast.specs, L) -> L
    for x in ast.walk(pf.node):
        tgt_, it_ = (x.target, x.iter) if isinstance(x, ast.For) else ((x.generators[0].target, x.generators[0].iter) if isinstance(x, (ast.ListComp, ast.DictComp)) and len(x.generators) == 1
                                                                     and not x.generators[0].ifs else (None, None))
        if isinstance(tgt_, ast.Tuple) and len(tgt_.elts) == 2 and all(isinstance(e_, ast.Name) for e_ in tgt_.elts) and isinstance(it_, ast.Call) and getattr(it_.func, 'id', None) == 'zip' \
                and len(it_.args) == 2 and ast.unparse(it_.args[0]) == 'ast.specs' and isinstance(it_.args[1], ast.Name):
            # for spec, horizon in zip(ast.specs, L): the k-th element of L goes with the k-th spec
            iters.append((x, tgt_.elts[0].id))
            zipped[tgt_.elts[1].id] = it_.args[1].id
    for x in ast.walk(pf.node):
        if isinstance(x, ast.For) and isinstance(x.target, ast.Name) and 'ast.specs' in ast.unparse(x.iter):
            iters.append((x, x.target.id))
        elif isinstance(x, (ast.ListComp, ast.DictComp)) and len(x.generators) == 1 and isinstance(x.generators[0].target, ast.Name) \
                and 'ast.specs' in ast.unparse(x.generators[0].iter) and not x.generators[0].ifs:
            iters.append((x, x.generators[0].target.id))

    def _rewrite_of(e, var):
        return isinstance(e, ast.Call) and D._self_call(e) == 'visit' and len(e.args) >= 2 and isinstance(e.args[0], ast.Name) and e.args[0].id == var

    def _comp_var(c_):
        t_ = c_.generators[0].target
        return t_.id if isinstance(t_, ast.Name) else (t_.elts[0].id if isinstance(t_, ast.Tuple) and isinstance(t_.elts[0], ast.Name) else None)
    # the rewritten specs, in the order of ast.specs, become ast.specs
    in_order = False
    assigned = [st for st in ast.walk(pf.node) if isinstance(st, ast.Assign) and len(st.targets) == 1 and ast.unparse(st.targets[0]) == 'ast.specs']
    for st in assigned:
        v = st.value
        cands = [v]
        if isinstance(v, ast.Name):
            cands = [d_.value for d_ in ast.walk(pf.node) if isinstance(d_, ast.Assign) and len(d_.targets) == 1 and isinstance(d_.targets[0], ast.Name)
                     and d_.targets[0].id == v.id]
        for c_ in cands:
            if isinstance(c_, ast.ListComp) and any(c_ is it_ for it_, _ in iters) and _rewrite_of(c_.elt, _comp_var(c_)):
                in_order = True
            if isinstance(c_, ast.List) and not c_.elts and isinstance(v, ast.Name):
                # built by append in a loop over the specs: every iteration appends the rewrite of its spec (directly or through a local)
                for lp, var in iters:
                    if not isinstance(lp, ast.For):
                        continue
                    apps = [q for q in lp.body if isinstance(q, ast.Expr) and isinstance(q.value, ast.Call) and isinstance(q.value.func, ast.Attribute)
                            and q.value.func.attr == 'append' and isinstance(q.value.func.value, ast.Name) and q.value.func.value.id == v.id]
                    if len(apps) == 1 and apps[0].value.args:
                        a0 = apps[0].value.args[0]
                        if isinstance(a0, ast.Name):
                            ds = [q.value for q in lp.body if isinstance(q, ast.Assign) and len(q.targets) == 1 and isinstance(q.targets[0], ast.Name) and q.targets[0].id == a0.id]
                            a0 = ds[-1] if ds else a0
                        if _rewrite_of(a0, var):
                            in_order = True
    if in_order:
        rep.ok('R-DELAY', pf.module.rel, pf.qual, 'pastify-driver', 'every spec is rewritten and the rewritten specs replace ast.specs in the same order', pf.node.lineno)
    else:
        rep.fail('R-DELAY', pf.module.rel, pf.qual, 'pastify-driver', 'pastify() does not replace ast.specs by the rewritten specs, one per spec and in the same order', pf.node.lineno)
    # ... and each with its *own* look-ahead: the delay of assertion s is h(s), whatever else is in the forest (a sub-specification with a
    # longer look-ahead that the output does not use must not delay the output)
    hname = None
    for st in ast.walk(pf.node):
        if isinstance(st, ast.Assign) and isinstance(st.value, ast.Call) and isinstance(st.targets[0], ast.Name):
            ent = ix.resolve_expr(pf.module, st.value.func)
            if ent is hcls:
                hname = st.targets[0].id
    if hname is None:
        raise AnalysisError('%s: the horizon visitor is not instantiated in pastify()' % pf.where)

    def _is_own_horizon(e, specvar, loop, depth=0):
        # h.visit(specvar, ..)
        if isinstance(e, ast.Call) and isinstance(e.func, ast.Attribute) and e.func.attr == 'visit' and isinstance(e.func.value, ast.Name) and e.func.value.id == hname \
                and e.args and isinstance(e.args[0], ast.Name) and e.args[0].id == specvar:
            return True
        if depth > 3:
            return False
        # the partner of the spec variable in zip(ast.specs, L), L holding one horizon per spec in order
        if isinstance(e, ast.Name) and e.id in zipped:
            L = zipped[e.id]
            for x in ast.walk(pf.node):
                if isinstance(x, ast.Assign) and len(x.targets) == 1 and isinstance(x.targets[0], ast.Name) and x.targets[0].id == L and isinstance(x.value, ast.ListComp) \
                        and len(x.value.generators) == 1 and not x.value.generators[0].ifs and isinstance(x.value.generators[0].target, ast.Name) \
                        and ast.unparse(x.value.generators[0].iter) == 'ast.specs' and _is_own_horizon(x.value.elt, x.value.generators[0].target.id, x.value, depth + 1):
                    return True
            for lp, lpvar in iters:
                if isinstance(lp, ast.For) and lp is not loop and isinstance(lp.target, ast.Name):
                    apps = [q for q in lp.body if isinstance(q, ast.Expr) and isinstance(q.value, ast.Call) and isinstance(q.value.func, ast.Attribute) and q.value.func.attr == 'append'
                            and isinstance(q.value.func.value, ast.Name) and q.value.func.value.id == L]
                    if len(apps) == 1 and len(lp.body) >= 1 and all(not isinstance(q, (ast.If, ast.Continue, ast.Break)) for q in ast.walk(lp) if q is not lp) \
                            and _is_own_horizon(apps[0].value.args[0], lpvar, lp, depth + 1):
                        return True
            return False
        # a local of the same loop body bound once
        if isinstance(e, ast.Name):
            ds = [x for x in ast.walk(loop) if isinstance(x, ast.Assign) and len(x.targets) == 1 and isinstance(x.targets[0], ast.Name) and x.targets[0].id == e.id]
            if len(ds) == 1:
                return _is_own_horizon(ds[0].value, specvar, loop, depth + 1)
            return False
        # D[specvar] with D filled per spec in an earlier loop over the specs
        if isinstance(e, ast.Subscript) and isinstance(e.value, ast.Name) and isinstance(e.slice, ast.Name) and e.slice.id == specvar:
            for lp, lpvar in iters:
                if lp is loop:
                    continue
                if isinstance(lp, ast.DictComp):
                    # D = {spec: h.visit(spec, ..) for spec in ast.specs}
                    bound = [x for x in ast.walk(pf.node) if isinstance(x, ast.Assign) and x.value is lp and len(x.targets) == 1 and isinstance(x.targets[0], ast.Name)
                             and x.targets[0].id == e.value.id]
                    if bound and isinstance(lp.key, ast.Name) and lp.key.id == lpvar and _is_own_horizon(lp.value, lpvar, lp, depth + 1):
                        return True
                    continue
                for x in ast.walk(lp):
                    if isinstance(x, ast.Assign) and len(x.targets) == 1 and isinstance(x.targets[0], ast.Subscript) and isinstance(x.targets[0].value, ast.Name) \
                            and x.targets[0].value.id == e.value.id and isinstance(x.targets[0].slice, ast.Name) and x.targets[0].slice.id == lpvar:
                        if _is_own_horizon(x.value, lpvar, lp, depth + 1):
                            return True
        return False
    nown = 0
    for lp, lpvar in iters:
        for c in ast.walk(lp):
            if isinstance(c, ast.Call) and D._self_call(c) == 'visit' and len(c.args) >= 2 and isinstance(c.args[0], ast.Name) and c.args[0].id == lpvar:
                nown += 1
                if _is_own_horizon(c.args[1], lpvar, lp):
                    rep.ok('R-DELAY', pf.module.rel, pf.qual, 'pastify-driver:own-horizon', 'every assertion is rewritten with the look-ahead computed for that assertion', c.lineno)
                else:
                    rep.fail('R-DELAY', pf.module.rel, pf.qual, 'pastify-driver:own-horizon', 'the look-ahead handed to the rewrite of an assertion (`%s`) is not the horizon computed for '
                             'that assertion: an assertion is delayed by something other than its own look-ahead -- e.g. a sub-specification with a longer look-ahead that the '
                             'output does not use delays the output too, and update i no longer returns the sample i - H(out)' % ast.unparse(c.args[1])[:60], c.lineno)
    rep.floor('rewrite calls of the pastify driver', nown, 1)
    return nown


def check(ix, rep):
    from sa.rules import round11 as _r11
    rep.floor('sites that clear the ast-installed flag', _r11.check_set_ast_flag_writers(ix, rep), 1)
    hcls = ix.find_class('rtamt.pastifier.stl.horizon', 'StlHorizon')
    pcls = ix.find_class('rtamt.pastifier.stl.pastifier', 'StlPastifier')
    n1 = exh_visitor(ix, rep, hcls, 'StlHorizon')
    n2 = exh_visitor(ix, rep, pcls, 'StlPastifier')
    rep.floor('horizon + pastifier dispatch cells', n1 + n2, 76)
    nh, deltas = pastify.check_horizon(ix, rep, hcls, pcls)
    nd, consumed = pastify.check_delay(ix, rep, pcls)
    # the operators the rewrite produces (once, historically, since, precedes [a,b]) compute the windows the rewrite relies on
    from sa.rules import windowrule
    from sa import model as M_
    on = {m.kind: m for m in M_.standard_monitors(ix)}['discrete-online']
    nw, _w = windowrule.check_online(ix, rep, on, which=('R-WINDOW',))
    rep.floor('bounded online operations whose window was derived', nw, 4)
    # the rewrite emits the same delayed sub-formula several times (`once[k,k](phi)` under one name): the online monitor's once-per-update memo decides
    # whether its shared operator is stepped once
    from sa.rules import step as _step
    _step.check_step(ix, rep, on)
    nbe = _step.check_buffer_every_path(ix, rep, M_.operation_classes(ix, 'discrete'), 'discrete-online')
    rep.floor('ring buffers of the operations the rewrite produces', nbe, 4)
    from sa.rules import units as _u
    npa = _u.check_period_reaches_ast(ix, rep)
    rep.floor('sampling settings the pastifier reads from the ast', npa, 2)
    npn = unitflow.check_period_normalisers(ix, rep)
    rep.floor('period normalisers', npn, 1)
    nhd = pastify.check_horizon_dimension(ix, rep, hcls)
    rep.floor('next handlers checked for the unit of their look-ahead', nhd, 2)
    nrt = pastify.check_roundtrip(ix, rep, pcls)
    rep.floor('attributes re-fed to a node constructor by the pastifier', nrt, 3)
    no = pastify.check_origin(ix, rep, pcls)
    rep.floor('past operators checked for samples before the origin', no, 10)
    rep.floor('horizon handlers interpreted', nh, 33)
    rep.floor('pastifier handlers interpreted', nd, 33)
    # agreement: what the horizon adds for X is what the pastifier consumes for X
    for name in sorted(set(deltas) & set(consumed)):
        if deltas[name].same(consumed[name]):
            rep.ok('R-HORIZON', hcls.module.rel, 'StlHorizon~StlPastifier', 'agree:%s' % name, 'added = consumed = %r' % consumed[name])
        else:
            rep.fail('R-HORIZON', pcls.module.rel, 'StlHorizon~StlPastifier', 'agree:%s' % name,
                     'the horizon visitor adds %r for %s but the pastifier consumes %r before descending: operands are delayed by the wrong amount'
                     % (deltas[name], name, consumed[name]))
    # units
    n = 0
    for cls in (pcls, hcls):
        d = D.dispatch_of(ix, cls)
        for nc in D.node_classes(ix):
            if not nc.name.startswith('Timed'):
                continue
            meth, _ = d.method_for(nc, ix)
            cat, info, f = D.classify(ix, cls, meth)
            if cat == 'compute':
                unitflow.check_handler(ix, rep, cls, f, '%s:%s' % (cls.name, nc.name))
                n += 1
    rep.floor('timed handlers checked for unit flow', n, 14)
    # the normalising helper converts each bound with its own unit (dimension rule shared with C08)
    from sa.rules import units
    norms = {}
    for cls in (pcls, hcls):
        for f_ in cls.methods.values():
            for nf in unitflow.normalisers_used(ix, cls, f_):
                norms[id(nf)] = nf
    for nf in norms.values():
        units.check_transformer(ix, rep, None, None, 'dense', func=nf)
    store.check_pastifier_remap(ix, rep)
    check_pastify_driver(ix, rep, pcls, hcls)
    # the LTL front end has a driver of its own (same obligations: C15 says the two front ends denote the same monitor on untimed formulas)
    check_pastify_driver(ix, rep, ix.find_class('rtamt.pastifier.ltl.pastifier', 'LtlPastifier'), ix.find_class('rtamt.pastifier.ltl.horizon', 'LtlHorizon'))
    # the rewritten tree contains no future operator: node classes the pastifier can build
    pb = M.pastifier_builds(ix)
    fut = sorted(set(pb) & {'Eventually', 'Always', 'Until', 'TimedEventually', 'TimedAlways', 'TimedUntil', 'Next', 'StrongNext'})
    if fut:
        rep.fail('R-DELAY', pcls.module.rel, 'StlPastifier', 'no-future-built', 'the pastifier builds future operator nodes %s' % fut)
    else:
        rep.ok('R-DELAY', pcls.module.rel, 'StlPastifier', 'no-future-built', 'no handler constructs a future operator node (%d node classes built)' % len(pb))
    explanation = (
        'The pastifier is a fold; its correctness argument is an induction whose local obligations are checked by abstract interpretation of '
        'every handler body over the symbols R (remaining look-ahead), H (own look-ahead), BEGIN, END. R-EXH: every buildable node class has a '
        'real handler in StlHorizon and StlPastifier (a fall-through drops the operator from the rewritten tree), unbounded future is rejected. '
        'R-HORIZON: the horizon handler of X returns max(children) + delta with delta = END for bounded future, 1 for next, 0 otherwise, stores '
        'the same value, and the pastifier consumes exactly that delta before descending. R-DELAY: each handler rebuilds its own node class (future: '
        'once/historically/precedes image) from the children rewritten with the right remaining look-ahead, in order, with operator/interval '
        'kept, and wraps *that rebuilt node* in once[d,d] with d = R - H. R-UNITFLOW: bounds are normalised to the default unit before they are '
        'added to horizons or put into new intervals. R-REMAP: names follow the rewritten nodes.')
    assumptions = ['that once[a,b], historically[a,b], precedes[a,b] with the shifted bounds compute the delayed values is window arithmetic (C02 undecided part)',
                   'hand lemma: once[d,d] delays a signal by d samples; once[0,b-a] delayed by b equals eventually[a,b]']
    return explanation, assumptions, 'one instance per dispatch cell, per handler shape, per delta agreement', {'exhaustive': True}
