"""C13  Sampling-violation counter counts exactly the out-of-tolerance gaps."""
import ast

from sa.index import AnalysisError, ClassInfo
from sa import alg, flow, model as M
from sa import effects as E
from sa.rules import pure


def _counter_call(node):
    return [c for c in ast.walk(node) if isinstance(c, ast.Call) and isinstance(c.func, ast.Attribute)
            and c.func.attr == 'update_sampling_violation_counter']


def _normalize_is_one(ix, cls, rep, f):
    """self.normalize is 1.0 in the constructor and written nowhere else"""
    init = None
    writers = []
    for c in ix.mro(cls):
        if isinstance(c, ClassInfo):
            for name, m in c.methods.items():
                for st in ast.walk(m.node):
                    if isinstance(st, (ast.Assign, ast.AugAssign)):
                        tg = st.targets[0] if isinstance(st, ast.Assign) else st.target
                        if E.self_loc(tg) == 'normalize':
                            if name == '__init__' and isinstance(st, ast.Assign):
                                init = st.value
                            else:
                                writers.append(m)
    one = init is not None and ast.unparse(init).replace(' ', '') in ('float(1.0)', '1.0', '1', 'float(1)')
    return one and not writers


def _is_none_test(t):
    if isinstance(t, ast.Compare) and len(t.ops) == 1 and isinstance(t.ops[0], (ast.Is, ast.Eq)) and isinstance(t.comparators[0], ast.Constant) \
            and t.comparators[0].value is None:
        return E.self_loc(t.left)
    if isinstance(t, ast.UnaryOp) and isinstance(t.op, ast.Not):
        return E.self_loc(t.operand)
    return None


def _config_writers(ix, cls):
    out = []
    for c in ix.mro(cls):
        if isinstance(c, ClassInfo):
            for name, m in c.methods.items():
                if name in ('set_sampling_period', 'reset') and ix.resolve_method(cls, name) is m:
                    out.append(m)
    return out


def _assigns_none(m, attr):
    for st in ast.walk(m.node):
        if isinstance(st, ast.Assign) and E.self_loc(st.targets[0]) == attr and isinstance(st.value, ast.Constant) and st.value.value is None:
            return True
    return False


def comparison_shape(ix, rep, cls):
    f = ix.resolve_method(cls, 'update_sampling_violation_counter')
    if f is None:
        raise AnalysisError('update_sampling_violation_counter vanished')
    rep.analysed(f)
    rep.unit(f.module.rel)
    dparam = f.node.args.args[1].arg
    env = {dparam: alg.RatFun.sym('gap')}

    def leaf(e):
        s = ast.unparse(e)
        if s in ('self.sampling_period',):
            return alg.RatFun.sym('period')
        if s in ('self.sampling_tolerance',):
            return alg.RatFun.sym('tol')
        if isinstance(e, ast.Subscript) and isinstance(e.value, ast.Attribute) and e.value.attr == 'U':
            k = ast.unparse(e.slice)
            if k in ('self.sampling_period_unit',):
                return alg.RatFun.sym('U[P]')
            if k in ('self.ast.unit', 'self.unit'):
                return alg.RatFun.sym('U[D]')
        if isinstance(e, ast.Call) and isinstance(e.func, ast.Attribute) and e.func.attr == 'get_sampling_period':
            return alg.RatFun.sym('period') * alg.RatFun.sym('U[P]')
        return None
    the_if = None
    cached = {}   # attribute -> tuple of RatFun: value computed once and kept in self
    sym = f.qual

    def assign(st):
        t = st.targets[0]
        if isinstance(t, ast.Name):
            if isinstance(st.value, ast.Attribute) and E.self_loc(st.value) in cached and len(cached[E.self_loc(st.value)]) == 1:
                env[t.id] = cached[E.self_loc(st.value)][0]
            else:
                env[t.id] = alg.AlgEval(env, leaf).ev(st.value)
        elif isinstance(t, ast.Tuple) and isinstance(st.value, ast.Tuple) and len(t.elts) == len(st.value.elts) and all(isinstance(e, ast.Name) for e in t.elts):
            vals = [alg.AlgEval(env, leaf).ev(v) for v in st.value.elts]
            for e, v in zip(t.elts, vals):
                env[e.id] = v
        elif isinstance(t, ast.Tuple) and E.self_loc(st.value) in cached and len(t.elts) == len(cached[E.self_loc(st.value)]):
            for e, v in zip(t.elts, cached[E.self_loc(st.value)]):
                env[e.id] = v
        elif isinstance(t, ast.Attribute) and E.self_loc(t) is not None:
            vals = st.value.elts if isinstance(st.value, (ast.Tuple, ast.List)) else [st.value]
            cached[E.self_loc(t)] = tuple(alg.AlgEval(env, leaf).ev(v) for v in vals)
        else:
            raise ValueError('assignment target')
    # named conditions (`too_short = gap < P - T`) are the conditions; a guard clause `if not bad: return` followed by the count is `if bad: count`
    import copy as _copy
    from sa import norm as _norm
    fbody = _norm.inline_bool_temps(_copy.deepcopy(f.node)).body
    if len(fbody) >= 2 and isinstance(fbody[-2], ast.If) and not fbody[-2].orelse and len(fbody[-2].body) == 1 and isinstance(fbody[-2].body[0], ast.Return) \
            and fbody[-2].body[0].value is None and not isinstance(fbody[-1], ast.If):
        flipped = ast.If(test=ast.UnaryOp(op=ast.Not(), operand=fbody[-2].test), body=[fbody[-1]], orelse=[])
        ast.copy_location(flipped, fbody[-2])
        ast.fix_missing_locations(flipped)
        fbody = fbody[:-2] + [flipped]
    for st in fbody:
        if isinstance(st, ast.Expr) and isinstance(st.value, ast.Constant):
            continue
        try:
            if isinstance(st, ast.Assign) and len(st.targets) == 1:
                assign(st)
            elif isinstance(st, ast.If) and _is_none_test(st.test) and not st.orelse:
                # cache miss branch: `if self.X is None: ...; self.X = ...`
                for q in st.body:
                    if isinstance(q, ast.Assign) and len(q.targets) == 1:
                        assign(q)
                    elif not (isinstance(q, ast.Expr) and isinstance(q.value, ast.Constant)):
                        raise ValueError('statement in cache branch')
                if _is_none_test(st.test) not in cached:
                    raise ValueError('cache branch does not fill self.%s' % _is_none_test(st.test))
            elif isinstance(st, ast.If) and the_if is None:
                the_if = st
            else:
                raise ValueError('statement form')
        except ValueError as ex:
            raise AnalysisError('%s: cannot interpret `%s` (%s)' % (f.where, ast.unparse(st)[:60], ex))
    for attr in sorted(cached):
        # the accepted window depends on sampling_period, its unit, the tolerance and the default unit, all of which can change
        # between calls (set_sampling_period, spec.unit): a value kept in self is stale unless every such writer invalidates it
        writers = _config_writers(ix, cls)
        stale = [w.qual for w in writers if not _assigns_none(w, attr)]
        rep.fail('R-JITTER', f.module.rel, sym, 'cached:self.%s' % attr,
                 'the accepted gap window is computed once and kept in self.%s; it depends on the sampling period, its unit, the tolerance and the default '
                 'unit, but %s do not invalidate it (and the default unit is set on another object): after set_sampling_period()/reset() gaps are judged '
                 'against the old window' % (attr, ', '.join(stale) if stale else 'the writers of ast.unit'), f.node.lineno)
    if the_if is None:
        rep.fail('R-JITTER', f.module.rel, sym, 'shape', 'no gap test', f.node.lineno)
        return
    t = the_if.test
    lo = hi = None
    strict = True
    FLIP = {ast.Lt: ast.Gt, ast.Gt: ast.Lt, ast.LtE: ast.GtE, ast.GtE: ast.LtE}
    NEGATE = {ast.Lt: ast.GtE, ast.GtE: ast.Lt, ast.Gt: ast.LtE, ast.LtE: ast.Gt}

    def bound_of(r):
        try:
            return alg.AlgEval(env, leaf).ev(r)
        except ValueError as ex:
            raise AnalysisError('%s: cannot interpret bound `%s` (%s)' % (f.where, ast.unparse(r), ex))

    def link(l, op, r):
        """one comparison -> atoms (operator class, bound) about the gap; [] when the gap is not an operand"""
        if type(op) not in FLIP:
            return None
        if ast.unparse(l) != dparam and ast.unparse(r) == dparam:
            l, r, op = r, l, FLIP[type(op)]()
        if ast.unparse(l) == dparam:
            return [(type(op), bound_of(r))]
        # abs(gap - P) > T   <=>   gap < P - T or gap > P + T   (a disjunction; its negation a conjunction)
        if isinstance(l, ast.Call) and isinstance(l.func, ast.Name) and l.func.id == 'abs' and len(l.args) == 1 and isinstance(l.args[0], ast.BinOp) \
                and isinstance(l.args[0].op, ast.Sub):
            a, b = l.args[0].left, l.args[0].right
            centre = b if ast.unparse(a) == dparam else a if ast.unparse(b) == dparam else None
            if centre is not None:
                c_, t_ = bound_of(centre), bound_of(r)
                if isinstance(op, (ast.Gt, ast.GtE)):
                    return ('or', [(ast.Lt if isinstance(op, ast.Gt) else ast.LtE, c_ - t_), (type(op), c_ + t_)])
                return ('and', [(ast.GtE if isinstance(op, ast.LtE) else ast.Gt, c_ - t_), (type(op), c_ + t_)])
        return None

    def disj(e):
        """atoms whose disjunction is e, or None"""
        if isinstance(e, ast.BoolOp) and isinstance(e.op, ast.Or):
            out = []
            for v in e.values:
                d_ = disj(v)
                if d_ is None:
                    return None
                out += d_
            return out
        if isinstance(e, ast.UnaryOp) and isinstance(e.op, ast.Not):
            c_ = conj(e.operand)
            return None if c_ is None else [(NEGATE[o], b) for o, b in c_]
        if isinstance(e, ast.Compare) and len(e.ops) == 1:
            r_ = link(e.left, e.ops[0], e.comparators[0])
            if isinstance(r_, tuple):
                return r_[1] if r_[0] == 'or' else None
            return r_
        return None

    def conj(e):
        if isinstance(e, ast.BoolOp) and isinstance(e.op, ast.And):
            out = []
            for v in e.values:
                c_ = conj(v)
                if c_ is None:
                    return None
                out += c_
            return out
        if isinstance(e, ast.UnaryOp) and isinstance(e.op, ast.Not):
            d_ = disj(e.operand)
            return None if d_ is None else [(NEGATE[o], b) for o, b in d_]
        if isinstance(e, ast.Compare):
            out = []
            left = e.left
            for op, right in zip(e.ops, e.comparators):
                r_ = link(left, op, right)
                if r_ is None:
                    return None
                if isinstance(r_, tuple):
                    if r_[0] != 'and':
                        return None
                    r_ = r_[1]
                out += r_
                left = right
            return out
        return None
    atoms = disj(t)
    if atoms is not None and len(atoms) == 2:
        for o, bnd in atoms:
            if o in (ast.Lt, ast.LtE):
                lo = bnd
            else:
                hi = bnd
            if o in (ast.LtE, ast.GtE):
                strict = False
    if lo is None or hi is None:
        rep.fail('R-JITTER', f.module.rel, sym, 'shape', 'the test is not `gap < LOW or gap > HIGH` (got `%s`)' % ast.unparse(t)[:80], the_if.lineno)
        return
    P = alg.RatFun.sym('period') * alg.RatFun.sym('U[P]') / alg.RatFun.sym('U[D]')
    one = alg.RatFun.const(1)
    tol = alg.RatFun.sym('tol')
    if lo.same(P * (one - tol)) and hi.same(P * (one + tol)):
        rep.ok('R-DIM', f.module.rel, sym, 'bounds', 'gap compared with P(1-tol) and P(1+tol), P = sampling_period * U[period unit] / U[default unit]', the_if.lineno)
    else:
        Praw = alg.RatFun.sym('period')
        if lo.same(Praw * (one - tol)) and hi.same(Praw * (one + tol)):
            msg = ('the gap (in the unit of the time-stamps) is compared with the raw sampling-period number: the period unit and the '
                   'default unit are ignored (period 500 ms, unit s: every 0.5 s gap counts as a violation)')
        else:
            msg = 'low bound is %r and high bound is %r; required P*(1-tol) and P*(1+tol) with P = period*U[period unit]/U[default unit]' % (lo, hi)
        rep.fail('R-DIM', f.module.rel, sym, 'bounds', msg, the_if.lineno)
    if strict:
        rep.ok('R-JITTER', f.module.rel, sym, 'strict', 'gaps exactly on the tolerance border are inside', the_if.lineno)
    else:
        rep.fail('R-JITTER', f.module.rel, sym, 'strict', 'a gap equal to P(1-tol) or P(1+tol) lies inside the tolerated interval but is counted', the_if.lineno)
    # +1 in the true branch, nothing in the else branch
    incs = [s for s in the_if.body if isinstance(s, (ast.Assign, ast.AugAssign))]
    ok_inc = False
    for s in incs:
        src = ast.unparse(s).replace(' ', '')
        if src in ('self.sampling_violation_counter=self.sampling_violation_counter+1', 'self.sampling_violation_counter+=1',
                   'self.sampling_violation_counter=1+self.sampling_violation_counter'):
            ok_inc = True
    if ok_inc and len(the_if.body) == 1 and not the_if.orelse:
        rep.ok('R-JITTER', f.module.rel, sym, 'increment', 'counter + 1 exactly when the gap is outside', the_if.lineno)
    else:
        rep.fail('R-JITTER', f.module.rel, sym, 'increment', 'the counter is not incremented by exactly one in the out-of-tolerance branch only', the_if.lineno)


def online_gap(ix, rep, mon):
    f = ix.resolve_method(mon.cls, 'update')
    rep.analysed(f)
    rep.unit(f.module.rel)
    tparam = f.node.args.args[1].arg
    calls = _counter_call(f.node)
    sym = f.qual
    if len(calls) != 1:
        rep.fail('R-GAPLOOP', f.module.rel, sym, 'online:one-check', 'update() checks the gap %d times' % len(calls), f.node.lineno)
        return
    c = calls[0]
    # guarded by update_counter > 0 (first sample has no gap)
    guard = None
    for st in f.node.body:
        if isinstance(st, ast.If) and any(x is c for x in ast.walk(st)):
            guard = st
    gs = ast.unparse(guard.test).replace(' ', '') if guard is not None else ''
    if guard is not None and guard in f.node.body and gs in ('self.update_counter>0', 'self.update_counter>=1', 'self.update_counter!=0', '0<self.update_counter'):
        rep.ok('R-GAPLOOP', f.module.rel, sym, 'online:first-sample', 'no gap is checked for the first update', guard.lineno)
    else:
        rep.fail('R-GAPLOOP', f.module.rel, sym, 'online:first-sample', 'the gap check is not guarded by `update_counter > 0` at the top level of update()', c.lineno)
    # argument = (timestamp - previous_time) [* normalize]
    defs = {}
    for st in ast.walk(f.node):
        if isinstance(st, ast.Assign) and isinstance(st.targets[0], ast.Name):
            defs[st.targets[0].id] = st.value
    arg = c.args[0]
    if isinstance(arg, ast.Name) and arg.id in defs:
        arg = defs[arg.id]
    s = ast.unparse(arg).replace(' ', '')
    norm1 = _normalize_is_one(ix, mon.cls, rep, f)
    forms = ['%s-self.previous_time' % tparam, '(%s-self.previous_time)' % tparam]
    if norm1:
        forms += ['(%s-self.previous_time)*self.normalize' % tparam, 'self.normalize*(%s-self.previous_time)' % tparam]
    if s in forms:
        rep.ok('R-GAPLOOP', f.module.rel, sym, 'online:gap', 'gap = timestamp - previous_time', c.lineno)
    else:
        rep.fail('R-GAPLOOP', f.module.rel, sym, 'online:gap', 'the value checked is `%s`, not timestamp - previous_time' % s, c.lineno)
    # previous_time / update_counter updated on every normal path, after the check
    cfg = flow.CFG(f.node)
    dom_ = cfg.dominators()
    for attr, want in (('previous_time', tparam), ('update_counter', None)):
        nodes = [n for n in cfg.nodes() if isinstance(cfg.stmt[n], ast.Assign) and E.self_loc(cfg.stmt[n].targets[0]) == attr]
        aug = [n for n in cfg.nodes() if isinstance(cfg.stmt[n], ast.AugAssign) and E.self_loc(cfg.stmt[n].target) == attr]

        def stored(n):
            st = cfg.stmt[n]
            if isinstance(st, ast.AugAssign):
                # self.c += 1  is  self.c = self.c + 1
                return ast.unparse(ast.BinOp(left=st.target, op=st.op, right=st.value))
            return ast.unparse(st.value)
        nodes = nodes + aug
        blocked = set(nodes)
        seen = set()
        stack = [cfg.entry]
        while stack:
            n = stack.pop()
            if n in seen or n in blocked:
                continue
            seen.add(n)
            stack.extend(cfg.succ[n])
        okv = True
        if attr == 'previous_time':
            okv = all(stored(n) == want for n in nodes)
        else:
            okv = all(stored(n).replace(' ', '') in ('self.update_counter+1', '1+self.update_counter') for n in nodes)
        # "after the check": the statement that holds the check dominates the store and is not the store itself (positions in the text are
        # meaningless once a helper has been inlined: every inlined statement carries the line of the call)
        chk_stmt = guard if guard is not None else next((cfg.stmt[n] for n in cfg.nodes() if cfg.stmt[n] is not None and any(x is c for x in ast.walk(cfg.stmt[n]))), None)
        chk = cfg.node(chk_stmt) if chk_stmt is not None else None
        if chk is not None:
            after = all(chk in dom_[n] and n != chk for n in nodes)
        else:
            after = all(cfg.stmt[n].lineno > c.lineno for n in nodes)
        if nodes and cfg.exit not in seen and okv and after:
            rep.ok('R-GAPLOOP', f.module.rel, sym, 'online:%s' % attr, 'updated on every normal path after the check', cfg.stmt[nodes[0]].lineno)
        else:
            rep.fail('R-GAPLOOP', f.module.rel, sym, 'online:%s' % attr, 'self.%s is not updated (to %s) on every normal path after the gap check'
                     % (attr, want or 'update_counter + 1'), f.node.lineno)
    # the time-stamp reaches nothing but the gap and previous_time
    bad = []
    for call in ast.walk(f.node):
        if isinstance(call, ast.Call) and call is not c and any(isinstance(n, ast.Name) and n.id == tparam for a in call.args for n in ast.walk(a)):
            bad.append(call)
    if bad:
        rep.fail('R-TAINT', f.module.rel, sym, 'online:timestamp', 'the time-stamp flows into `%s`' % ast.unparse(bad[0])[:60], bad[0].lineno)
    else:
        rep.ok('R-TAINT', f.module.rel, sym, 'online:timestamp', 'the time-stamp reaches only the gap check and previous_time', f.node.lineno)


def offline_gap(ix, rep, mon):
    f = ix.resolve_method(mon.cls, 'evaluate')
    rep.analysed(f)
    rep.unit(f.module.rel)
    sym = f.qual
    from sa import norm as _norm
    fnode = _norm.while_to_for(f.node)        # a counting while loop is the range loop it spells out
    calls = _counter_call(fnode)
    if len(calls) != 1:
        rep.fail('R-GAPLOOP', f.module.rel, sym, 'offline:one-check', 'evaluate() has %d gap checks' % len(calls), f.node.lineno)
        return
    c = calls[0]
    loops = flow.enclosing_loops(fnode)
    st = None
    for s in ast.walk(fnode):
        if isinstance(s, ast.stmt) and any(x is c for x in ast.walk(s)) and id(s) in loops and not isinstance(s, (ast.For, ast.While, ast.If)):
            st = s
    encl = loops.get(id(st), []) if st is not None else []
    if not encl:
        rep.fail('R-GAPLOOP', f.module.rel, sym, 'offline:in-loop',
                 'update_sampling_violation_counter() is called outside the loop over consecutive time-stamps: only one gap is '
                 'checked (and on a one-sample trace its argument is unbound)', c.lineno)
        return
    loop = encl[-1]
    # recognise the loop forms over consecutive pairs of X
    it = ast.unparse(loop.iter).replace(' ', '')
    tgt = ast.unparse(loop.target).replace(' ', '')
    defs = {}
    for s in ast.walk(loop):
        if isinstance(s, ast.Assign) and isinstance(s.targets[0], ast.Name):
            defs[s.targets[0].id] = s.value
    arg = c.args[0]
    if isinstance(arg, ast.Name) and arg.id in defs:
        arg = defs[arg.id]
    a = ast.unparse(arg).replace(' ', '')
    norm1 = _normalize_is_one(ix, mon.cls, rep, f)
    if norm1:
        a = a.replace('*self.normalize', '').replace('self.normalize*', '')
    while a.startswith('(') and a.endswith(')'):
        a = a[1:-1]
    import re
    ok = False
    X = None
    why = ''
    # the time column and the names that hold its length
    dparam = fnode.args.args[1].arg
    tcol = None
    lens = {}
    for s_ in fnode.body:
        if isinstance(s_, ast.Assign) and isinstance(s_.targets[0], ast.Name):
            v = ast.unparse(s_.value).replace(' ', '').replace('"', "'")
            if v == "%s['time']" % dparam:
                tcol = s_.targets[0].id
    for s_ in fnode.body:
        if isinstance(s_, ast.Assign) and isinstance(s_.targets[0], ast.Name):
            v = ast.unparse(s_.value).replace(' ', '').replace('"', "'")
            if v in ("len(%s['time'])" % dparam, 'len(%s)' % tcol):
                lens[s_.targets[0].id] = True

    _depth = [0]

    def affine(e):
        """expression -> (coefficient of n, constant) or None; n = number of samples"""
        if isinstance(e, ast.Constant) and isinstance(e.value, int):
            return (0, e.value)
        if isinstance(e, ast.Name) and e.id in lens:
            return (1, 0)
        if isinstance(e, ast.Name) and _depth[0] < 4:
            # a local bound once to an affine expression of the length (`last = len(ts) - 1`)
            ds = [q.value for q in fnode.body if isinstance(q, ast.Assign) and len(q.targets) == 1 and isinstance(q.targets[0], ast.Name) and q.targets[0].id == e.id]
            if len(ds) == 1:
                _depth[0] += 1
                try:
                    return affine(ds[0])
                finally:
                    _depth[0] -= 1
        if isinstance(e, ast.Call) and isinstance(e.func, ast.Name) and e.func.id == 'len' and len(e.args) == 1:
            a = ast.unparse(e.args[0]).replace(' ', '').replace('"', "'")
            if a in (tcol, "%s['time']" % dparam):
                return (1, 0)
            return None
        if isinstance(e, ast.BinOp) and isinstance(e.op, (ast.Add, ast.Sub)):
            l, r = affine(e.left), affine(e.right)
            if l is None or r is None:
                return None
            sg = 1 if isinstance(e.op, ast.Add) else -1
            return (l[0] + sg * r[0], l[1] + sg * r[1])
        return None

    def index_offset(e, var):
        """X[i+c] -> (X, c)"""
        if isinstance(e, ast.Subscript) and isinstance(e.value, ast.Name):
            sl = e.slice
            if isinstance(sl, ast.Name) and sl.id == var:
                return e.value.id, 0
            if isinstance(sl, ast.BinOp) and isinstance(sl.op, (ast.Add, ast.Sub)) and isinstance(sl.left, ast.Name) and sl.left.id == var \
                    and isinstance(sl.right, ast.Constant) and isinstance(sl.right.value, int):
                return e.value.id, sl.right.value if isinstance(sl.op, ast.Add) else -sl.right.value
        return None
    argn = c.args[0]
    if isinstance(argn, ast.Name) and argn.id in defs:
        argn = defs[argn.id]
    # strip `* self.normalize`
    if norm1 and isinstance(argn, ast.BinOp) and isinstance(argn.op, ast.Mult):
        if ast.unparse(argn.right) == 'self.normalize':
            argn = argn.left
        elif ast.unparse(argn.left) == 'self.normalize':
            argn = argn.right
    if isinstance(loop.iter, ast.Call) and isinstance(loop.iter.func, ast.Name) and loop.iter.func.id == 'range' and isinstance(loop.target, ast.Name) \
            and len(loop.iter.args) in (1, 2):
        ra = loop.iter.args
        lo = (0, 0) if len(ra) == 1 else affine(ra[0])
        hi = affine(ra[-1])
        if isinstance(argn, ast.BinOp) and isinstance(argn.op, ast.Sub):
            a1, a2 = index_offset(argn.left, loop.target.id), index_offset(argn.right, loop.target.id)
        else:
            a1 = a2 = None
        if lo is None or hi is None or a1 is None or a2 is None or a1[0] != a2[0]:
            raise AnalysisError('%s: gap loop `%s` / `%s` is not in an interpreted form' % (f.where, it, a))
        X = a1[0]
        c1, c2 = a1[1], a2[1]
        first = (lo[0], lo[1] + c2)       # index of the earlier stamp of the first checked pair: must be 0
        last = (hi[0], hi[1] + c1)        # index after the later stamp of the last pair: must be n
        if c1 - c2 != 1:
            why = 'the loop subtracts %s[i%+d] from %s[i%+d]: not a pair of consecutive time-stamps' % (X, c2, X, c1)
        elif first != (0, 0):
            why = 'the first gap checked starts at index %s, not 0: %s' % (_aff(first), 'the first gap is skipped' if first[0] == 0 and first[1] > 0 else 'index out of range')
        elif last != (1, 0):
            why = 'the last gap checked ends at index %s-1, not n-1 (n samples): %s' % (_aff(last), 'the final gap(s) are never checked' if (last[0] == 1 and last[1] < 0) else 'index out of range')
        else:
            ok = True
    else:
        m = re.match(r'^zip\((\w+)(?:\[(\d*):(-1)?\])?,(\w+)\[(\d+):\]\)$', it)
        if m and m.group(1) == m.group(4) and isinstance(loop.target, ast.Tuple) and len(loop.target.elts) == 2:
            # zip(X[a:], X[b:]) pairs X[a+k] with X[b+k]; consecutive pairs from the start: a = 0, b = 1
            X = m.group(1)
            a0, b0 = int(m.group(2) or 0), int(m.group(5))
            p_, q_ = [ast.unparse(e) for e in loop.target.elts]
            if b0 - a0 != 1:
                why = 'the loop pairs %s[k%+d] with %s[k%+d]: not consecutive time-stamps' % (X, a0, X, b0)
            elif a0 != 0:
                why = 'the first gap checked starts at index %d, not 0: the first gap%s skipped' % (a0, ' is' if a0 == 1 else 's are')
            elif a != '%s-%s' % (q_, p_):
                why = 'the loop computes `%s`, not later minus earlier' % a
            else:
                ok = True
    if X is None and isinstance(loop.target, ast.Name) and isinstance(argn, ast.BinOp) and isinstance(argn.op, ast.Sub) and isinstance(argn.left, ast.Name) \
            and argn.left.id == loop.target.id and isinstance(argn.right, ast.Attribute) and isinstance(argn.right.value, ast.Name) and argn.right.value.id == 'self':
        # `for t in ts: if <seen one>: check(t - self.prev); self.prev = t`: the earlier stamp is carried in an attribute.  Within one data set that is
        # every consecutive pair -- provided the attribute (and the counter that says "seen one") start afresh in this evaluate(): otherwise the
        # first time-stamp of this data set is measured against the last one of the previous evaluation
        prev_attr = argn.right.attr
        updated = any(isinstance(q, ast.Assign) and any(isinstance(t_, ast.Attribute) and t_.attr == prev_attr for t_ in q.targets) and isinstance(q.value, ast.Name)
                      and q.value.id == loop.target.id for q in ast.walk(loop))
        guard_attrs = set()
        for q in ast.walk(loop):
            if isinstance(q, ast.If) and any(c is x for x in ast.walk(q)):
                guard_attrs |= {x.attr for x in ast.walk(q.test) if isinstance(x, ast.Attribute) and isinstance(x.value, ast.Name) and x.value.id == 'self'}
        before = []
        for s_ in fnode.body:
            if s_ is loop:
                break
            before.append(s_)
        reinit = {t_.attr for s_ in before if isinstance(s_, ast.Assign) for t_ in s_.targets if isinstance(t_, ast.Attribute) and isinstance(t_.value, ast.Name) and t_.value.id == 'self'}
        carried = sorted(a_ for a_ in (guard_attrs | {prev_attr}) if a_ not in reinit)
        if not updated:
            rep.fail('R-GAPLOOP', f.module.rel, sym, 'offline:in-loop', 'the earlier time-stamp `self.%s` is not advanced to the current one in the loop' % prev_attr, c.lineno)
        elif carried:
            rep.fail('R-GAPLOOP', f.module.rel, sym, 'offline:in-loop', 'the gaps are measured against `self.%s`, carried in the interpreter, and evaluate() does not start %s afresh: the first '
                     'time-stamp of a data set is compared with the last one of the previous evaluate() -- two perfectly sampled data sets [0,1,2,3], [0,1,2,3] count one violation'
                     % (prev_attr, ', '.join('self.' + a_ for a_ in carried)), c.lineno)
        else:
            rep.ok('R-GAPLOOP', f.module.rel, sym, 'offline:in-loop', 'one check per consecutive pair, the earlier stamp carried in self.%s and started afresh per data set' % prev_attr, c.lineno)
        return
    if X is None:
        raise AnalysisError('%s: loop over `%s` is not one of the recognised consecutive-pair idioms' % (f.where, it))
    # X is the time column
    tdef = None
    for s in fnode.body:
        if isinstance(s, ast.Assign) and isinstance(s.targets[0], ast.Name) and s.targets[0].id == X:
            tdef = ast.unparse(s.value).replace(' ', '').replace('"', "'")
    dparam = fnode.args.args[1].arg
    is_time = tdef == "%s['time']" % dparam
    if ok and is_time:
        rep.ok('R-GAPLOOP', f.module.rel, sym, 'offline:in-loop', 'one check per consecutive pair of time-stamps (n-1 gaps for n samples; none for one sample)', c.lineno)
    else:
        rep.fail('R-GAPLOOP', f.module.rel, sym, 'offline:in-loop', 'the loop does not check every consecutive pair of the time column: %s'
                 % (why or 'iter `%s`, value `%s`, sequence %s' % (it, a, tdef)), c.lineno)
    # ... for every data set: the loop is on every path to a normal return (a shortcut that skips it for "uniform" traces decides uniformity
    # by something weaker than looking at each gap)
    cfg = flow.CFG(fnode)
    dom = cfg.dominators()
    ln = [n for n in cfg.nodes() if cfg.stmt[n] is loop]
    rets = [n for n in cfg.reachable() if n == cfg.exit or isinstance(cfg.stmt[n], ast.Return)]
    # a guard that only asks how many samples there are skips the loop exactly when it would not iterate
    def _length_guard(test):
        names = {x.id for x in ast.walk(test) if isinstance(x, ast.Name)}
        calls = [x for x in ast.walk(test) if isinstance(x, ast.Call)]
        only_len = all(isinstance(c_.func, ast.Name) and c_.func.id == 'len' for c_ in calls)
        return only_len and names <= ({X, 'len', dparam} | set(lens)) and not any(isinstance(x, ast.Subscript) and not (isinstance(x.slice, ast.Constant) and x.slice.value == 'time') for x in ast.walk(test))
    guards_ = [x for x in ast.walk(fnode) if isinstance(x, ast.If) and any(y is loop for y in x.body)]
    harmless = bool(guards_) and all(_length_guard(g_.test) and not g_.orelse for g_ in guards_) and all(g_ in fnode.body for g_ in guards_)
    if ln and (all(ln[0] in dom[r] for r in rets if r in dom) or harmless):
        rep.ok('R-GAPLOOP', f.module.rel, sym, 'offline:every-trace', 'the gap loop lies on every path to a normal return', loop.lineno)
    else:
        guard = [x for x in ast.walk(fnode) if isinstance(x, ast.If) and any(y is loop for y in ast.walk(x))]
        rep.fail('R-GAPLOOP', f.module.rel, sym, 'offline:every-trace', 'the gap loop is skipped on some paths%s: for those data sets no gap is compared with the tolerance and the '
                 'counter stays where it was' % (' (under `if %s`)' % ast.unparse(guard[0].test)[:60] if guard else ''), loop.lineno)
    unb, _ = flow.possibly_unbound(fnode)
    if unb:
        for nm, s in unb:
            rep.fail('R-UNBOUND', f.module.rel, sym, 'offline:%s' % nm, 'local `%s` may be unbound (one-sample trace)' % nm, s.lineno)
    else:
        rep.ok('R-UNBOUND', f.module.rel, sym, 'offline:locals', 'no local can be unbound on a one-sample trace', f.node.lineno)


NUMERIC_SETTINGS = ('tolerance', 'sampling_tolerance', 'previous_time', 'timestamp')   # quantities for which 0 is an ordinary value


def settings_truthiness(ix, rep, classes):
    """the property quantifies over tolerances in [0,1] and over time-stamps starting anywhere: 0 is an ordinary tolerance, 0.0 an ordinary
    time-stamp.  A setting or a time quantity used for its truth value (`tol or DEFAULT`, `if not previous_time`) treats that value as
    "not given".  Checked in every method on the sampling path of the interpreters and of the specification classes."""
    from sa.rules.truthy import _truth_uses
    n = 0
    seen = set()
    for cls in classes:
        for k in ix.mro(cls):
            for mname, f in sorted(getattr(k, 'methods', {}).items()):
                if id(f) in seen:
                    continue
                src = ast.unparse(f.node)
                if not ('sampling' in mname or 'sampling' in src or mname in ('update', 'evaluate', 'reset')):
                    continue
                seen.add(id(f))
                numeric = {a.arg for a in f.node.args.args if a.arg in NUMERIC_SETTINGS}
                bad = None
                for e in _truth_uses(f.node):
                    if isinstance(e, ast.Name) and e.id in numeric:
                        bad = e
                    elif isinstance(e, ast.Attribute) and isinstance(e.value, ast.Name) and e.value.id == 'self' and e.attr in NUMERIC_SETTINGS:
                        bad = e
                n += 1
                if bad is not None:
                    rep.fail('R-TRUTHY', f.module.rel, f.qual, 'setting:%s' % ast.unparse(bad), '`%s` is used for its truth value: the legal value 0 (tolerance 0 = every gap must be '
                             'exactly one period; time-stamp 0.0) is treated as "not given" and silently replaced or skipped' % ast.unparse(bad), bad.lineno)
                else:
                    rep.ok('R-TRUTHY', f.module.rel, f.qual, 'settings', 'no sampling setting or time quantity is tested by truthiness', f.node.lineno)
    return n


def check_timestamp_forwarding(ix, rep):
    """the time-stamp the user hands to spec.update() is the number the gap is computed from: between `args[0]` and the first argument of the
    interpreter's update() there is no conversion.  `float(t)` is exact for small numbers and silently rounds integer time-stamps above
    2**53 (epoch-based nanoseconds are ~1.7e18: 256 ns steps), so a regular 1 us grid shows gaps of 768 and 1280 ns."""
    cls = ix.find_class('rtamt.spec.abstract_specification', 'AbstractOnlineSpecification')
    f = cls.methods.get('update') if cls is not None else None
    if f is None:
        raise AnalysisError('AbstractOnlineSpecification.update vanished')
    rep.analysed(f)
    n = 0
    for c in ast.walk(f.node):
        if isinstance(c, ast.Call) and isinstance(c.func, ast.Attribute) and c.func.attr == 'update' and ast.unparse(c.func.value) == 'self.online_interpreter' and len(c.args) == 2:
            n += 1
            e = c.args[0]
            chain = [ast.unparse(e)]
            for _ in range(5):
                if isinstance(e, ast.Name):
                    ds = [st.value for st in ast.walk(f.node) if isinstance(st, ast.Assign) and len(st.targets) == 1 and isinstance(st.targets[0], ast.Name) and st.targets[0].id == e.id]
                    # a, b = x, y : the component bound to the name
                    for st in ast.walk(f.node):
                        if isinstance(st, ast.Assign) and len(st.targets) == 1 and isinstance(st.targets[0], ast.Tuple) and isinstance(st.value, ast.Tuple) \
                                and len(st.targets[0].elts) == len(st.value.elts):
                            for t_, v_ in zip(st.targets[0].elts, st.value.elts):
                                if isinstance(t_, ast.Name) and t_.id == e.id:
                                    ds.append(v_)
                    if len(ds) != 1:
                        break
                    e = ds[0]
                    chain.append(ast.unparse(e))
                else:
                    break
            verbatim = isinstance(e, ast.Subscript) and ast.unparse(e.value) == 'args' and isinstance(e.slice, ast.Constant) and e.slice.value == 0
            if verbatim:
                rep.ok('R-JITTER', f.module.rel, f.qual, 'timestamp:verbatim', 'update(args[0], ...) reaches the interpreter unconverted', c.lineno)
            else:
                rep.fail('R-JITTER', f.module.rel, f.qual, 'timestamp:verbatim', 'the time-stamp handed to the interpreter is `%s`, not the caller\'s args[0]: a conversion on entry (float() '
                         'rounds integers above 2**53, int() truncates) changes the gaps the counter sees for large or fractional time-stamps' % ' <- '.join(chain), c.lineno)
    return n


def _aff(p):
    return ('n' if p[0] == 1 else '%d*n' % p[0] if p[0] else '') + ('%+d' % p[1] if p[1] or not p[0] else '')



def check_counter_writers(ix, rep):
    """who may write the counter: the interpreters count (`+ 1` in the out-of-tolerance arm, restart at 0 in constructor / reset / setter); nothing
    in rtamt/spec, rtamt/syntax or anywhere else assigns `<x>.sampling_violation_counter` -- a wrapper that puts an earlier reading back ("these
    gaps were counted before") makes the counter miss the gaps of data it never saw"""
    n = 0
    for m in sorted(ix.modules.values(), key=lambda m_: m_.rel):
        if ix.unimportable(m):
            continue
        n += 1
        owner_ok = m.rel.startswith('rtamt/semantics/')
        for x in ast.walk(m.tree):
            tg = []
            if isinstance(x, ast.Assign):
                tg = x.targets
            elif isinstance(x, ast.AugAssign):
                tg = [x.target]
            elif isinstance(x, ast.Call) and isinstance(x.func, ast.Name) and x.func.id == 'setattr' and len(x.args) >= 2 and isinstance(x.args[1], ast.Constant) \
                    and 'sampling_violation_counter' in str(x.args[1].value):
                tg = [ast.Attribute(value=x.args[0], attr='sampling_violation_counter', ctx=ast.Store())]
            for t in tg:
                if isinstance(t, ast.Attribute) and 'sampling_violation_counter' in t.attr:
                    recv = ast.unparse(t.value)
                    if owner_ok and recv == 'self':
                        continue
                    rep.fail('R-OWN', m.rel, m.name, 'counter-writer:%s' % recv, '`%s.%s` is assigned outside the interpreter that counts: the counter no longer is the number of bad gaps '
                             'among the time-stamps supplied' % (recv, t.attr), getattr(x, 'lineno', 0))
    rep.ok('R-OWN', 'rtamt', 'package', 'counter-writers', 'only the interpreters assign their own sampling_violation_counter', 0)
    return n

def check(ix, rep):
    mons = {m.kind: m for m in M.standard_monitors(ix)}
    on, off = mons['discrete-online'], mons['discrete-offline']
    comparison_shape(ix, rep, on.cls)
    online_gap(ix, rep, on)
    offline_gap(ix, rep, off)
    pure.time_taint_offline(ix, rep, off)
    # period, unit and tolerance set on the specification reach both interpreters
    from sa.rules import units
    nf = units.check_forwarding_calls(ix, rep, lambda name: 'sampling' in name)
    rep.floor('forwarding calls of the sampling settings', nf, 2)
    spec = ix.find_class('rtamt.spec.abstract_specification', 'AbstractSpecification')
    nt = settings_truthiness(ix, rep, [on.cls, off.cls, spec])
    rep.floor('methods on the sampling path checked for truthiness of settings', nt, 8)
    nr = units.check_forwarding_reach(ix, rep)
    rep.floor('interpreters a setting has to reach', nr, 2)
    nts = check_timestamp_forwarding(ix, rep)
    rep.floor('hand-overs of the time-stamp from the specification to the interpreter', nts, 1)
    ng = units.check_counted_getters(ix, rep)
    rep.floor('interpreters a counted quantity is read from', ng, 2)
    rep.floor('modules scanned for writers of the counter', check_counter_writers(ix, rep), 20)
    # reset restarts the counter (shared with C10)
    rs = [f for f in (ix.resolve_method(on.cls, 'reset'),) if f]
    # the assignment of 0 may sit in reset() itself or in a method it calls (a helper, super().reset(), a base-class constructor)
    zeroed = False
    if rs:
        ef_ = E.transitive_effects(ix, on.cls, 'reset')
        for w_ in ef_.writes.get('sampling_violation_counter', []):
            par = getattr(w_, 'value', None)
            zeroed = True
        # the stored value: look the assignments up in every function the reset chain reaches
        zeroed = False
        chain = [rs[0]] + [g for k in ix.mro(on.cls) if hasattr(k, 'methods') for g in k.methods.values()]
        reached = set()

        def _reach(fn, depth=0):
            if id(fn) in reached or depth > 5:
                return
            reached.add(id(fn))
            for c_ in ast.walk(fn.node):
                if isinstance(c_, ast.Call) and isinstance(c_.func, ast.Attribute):
                    recv = c_.func.value
                    tgt = None
                    if isinstance(recv, ast.Name) and recv.id == 'self':
                        tgt = ix.resolve_method(on.cls, c_.func.attr)
                    elif isinstance(recv, ast.Call) and isinstance(recv.func, ast.Name) and recv.func.id == 'super':
                        mro = [k for k in ix.mro(on.cls) if hasattr(k, 'methods')]
                        if fn.owner in mro:
                            for k in mro[mro.index(fn.owner) + 1:]:
                                if c_.func.attr in k.methods:
                                    tgt = k.methods[c_.func.attr]
                                    break
                    elif isinstance(recv, ast.Name) and c_.args and isinstance(c_.args[0], ast.Name) and c_.args[0].id == 'self':
                        ent = ix.resolve_expr(fn.module, recv)
                        if hasattr(ent, 'methods'):
                            tgt = ix.resolve_method(ent, c_.func.attr)
                    if tgt is not None:
                        _reach(tgt, depth + 1)
        _reach(rs[0])
        for g in chain:
            if id(g) in reached:
                srcg = ast.unparse(g.node).replace(' ', '')
                if 'self.sampling_violation_counter=int(0)' in srcg or 'self.sampling_violation_counter=0' in srcg:
                    zeroed = True
    if zeroed:
        rep.ok('R-STATE', rs[0].module.rel, rs[0].qual, 'counter-reset', 'reset() restarts the counter', rs[0].node.lineno)
    else:
        rep.fail('R-STATE', rs[0].module.rel if rs else on.cls.module.rel, rs[0].qual if rs else 'reset', 'counter-reset', 'reset() does not restart the counter')
    rep.floor('rule instances', len(rep.instances), 12)
    # the settings the counter is judged by are this monitor's own: a descriptor stores on the instance, nothing in the interpreter modules is shared
    from sa.rules import round11 as _r11d, globals as _G13
    _r11d.check_descriptors(ix, rep)
    _G13.fixture_selfcheck(rep)
    rep.floor('interpreter modules scanned for shared state', _G13.run_global(ix, rep, prefix='rtamt.semantics.discrete_time_interpreter') + _G13.run_global(ix, rep, prefix='rtamt.semantics.abstract_discrete_time'), 2)
    explanation = (
        'The counting algorithm is decided structurally. Comparison: the test of update_sampling_violation_counter is parsed as '
        '`gap < LOW or gap > HIGH`; LOW and HIGH are evaluated to exact rational functions over the symbols period, tol, U[period unit], '
        'U[default unit] and must equal P(1-tol), P(1+tol) with P = period*U[period unit]/U[default unit] (dimension rule R-DIM); both '
        'comparisons strict; the counter is incremented by exactly one in that branch only. Online: exactly one check per update, guarded by '
        'update_counter > 0, on timestamp - previous_time; previous_time and update_counter are updated on every normal path after it '
        '(CFG must-pass-through). Offline: the single check sits inside a recognised loop over consecutive pairs of the time column and no '
        'local can be unbound for a one-sample trace. Robustness unaffected: the time column / time-stamp never reaches a handler (taint).')
    assumptions = ['time-stamps are expressed in the default unit (README: "spec.unit")', 'self.normalize is the constant 1.0 (checked: constructor value, no other writer)']
    return explanation, assumptions, 'one instance per structural obligation of the counter', {'exhaustive': True}
