"""C11  Evaluation is pure: caller data untouched, repeatable, isolated, deterministic."""
from sa import model as M
from sa.rules import ownrule, pure, globals as G, exh


def check(ix, rep):
    tier_pkg = rep.tier == 'thorough'
    n = ownrule.run(ix, rep, scope='package' if tier_pkg else 'anchored')
    rep.floor('functions in the ownership analysis', n, 250)
    npure = 0
    for m in M.standard_monitors(ix):
        if m.mode == 'offline':
            npure += pure.pure_handlers(ix, rep, m)
    rep.floor('offline handlers checked for state carried between evaluations', npure, 60)
    from sa.rules import memo
    for m in M.standard_monitors(ix):
        if m.mode == 'offline':
            memo.check_offline_memo_renewed(ix, rep, m)
    nrs = pure.check_reflective_state(ix, rep)
    rep.floor('functions checked for reflectively reached object state', nrs, 700)
    nfix = G.fixture_selfcheck(rep)
    rep.floor('constructs of the positive fixture matched', nfix, 6)
    ng = G.run_global(ix, rep)
    ns, sets = G.run_setiter(ix, rep)
    rep.floor('modules scanned for shared state', ng, 200)
    rep.note('set-typed attributes: %s' % sorted(sets))
    explanation = (
        'Sufficient structural conditions, each decided over the source. Caller data untouched: ownership analysis (borrowed / '
        'fresh-outer / fresh abstract values; parameters of evaluate/update/Operation.update, entries of ast.var_object_dict and '
        'ast.results, and every result of self.visit(child) in offline visitors are borrowed; sinks are augmented assignment, item '
        'store/delete and mutator calls; helper functions get mutates/returns summaries to a fixed point). Repeatable: offline handlers '
        'read no attribute that any handler writes unless written earlier in the same call. Isolated: no function in the package writes '
        'module- or class-level mutable state and there is no mutable default argument. Hash-seed independent: no order-sensitive '
        'iteration over a set, no ordering by id()/hash(). The zero-expected rules are validated on every run against a positive fixture.')
    assumptions = ['sufficient condition: a behaviour-preserving mutate-and-restore idiom would be rejected (none exists in the repo)',
                   'state reached through self.__dict__ / vars(self) / setattr / getattr with a computed name is not tracked by the effect analyses -- it is excluded outright (reflective-state clause of R-PURE)']
    return explanation, assumptions, 'one instance per analysed function (ownership), per handler (purity), per module (shared state, set order)', {'exhaustive': True}
