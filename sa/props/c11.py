"""C11  Evaluation is pure: caller data untouched, repeatable, isolated, deterministic."""
from sa import model as M
from sa.rules import ownrule, pure, globals as G, exh


def check(ix, rep):
    from sa.rules import round11 as _r11
    _r11.check_descriptors(ix, rep)
    rep.floor('functions between the data set and the monitor checked for re-ordering', _r11.check_sample_order(ix, rep), 4)
    tier_pkg = rep.tier == 'thorough'
    n = ownrule.run(ix, rep, scope='package' if tier_pkg else 'anchored')
    rep.floor('functions in the ownership analysis', n, 250)
    npure = 0
    for m in M.standard_monitors(ix):
        if m.mode == 'offline':
            npure += pure.pure_handlers(ix, rep, m)
    rep.floor('offline handlers checked for state carried between evaluations', npure, 60)
    from sa.rules import memo
    for m in M.standard_monitors(ix):
        if m.mode == 'offline':
            memo.check_offline_memo_renewed(ix, rep, m)
    # update() writes the result into the object stored for the output variable (`setattr(var_object_dict[out_var], field, rob)`).  That object is
    # the library's own as long as the data entry admits *input* variables only (names in ast.free_vars); a wider guard (ast.vars, no guard) lets
    # a caller's object in under the output variable's name, and the next update writes into it
    import ast as _ast
    nde = 0
    for m in M.standard_monitors(ix):
        if m.mode != 'online':
            continue
        upd = ix.resolve_method(m.cls, 'update')
        de = ix.resolve_method(m.cls, 'set_variable_to_ast_from_dataset')
        if upd is None or de is None:
            continue
        writes_out = any(isinstance(c, _ast.Call) and isinstance(c.func, _ast.Name) and c.func.id == 'setattr' for c in _ast.walk(upd.node))
        if not writes_out:
            continue
        rep.analysed(de)
        parents = {}
        for p_ in _ast.walk(de.node):
            for c_ in _ast.iter_child_nodes(p_):
                parents[id(c_)] = p_
        for st in _ast.walk(de.node):
            if isinstance(st, _ast.Assign) and any(isinstance(t, _ast.Subscript) and _ast.unparse(t.value) == 'self.ast.var_object_dict' for t in st.targets):
                nde += 1
                guarded = False
                q = st
                while id(q) in parents:
                    par = parents[id(q)]
                    if isinstance(par, _ast.If) and any(q is b for b in par.body):
                        t = _ast.unparse(par.test).replace(' ', '')
                        if t.endswith('inself.ast.free_vars') and 'notin' not in t:
                            guarded = True
                    # guard clause: an earlier statement of the same block leaves it for everything that is not an input
                    for fld in ('body', 'orelse'):
                        blk = getattr(par, fld, None)
                        if isinstance(blk, list) and any(q is b for b in blk):
                            for prev in blk[:[i_ for i_, b in enumerate(blk) if q is b][0]]:
                                if isinstance(prev, _ast.If) and not prev.orelse and prev.body and isinstance(prev.body[-1], (_ast.Continue, _ast.Return, _ast.Raise)):
                                    t = _ast.unparse(prev.test).replace(' ', '')
                                    if t.endswith('notinself.ast.free_vars') or (t.startswith('not(') and t.endswith('inself.ast.free_vars)') and 'notin' not in t):
                                        guarded = True
                    q = par
                slot = '%s:data-entry:inputs-only' % m.kind
                if guarded:
                    rep.ok('R-OWN', de.module.rel, de.qual, slot, 'only input variables (ast.free_vars) are stored from the data set', st.lineno)
                else:
                    rep.fail('R-OWN', de.module.rel, de.qual, slot, '`%s` is not restricted to the input variables (`... in self.ast.free_vars`): an entry of the data set under the name of '
                             'the output variable puts the caller\'s object into var_object_dict, and update() then writes the robustness into it with setattr -- the caller\'s data is '
                             'changed' % _ast.unparse(st)[:60], st.lineno)
    rep.floor('stores of the online data entry', nde, 2)
    nrs = pure.check_reflective_state(ix, rep)
    rep.floor('functions checked for reflectively reached object state', nrs, 700)
    nfix = G.fixture_selfcheck(rep)
    rep.floor('constructs of the positive fixture matched', nfix, 6)
    ng = G.run_global(ix, rep)
    ns, sets = G.run_setiter(ix, rep)
    rep.floor('modules scanned for shared state', ng, 200)
    rep.note('set-typed attributes: %s' % sorted(sets))
    explanation = (
        'Sufficient structural conditions, each decided over the source. Caller data untouched: ownership analysis (borrowed / '
        'fresh-outer / fresh abstract values; parameters of evaluate/update/Operation.update, entries of ast.var_object_dict and '
        'ast.results, and every result of self.visit(child) in offline visitors are borrowed; sinks are augmented assignment, item '
        'store/delete and mutator calls; helper functions get mutates/returns summaries to a fixed point). Repeatable: offline handlers '
        'read no attribute that any handler writes unless written earlier in the same call. Isolated: no function in the package writes '
        'module- or class-level mutable state and there is no mutable default argument. Hash-seed independent: no order-sensitive '
        'iteration over a set, no ordering by id()/hash(). The zero-expected rules are validated on every run against a positive fixture.')
    assumptions = ['sufficient condition: a behaviour-preserving mutate-and-restore idiom would be rejected (none exists in the repo)',
                   'state reached through self.__dict__ / vars(self) / setattr / getattr with a computed name is not tracked by the effect analyses -- it is excluded outright (reflective-state clause of R-PURE)']
    return explanation, assumptions, 'one instance per analysed function (ownership), per handler (purity), per module (shared state, set order)', {'exhaustive': True}
