"""C07  Robustness sign and magnitude are sound with respect to Boolean satisfaction (lattice-fragment argument)."""
import ast

from sa.index import AnalysisError, ClassInfo, FuncInfo
from sa import dispatch as D, model as M, opsum as O, norm
from sa.rules import exh, opref, densesum
from sa.props import c01, c02, c04

LATTICE_OPS = ('min', 'max', 'neg', 'x', 'st', 'c')
BOOLEAN_TEMPORAL = ('Neg', 'Conjunction', 'Disjunction', 'Implies', 'Once', 'Historically', 'Since', 'Eventually', 'Always', 'Until',
                    'Rise', 'Fall', 'Previous', 'StrongPrevious', 'Next', 'StrongNext')
EXEMPT = ('Iff', 'Xor')
TIMED = ('TimedOnce', 'TimedHistorically', 'TimedSince', 'TimedAlways', 'TimedEventually', 'TimedUntil', 'TimedPrecedes')


def lattice_only(term):
    """term uses only min / max / neg over operands, the carried state and +-inf"""
    bad = []

    def walk(e):
        if not isinstance(e, tuple) or not e:
            return
        h = e[0]
        if h in ('x', 'st'):
            return
        if h == 'c':
            if e[1] not in ('inf', '-inf'):
                bad.append('constant %s' % e[1])
            return
        if h in ('min', 'max'):
            for a in e[1]:
                walk(a)
            return
        if h == 'neg':
            walk(e[1])
            return
        if h in ('pointwise',):
            walk(e[1])
            return
        if h == 'scan':
            walk(e[2])
            walk(e[3])
            if e[4] != 'out':
                walk(e[4])
            return
        bad.append('operation `%s`' % h)
    walk(term)
    return bad


def predicate_signs(rep, where, sym, label, table, line, on_difference=False):
    """each comparison's robustness is the signed distance agreeing with the Boolean comparison"""
    X0, X1 = opref.X0, opref.X1
    d = O.mk('sub', [X0, X1])
    want = {'GEQ': [O.mk('sub', [X0, X1])], 'GREATER': [O.mk('sub', [X0, X1])], 'LEQ': [O.mk('sub', [X1, X0]), O.neg(d)], 'LESS': [O.mk('sub', [X1, X0]), O.neg(d)],
            'EQ': [O.neg(O.mk('abs', [d])), O.neg(O.mk('abs', [O.mk('sub', [X1, X0])]))], 'NEQ': [O.mk('abs', [d]), O.mk('abs', [O.mk('sub', [X1, X0])])]}
    tab = dict(table[1]) if table and table[0] == 'table' else {}
    for k in sorted(want):
        slot = '%s:predicate:%s' % (label, k)
        if tab.get(k) in want[k]:
            rep.ok('R-SIGN', where, sym, slot, 'robustness %s: positive implies the comparison holds, negative implies it fails' % O.show(tab[k]), line)
        else:
            rep.fail('R-SIGN', where, sym, slot, 'robustness of comparison %s is %s: its sign does not agree with the Boolean comparison (expected %s)'
                     % (k, O.show(tab[k]) if k in tab else 'missing', O.show(want[k][0])), line)


class ValueFlow(object):
    """In an unsummarised handler, robustness values may be compared, copied, negated, passed to min/max -- never added or scaled.
    Discrete time: names are typed by flow as LIST (of robustness values) or SCALAR (one value); `+` on lists is concatenation."""

    def __init__(self, fnode, dense, seed=None):
        self.f = fnode
        self.dense = dense
        self.typer = norm.ValueTyper(fnode) if dense else None
        self.kind = dict(seed or {})   # name / self.attr -> 'list' | 'scalar'
        if not dense:
            if fnode.name in ('update', 'update_final'):
                for p in [a.arg for a in fnode.args.args[1:]]:
                    self.kind[p] = 'scalar'       # an online operation is stepped with one sample per operand
            for _ in range(5):
                for n in ast.walk(fnode):
                    if isinstance(n, ast.Assign) and len(n.targets) == 1:
                        t = n.targets[0]
                        key = t.id if isinstance(t, ast.Name) else (ast.unparse(t) if isinstance(t, ast.Attribute) else None)
                        k = self.kind_of(n.value)
                        if key and k:
                            self._join(key, k)
                    if isinstance(n, ast.AugAssign) and isinstance(n.target, ast.Name):
                        k = self.kind_of(n.value)
                        if k:
                            self._join(n.target.id, k)
                    if isinstance(n, ast.For) and isinstance(n.target, ast.Name) and self.kind_of(n.iter) == 'list':
                        self._join(n.target.id, 'scalar')
                    if isinstance(n, ast.Call) and isinstance(n.func, ast.Attribute) and n.func.attr in ('append', 'appendleft', 'insert') and n.args \
                            and self.kind_of(n.args[-1]):
                        self._join(ast.unparse(n.func.value), 'list')

    def _join(self, key, k):
        if self.kind.get(key) != 'list':
            self.kind[key] = k

    def kind_of(self, e):
        """'list' / 'scalar' if e is derived from operand robustness values, else None"""
        if isinstance(e, ast.Call) and isinstance(e.func, ast.Attribute) and e.func.attr == 'visit':
            return 'list'
        if isinstance(e, ast.Name):
            return self.kind.get(e.id)
        if isinstance(e, ast.Attribute):
            return self.kind.get(ast.unparse(e))
        if isinstance(e, ast.Subscript):
            k = self.kind_of(e.value)
            if k == 'list':
                return 'list' if isinstance(e.slice, ast.Slice) else 'scalar'
            return None
        if isinstance(e, ast.Call) and isinstance(e.func, ast.Name) and e.func.id in ('min', 'max'):
            return 'scalar' if any(self.kind_of(a) for a in e.args) else None
        if isinstance(e, ast.Call) and isinstance(e.func, ast.Name) and e.func.id in ('list', 'reversed', 'tuple') and e.args:
            return self.kind_of(e.args[0])
        if isinstance(e, ast.Call) and isinstance(e.func, ast.Name) and e.func.id in [a.arg for a in self.f.args.args]:
            # a function handed in as a parameter (min / max) applied to values
            return 'scalar' if any(self.kind_of(a) for a in e.args) else None
        if isinstance(e, ast.IfExp):
            l, r = self.kind_of(e.body), self.kind_of(e.orelse)
            return 'list' if 'list' in (l, r) else (l or r)
        if isinstance(e, ast.BinOp) and isinstance(e.op, ast.Add):
            l, r = self.kind_of(e.left), self.kind_of(e.right)
            if 'list' in (l, r):
                return 'list'     # concatenation (padding + operand)
            return 'scalar' if (l or r) else None
        if isinstance(e, ast.BinOp):
            return 'scalar' if (self.kind_of(e.left) == 'scalar' or self.kind_of(e.right) == 'scalar') else None
        if isinstance(e, ast.UnaryOp):
            return self.kind_of(e.operand)
        if isinstance(e, ast.ListComp):
            return 'list' if self.kind_of(e.elt) else None
        if isinstance(e, (ast.List, ast.Tuple)):
            return 'list' if any(self.kind_of(x) for x in e.elts) else None
        return None

    def is_val(self, e):
        if self.dense:
            return self.typer.is_value(e)
        return self.kind_of(e) is not None

    def scalar_val(self, e):
        """a single robustness value (not a list)"""
        if self.dense:
            return self.typer.is_value(e)
        return self.kind_of(e) == 'scalar'

    def violations(self):
        out = []
        for n in ast.walk(self.f):
            if isinstance(n, ast.BinOp) and isinstance(n.op, (ast.Add, ast.Sub, ast.Mult, ast.Div, ast.Pow, ast.Mod)):
                if self.scalar_val(n.left) or self.scalar_val(n.right):
                    out.append((n.lineno, 'arithmetic on a robustness value: `%s`' % ast.unparse(n)[:50]))
            if isinstance(n, ast.Call) and isinstance(n.func, (ast.Name, ast.Attribute)):
                nm = n.func.id if isinstance(n.func, ast.Name) else n.func.attr
                if nm in ('abs', 'sqrt', 'exp', 'pow', 'log', 'fabs', 'round') and any(self.scalar_val(a) for a in n.args):
                    out.append((n.lineno, 'non-lattice function on a robustness value: `%s`' % ast.unparse(n)[:50]))
        return out


def check(ix, rep):
    mons = {m.kind: m for m in M.standard_monitors(ix)}
    q = c02._Quiet(rep)
    sums = {}
    # discrete offline
    off = mons['discrete-offline']
    sums['discrete-offline'], _ = c01.opsum_offline_discrete(ix, q, off)
    # discrete online
    on = mons['discrete-online']
    s = {}
    opcls = {}
    for ncname, opc in exh.constructed_operations(ix, on).items():
        s[ncname], _p = O.summarize_online_discrete(opc, ix)
        opcls[ncname] = opc
    sums['discrete-online'] = s
    _nex = __import__('sa.rules.truthy', fromlist=['x']).check_exact_comparisons(ix, rep)
    # the sign of the result is the sign of what was fed: a sample of exactly 0 is a sample (data entry of the online monitor)
    from sa.rules import truthy as _truthy
    _de = ix.resolve_method(on.cls, 'set_variable_to_ast_from_dataset')
    if _de is not None:
        rep.analysed(_de)
        _truthy.check_data_entry(ix, rep, _de, 'discrete-online')
    # dense offline
    doff = mons['dense-offline']
    d = D.dispatch_of(ix, doff.cls)
    s = {}
    handlers = {'dense-offline': {}, 'discrete-offline': {}}
    for nc in D.node_classes(ix):
        meth, _ = d.method_for(nc, ix)
        cat, info, f = D.classify(ix, doff.cls, meth) if meth else ('missing', None, None)
        if cat != 'compute':
            continue
        handlers['dense-offline'][nc.name] = f
        if nc.name == 'Predicate':
            s[nc.name], _p = densesum.predicate_table_offline(ix, f)
        elif nc.name not in ('Constant', 'Variable'):
            s[nc.name], _p, _t = densesum.summarize_offline_handler(ix, f)
    sums['dense-offline'] = s
    d0 = D.dispatch_of(ix, off.cls)
    for nc in D.node_classes(ix):
        meth, _ = d0.method_for(nc, ix)
        cat, info, f = D.classify(ix, off.cls, meth) if meth else ('missing', None, None)
        if cat == 'compute':
            handlers['discrete-offline'][nc.name] = f
    # dense online
    don = mons['dense-online']
    s = {}
    dopcls = {}
    for ncname, opc in exh.constructed_operations(ix, don).items():
        dopcls[ncname] = opc
        if ncname in ('Variable',):
            continue
        if ncname == 'Predicate':
            s[ncname] = _dense_online_predicate(ix, opc)
        else:
            s[ncname], _p, _t = densesum.summarize_online_operation(ix, opc)
    sums['dense-online'] = s

    nlat = 0
    unsummarised = []
    for label in sorted(sums):
        where = mons[label].visitor.module.rel
        # (a) predicates
        p = sums[label].get('Predicate')
        if p is None or p[0] != 'pointwise' or p[1][0] != 'table':
            raise AnalysisError('%s: predicate table not summarised (%s)' % (label, p))
        predicate_signs(rep, where, mons[label].visitor.name, label, p[1], None)
        # (b),(c) lattice fragment
        for name in BOOLEAN_TEMPORAL:
            nf = sums[label].get(name)
            if nf is None:
                continue
            slot = '%s:lattice:%s' % (label, name)
            if nf[0] in ('unknown',):
                # not in a summarised idiom: judged by the value-flow rule below instead
                unsummarised.append((label, name))
                rep.undecided('R-LATTICE', where, mons[label].visitor.name, slot, 'not summarised (%s); covered by the value-flow rule' % nf[1][:40])
                continue
            if nf[0] in ('reject',):
                continue
            bad = lattice_only(nf)
            nlat += 1
            if bad:
                rep.fail('R-LATTICE', where, mons[label].visitor.name, slot, '%s is computed with %s: a Boolean/temporal operator must be built from min, max and negation '
                         'only, otherwise sign and perturbation soundness are lost (%s)' % (name, ', '.join(bad), O.show(nf)))
            else:
                rep.ok('R-LATTICE', where, mons[label].visitor.name, slot, O.show(nf))
        nf = sums[label].get('Neg')
        if nf is not None and nf != ('pointwise', O.neg(opref.X0)):
            rep.fail('R-SIGN', where, mons[label].visitor.name, '%s:not' % label, '`not` is %s, not negation' % O.show(nf))
        elif nf is not None:
            rep.ok('R-SIGN', where, mons[label].visitor.name, '%s:not' % label, 'not = negation')
    rep.floor('Boolean/temporal operators shown to lie in the min/max/neg fragment', nlat, 38)
    # (d) value flow in the unsummarised (bounded) operators
    nflow = 0
    targets = []
    for name in TIMED:
        f = handlers['discrete-offline'].get(name)
        if f is not None:
            targets.append(('discrete-offline', name, f, False))
        f = handlers['dense-offline'].get(name)
        if f is not None:
            h = densesum.forwarded_helper(ix, f)
            if h is not None:
                targets.append(('dense-offline', name, h[0], True))
                # helpers called by the helper (since_timed_operation -> once_timed_operation ...)
                for n in ast.walk(h[0].node):
                    if isinstance(n, ast.Call) and isinstance(n.func, ast.Name):
                        ent = ix.resolve_expr(h[0].module, n.func)
                        if isinstance(ent, FuncInfo) and ent.owner is None:
                            targets.append(('dense-offline', name + '/' + ent.name, ent, True))
        for label, table, dense in (('discrete-online', opcls, False), ('dense-online', dopcls, True)):
            c = table.get(name)
            if c is not None and 'update' in c.methods:
                targets.append((label, name, c.methods['update'], dense))
    for label, name in unsummarised:
        if label == 'dense-online' and name in dopcls:
            targets.append((label, name, dopcls[name].methods['update'], True))
        elif label == 'discrete-online' and name in opcls:
            targets.append((label, name, opcls[name].methods['update'], False))
        elif label in handlers and name in handlers[label]:
            targets.append((label, name, handlers[label][name], label.startswith('dense')))
        else:
            raise AnalysisError('%s: %s is neither summarised nor reachable for the value-flow rule' % (label, name))
    seen = set()
    for label, name, f, dense in targets:
        if id(f) in seen:
            continue
        seen.add(id(f))
        rep.analysed(f)
        rep.unit(f.module.rel)
        nflow += 1
        v = ValueFlow(f.node, dense).violations()
        slot = '%s:flow:%s' % (label, name)
        if v:
            for line, msg in v[:3]:
                rep.fail('R-VALUEFLOW', f.module.rel, f.qual, slot, 'bounded operator %s: %s -- robustness values may only be compared, copied, negated or passed to min/max' % (name, msg), line)
        else:
            rep.ok('R-VALUEFLOW', f.module.rel, f.qual, slot, 'robustness values are only compared, copied or passed to min/max', f.node.lineno)
    rep.floor('bounded-operator implementations checked for value flow', nflow, 20)
    # the bounded discrete-time operators select the window the Boolean semantics quantifies over
    from sa.rules import windowrule
    nw1, _ = windowrule.check_offline(ix, rep, mons['discrete-offline'], which=('R-WINDOW',))
    nw2, _ = windowrule.check_online(ix, rep, mons['discrete-online'], which=('R-WINDOW',))
    rep.floor('bounded discrete-time operators whose window was derived', nw1 + nw2, 10)
    from sa.rules import stackstep as SS
    mdense = ix.module('rtamt.semantics.stl.dense_time.offline.ast_visitor')
    nst = 0
    for opn in ('once', 'historically', 'always', 'eventually'):
        kf = mdense.functions.get(opn + '_timed_operation')
        if kf is not None:
            rep.analysed(kf)
            nst += SS.check_function(ix, rep, kf, opn, slot_prefix='dense-offline:')
    rep.floor('abstract states of the dense sliding-window merge step', nst, 72)
    for which in ('since', 'until'):
        kf = mdense.functions.get(which + '_timed_operation')
        if kf is not None:
            rep.analysed(kf)
            SS.check_compose(ix, rep, kf, which)
    # a scan starts from its own initial value: scratch attributes of the dense offline visitor are written before they are read within one
    # visit (an accumulator initialised before the operand is visited starts from what a nested once/historically left there: the sign flips)
    from sa.rules import pure as _pure7, truthy as _tr7
    for m_ in M.standard_monitors(ix):
        if m_.kind == 'dense-offline':
            _pure7.pure_handlers(ix, rep, m_)
    _fs7 = []
    for _m in sorted(ix.modules.values(), key=lambda m__: m__.name):
        if '.dense_time.' in _m.name and 'antlr' not in _m.name:
            _fs7 += list(_m.functions.values()) + [g_ for c_ in _m.classes.values() for g_ in c_.methods.values()]
    rep.floor('dense-time functions that handle robustness values', _tr7.check_dense_values(ix, rep, _fs7, 'dense'), 20)
    explanation = (
        'Lattice-fragment argument. For each of the four monitors the operator summaries show (a) every comparison\'s robustness is the '
        'signed distance whose sign agrees with the Boolean comparison, (b) `not` is negation, (c) every other Boolean and temporal operator '
        'that is summarised is a term over {min, max, neg, +-inf} of its operands and carried state (iff/xor exempt, as in the property). For the '
        'bounded operators, which are not summarised, a value-flow rule shows that robustness values are only compared, copied, negated or '
        'passed to min/max -- never added, scaled or mapped through another function. Hand lemma (DESIGN.md): a term over {min,max,neg} of '
        '1-Lipschitz leaves is 1-Lipschitz and its sign is sound for the Boolean reading of min=and, max=or, neg=not; this gives both sentences '
        'of the property for every nesting depth. R-WINDOW: the index window of each bounded discrete-time operator (offline handler, online ring '
        'buffer) is derived symbolically and equals the window the semantics quantifies over; R-SEGSTEP: the dense-time merge step.')
    assumptions = ['R-WINDOW (discrete time) and R-SEGSTEP (dense time, merge step only) show that the bounded operators quantify over the right window; the dense-time online carry-over is not decided',
                   'hand lemma on the {min,max,neg} lattice fragment']
    return explanation, assumptions, 'one instance per (monitor, comparison), per (monitor, operator) lattice obligation, per bounded implementation', {'exhaustive': True}


def _dense_online_predicate(ix, opc):
    """dense online PredicateOperation.update: loop over self.sub.update(left, right) with the comparison table"""
    f = opc.methods['update']
    sub = None
    init = opc.methods.get('__init__')
    for st in ast.walk(init.node):
        if isinstance(st, ast.Assign) and ast.unparse(st.targets[0]) == 'self.sub' and isinstance(st.value, ast.Call):
            ent = ix.resolve_expr(init.module, st.value.func)
            if isinstance(ent, ClassInfo):
                sub = ent
    if sub is None:
        return ('unknown', 'no difference operation')
    nf, _p, _t = densesum.summarize_online_operation(ix, sub)
    if nf[0] != 'pointwise':
        return ('unknown', 'difference operation not pointwise')
    # operand order of the call self.sub.update(left, right)
    params = [a.arg for a in f.node.args.args[1:3]]
    operands = nf[1]
    for n in ast.walk(f.node):
        if isinstance(n, ast.Call) and ast.unparse(n.func) == 'self.sub.update':
            got = [ast.unparse(a) for a in n.args[:2]]
            if got == params[::-1]:
                operands = densesum.reorder(nf[1], [1, 0])     # the table is applied to right - left
            elif got != params:
                return ('unknown', 'difference computed on %s' % got)
    nf = (nf[0], operands)
    import copy
    fn = copy.deepcopy(f.node)
    fn.body = [s for s in fn.body if not (isinstance(s, ast.Assign) and ast.unparse(s.targets[0]).startswith('self.'))]
    r, _p = O.summarize_dense(fn, operands=nf[1])
    return r
