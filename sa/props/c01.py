"""C01  Discrete-time offline robustness equals the STL quantitative semantics (structural part)."""
import ast

from sa.index import AnalysisError
from sa import dispatch as D, model as M, opsum as O
from sa.rules import exh, opref, ownrule, pure, windowrule

UNDECIDED_TODAY = ('TimedOnce', 'TimedHistorically', 'TimedSince', 'TimedAlways', 'TimedEventually', 'TimedUntil', 'TimedPrecedes')


def opsum_offline_discrete(ix, rep, mon, rule='R-OPSUM'):
    """summaries of every compute handler against the reference table; returns {node name: normal form}"""
    d = D.dispatch_of(ix, mon.cls)
    out = {}
    decided = 0
    for nc in D.node_classes(ix):
        meth, _ = d.method_for(nc, ix)
        if not meth:
            continue
        cat, info, f = D.classify(ix, mon.cls, meth)
        if cat != 'compute':
            continue
        slot = '%s:%s' % (mon.kind, nc.name)
        if nc.name == 'Constant':
            leaf_constant(rep, f, slot, rule)
            continue
        if nc.name == 'Variable':
            leaf_variable(rep, f, slot, rule)
            continue
        nf, partial = O.summarize_offline_discrete(f.node)
        out[nc.name] = nf
        want = opref.DISCRETE.get(nc.name)
        if want is None:
            continue  # bounded operators: decided by the window rule
        if nf[0] == 'unknown':
            rep.error('%s (%s): handler of %s is no longer in a summarised idiom (%s); it was decided on the pinned tree'
                      % (f.where, f.qual, nc.name, nf[1]))
            continue
        decided += 1
        if nf != want:
            rep.fail(rule, f.module.rel, f.qual, slot, 'operator %s: %s  [handler: %s | reference: %s]'
                     % (nc.name, opref.diff(nf, want), opref.describe(nf), opref.describe(want)), f.node.lineno,
                     {'got': opref.describe(nf), 'want': opref.describe(want)})
        else:
            rep.ok(rule, f.module.rel, f.qual, slot, opref.describe(nf), f.node.lineno)
        if partial and nc.name not in opref.PARTIAL:
            rep.fail('R-PARTIAL', f.module.rel, f.qual, slot, 'total operator raises under `%s`' % partial, f.node.lineno)
    return out, decided


def leaf_constant(rep, f, slot, rule):
    """visitConstant returns [node.val] * length (length = args[0])"""
    ok = False
    defs = {}
    for st in f.node.body:
        if isinstance(st, ast.Assign) and isinstance(st.targets[0], ast.Name):
            defs[st.targets[0].id] = ast.unparse(st.value).replace(' ', '')
        if isinstance(st, ast.Return) and st.value is not None:
            v = st.value
            if isinstance(v, ast.BinOp) and isinstance(v.op, ast.Mult):
                l, r = v.left, v.right
                if isinstance(r, ast.List):
                    l, r = r, l
                if isinstance(l, ast.List) and len(l.elts) == 1 and ast.unparse(l.elts[0]) == f.node.args.args[1].arg + '.val':
                    rs = ast.unparse(r).replace(' ', '')
                    rs = defs.get(rs, rs)
                    if rs == 'args[0]':
                        ok = True
            if isinstance(v, ast.ListComp) and ast.unparse(v.elt) == f.node.args.args[1].arg + '.val':
                it = ast.unparse(v.generators[0].iter).replace(' ', '')
                for k, val in defs.items():
                    it = it.replace(k, val)
                if it == 'range(args[0])':
                    ok = True
    if ok:
        rep.ok(rule, f.module.rel, f.qual, slot, 'constant signal [node.val] * length', f.node.lineno)
    else:
        rep.fail(rule, f.module.rel, f.qual, slot, 'constant handler does not return node.val repeated once per sample', f.node.lineno)


def leaf_variable(rep, f, slot, rule):
    """visitVariable returns ast.var_object_dict[node.var] (or the field projected from each element)"""
    node = f.node.args.args[1].arg
    src = None
    for st in ast.walk(f.node):
        if isinstance(st, ast.Subscript) and isinstance(st.ctx, ast.Load) and isinstance(st.value, ast.Attribute) \
                and st.value.attr == 'var_object_dict' and ast.unparse(st.slice) == node + '.var':
            src = st
    if src is None:
        rep.fail(rule, f.module.rel, f.qual, slot, 'variable handler does not read var_object_dict[node.var]', f.node.lineno)
    else:
        rep.ok(rule, f.module.rel, f.qual, slot, 'signal of node.var taken from the data set', f.node.lineno)


def check(ix, rep):
    from sa.rules import round11 as _r11
    rep.floor('integer literal conversions with a base', _r11.check_literal_bases(ix, rep), 2)
    rep.floor('functions between the data set and the monitor checked for re-ordering', _r11.check_sample_order(ix, rep), 4)
    mons = {m.kind: m for m in M.standard_monitors(ix)}
    mon = mons.get('discrete-offline')
    if mon is None:
        raise AnalysisError('discrete-time offline interpreter not found')
    rep.floor('node classes', len(D.node_classes(ix)), 39)
    built = M.parser_builds(ix)
    rep.floor('node classes the parser can build', len(built), 38)
    # 1. no operator is silently ignored
    cells = exh.exh_monitor(ix, rep, mon)
    rep.floor('dispatch cells', cells, 39)
    # 2. operator summaries against the reference table
    sums, decided = opsum_offline_discrete(ix, rep, mon)
    rep.floor('handlers summarised and compared with the reference', decided, 30)
    nw, _w = windowrule.check_offline(ix, rep, mon)
    rep.floor('bounded operators whose window was derived and compared', nw, 6)
    # 2b. the bounds the windows are built from: conversion of [begin, end] to sample counts (shared with C08)
    from sa.rules import units
    units.check_transformer(ix, rep, 'rtamt.semantics.discrete_time_interpreter', 'DiscreteTimeInterpreter', 'discrete')
    # 2c. a robustness value is a number, never a flag
    from sa.rules import truthy
    hs = []
    dd = D.dispatch_of(ix, mon.cls)
    for nc in D.node_classes(ix):
        meth, _ = dd.method_for(nc, ix)
        cat, info, hf = D.classify(ix, mon.cls, meth) if meth else ('missing', None, None)
        if cat == 'compute' and hf not in hs:
            hs.append(hf)
    nt = truthy.check_functions(ix, rep, hs, 'discrete-offline')
    rep.floor('handlers and helpers checked for truth-value use of robustness', nt, 38)
    # 3. compositionality side conditions
    n = pure.pure_handlers(ix, rep, mon)
    rep.floor('handlers checked for purity', n, 38)
    nown = ownrule.run(ix, rep)
    rep.floor('functions in the ownership analysis', nown, 250)
    # the windows are counted in the period the user configured: the setting reaches the offline interpreter of every specification class
    from sa.rules import units as _units
    nr = _units.check_forwarding_reach(ix, rep)
    rep.floor('interpreters a sampling setting has to reach', nr, 2)
    # a conversion that remembers its answers must forget them when the period changes (R-CACHE; no memo on today's tree)
    from sa.rules import memo
    if not memo.self_test():
        raise AnalysisError('R-CACHE self-test: the memo idiom is not recognised')
    memo.check_converters(ix, rep)
    # the samples computed with are the samples supplied (no conversion of the elements on entry)
    from sa.rules import truthy as _te
    _ne = 0
    for _m in M.standard_monitors(ix):
        if _m.kind == 'discrete-offline':
            _de = ix.resolve_method(_m.cls, 'set_variable_to_ast_from_dataset')
            if _de is None:
                raise AnalysisError('set_variable_to_ast_from_dataset of %s vanished' % _m.kind)
            rep.analysed(_de)
            _ne += _te.check_entry_verbatim(ix, rep, _de, _m.kind)
    rep.floor('data-entry stores', _ne, 1)
    rep.floor('specification wrappers handing the data on', _te.check_wrapper_verbatim(ix, rep), 2)
    # a constant declared through the API is the literal it stands for: no lossy rendering between declare_const() and the tables
    from sa.rules import units as _units
    rep.floor('forwarded declarations', _units.check_forwarding_exact(ix, rep), 6)
    # what evaluate() returns is the last entry of ast.specs: every assertion is appended there, in the order of the text (an assertion
    # that takes the slot of an earlier one with the same name makes an older formula the output)
    from sa.props import c09 as _c09
    _c09._visit_assertion(ix, rep)
    # 4. time-stamps never reach a handler; 5. output pairing
    pure.time_taint_offline(ix, rep, mon)
    pure.output_pairing(ix, rep, mon)
    explanation = (
        'Structural induction over the 39 node classes. (a) R-EXH: every node class reaches a computing handler in the concrete '
        'offline interpreter class (no silent visitChildren fall-through). (b) R-OPSUM: each handler written in a summarised '
        'idiom is abstractly interpreted into a normal form (pointwise term / scan with direction, initial state, step / shift with '
        'boundary fill / comparison table) and compared for equality with the reference table transcribed from README Theory '
        '(prev/next weak, s_prev/s_next strong). (c) side conditions that make the induction valid: handlers read only operands, '
        'node parameters and configuration (R-PURE), never mutate an operand list (R-OWN), the time column never reaches a handler '
        '(R-TAINT) and evaluate() zips the time column with the last result (R-PAIR). The index windows of the bounded operators '
        'are NOT decided here (listed as undecided).')
    assumptions = ['Python list/float semantics of the summarised idioms (for/append, comprehension, map/zip, slicing shifts)',
                   'reference table = README Theory with the property\'s overrides',
                   'length preservation and window arithmetic of once[a,b], historically[a,b], since[a,b], eventually[a,b], always[a,b], until[a,b] are not decided']
    return explanation, assumptions, 'one instance per dispatch cell, per summarised operator, per handler purity/ownership obligation', {'exhaustive': True}
