"""C16  Settled offline results are stable under trace extension (discrete time decided; dense time stated as not decided).

Footprint argument.  For every operator of the discrete-time offline monitor the operator summary (pointwise term with
shifted operands, scan with its direction, window of offsets with its fill values) tells which operand positions the
output at position t can depend on, and where the length of the trace enters (only through the fill value used for
positions outside the trace).  R-FOOTPRINT: the largest offset an operator reads is exactly what the property's horizon
counts for it (upper bound of a bounded future operator, 1 for next, 0 otherwise); a past operator reads no positive
offset; the fill value of the right boundary is read only for positions >= n.  By induction over the formula the value
at t then depends on inputs up to t + h only, and for t + h < |w1| no fill is involved, so w1 and every extension agree.
"""
import ast

from sa.index import AnalysisError
from sa import dispatch as D, model as M, opsum as O, window as W
from sa.rules import windowrule, exh
from sa.props import c01, c02
from sa.props.c18 import _Collect

# the horizon of the property: "the largest total of upper bounds, counting next as 1, along a chain of nested future operators"
REACH = {'TimedEventually': 'b', 'TimedAlways': 'b', 'TimedUntil': 'b', 'Next': 1, 'StrongNext': 1}
UNBOUNDED_FUTURE = ('Eventually', 'Always', 'Until')     # excluded by the property


def _leaves(e, out):
    if isinstance(e, tuple) and e:
        if e[0] == 'x':
            out.append(e)
            return
        for a in (e[1:] if isinstance(e[0], str) else e):
            if isinstance(a, tuple):
                _leaves(a, out)


def _max_offset(term, ranges=()):
    """upper bound (Aff over a, b) of every leaf offset of a canonical window term"""
    h = term[0]
    if h == 'leaf':
        off = term[2]
        # eliminate reduction variables, innermost last: a variable with positive coefficient takes its upper bound
        for var, lo, hi in reversed(list(ranges)):
            c = off.coeff(var)
            if c != 0:
                off = off.subst(var, hi if c > 0 else lo)
        return [(off, term[4] is not None, term[3] is not None)]
    if h in ('min', 'max'):
        out = []
        for a in term[1]:
            out += _max_offset(a, ranges)
        return out
    if h == 'red':
        return _max_offset(term[5], tuple(ranges) + ((term[2], term[3], term[4]),))
    return []


def check(ix, rep):
    mon = {m.kind: m for m in M.standard_monitors(ix)}['discrete-offline']
    q = c02._Quiet(rep)
    sums, decided = c01.opsum_offline_discrete(ix, q, mon)
    d = D.dispatch_of(ix, mon.cls)
    nops = 0
    zero = W.Aff.const(0)
    for nc in D.node_classes(ix):
        meth, _ = d.method_for(nc, ix)
        cat, info, f = D.classify(ix, mon.cls, meth) if meth else ('missing', None, None)
        if cat != 'compute' or nc.name in ('Constant', 'Variable') or nc.name in windowrule.BOUNDED:
            continue
        rep.analysed(f)
        rep.unit(f.module.rel)
        slot = 'discrete-offline:%s' % nc.name
        nf = sums.get(nc.name)
        if nf is None or nf[0] == 'unknown':
            rep.error('%s (%s): handler of %s is not in a summarised idiom (%s)' % (f.where, f.qual, nc.name, nf[1] if nf else 'no summary'))
            continue
        nops += 1
        want = REACH.get(nc.name, 0)
        if nf[0] == 'scan':
            direction = nf[1]
            if nc.name in UNBOUNDED_FUTURE:
                if direction == 'bwd':
                    rep.ok('R-FOOTPRINT', f.module.rel, f.qual, slot, 'unbounded future operator (backward scan): outside the property', f.node.lineno)
                else:
                    rep.fail('R-FOOTPRINT', f.module.rel, f.qual, slot, 'unbounded future operator computed by a forward scan', f.node.lineno)
                continue
            ls = []
            _leaves(nf[3], ls)
            if nf[4] != 'out':
                _leaves(nf[4], ls)
            offs = [x[2] for x in ls]
            if direction == 'fwd' and all(o <= 0 for o in offs):
                rep.ok('R-FOOTPRINT', f.module.rel, f.qual, slot, 'forward scan over offsets <= 0: the value at t depends on positions 0..t only', f.node.lineno)
            else:
                rep.fail('R-FOOTPRINT', f.module.rel, f.qual, slot, 'past operator %s is computed by a %s scan reading offsets %s: its value at t depends on samples after t, '
                         'so it changes when the trace is extended' % (nc.name, 'backward' if direction == 'bwd' else 'forward', sorted(set(offs))), f.node.lineno)
            continue
        ls = []
        _leaves(nf[1], ls)
        offs = sorted({x[2] for x in ls})
        mx = max(offs) if offs else 0
        if mx <= want:
            fills = [x for x in ls if x[2] > 0 and x[3] is None]
            if fills:
                rep.fail('R-FOOTPRINT', f.module.rel, f.qual, slot, 'reads position t+%d without a boundary value' % mx, f.node.lineno)
            else:
                rep.ok('R-FOOTPRINT', f.module.rel, f.qual, slot, 'reads offsets %s; the horizon counts %s' % (offs, want), f.node.lineno)
        else:
            rep.fail('R-FOOTPRINT', f.module.rel, f.qual, slot, '%s reads operand positions up to t%+d but the horizon counts %s for it: a settled value would depend on data '
                     'beyond t + h' % (nc.name, mx, want), f.node.lineno)
    rep.floor('untimed operators with a footprint', nops, 27)
    # bounded operators: footprint of the derived window
    col = _Collect(rep)
    nw, wins = windowrule.check_offline(ix, col, mon, which=('R-WINDOW',))
    for e in col.errors:
        rep.error(e)
    nb = 0
    for name, cases in sorted(wins.items()):
        meth, _ = d.method_for(M.node_by_name(ix)[name], ix)
        cat, info, f = D.classify(ix, mon.cls, meth)
        rep.analysed(f)
        slot = 'discrete-offline:%s' % name
        want = W.Aff.sym('b') if REACH.get(name) == 'b' else zero
        bad = None
        for facts, term in cases:
            t2 = W.simplify_under(term, facts)
            for off, has_high, has_low in _max_offset(t2):
                if not W.entails(facts, want - off):
                    bad = 'reads the operand at offset %r from the evaluated sample; the horizon counts %s for %s' % (off, 'b (the upper bound)' if REACH.get(name) else '0', name)
                if REACH.get(name) and not has_high and not W.entails(facts, zero - off - W.Aff.const(1)):
                    # a future read without a right-boundary value would index beyond the trace; R-INDEX reports that in C17
                    pass
        nb += 1
        if bad:
            rep.fail('R-FOOTPRINT', f.module.rel, f.qual, slot, '%s: a settled value would depend on data beyond t + h (or a past operator on the future)' % bad, f.node.lineno)
        else:
            rep.ok('R-FOOTPRINT', f.module.rel, f.qual, slot, 'window offsets bounded by %s in all %d cases' % ('b' if REACH.get(name) else '0', len(cases)), f.node.lineno)
        # and the window itself is the reference one (else the padding could leak into settled positions)
        for (rule, rel, sym, s2, msg, line) in col.fails:
            if s2.endswith(':' + name):
                rep.fail('R-WINDOW', rel, sym, s2, msg, line)
    rep.floor('bounded operators with a footprint', nb, 6)
    # dense time: stated, not decided
    dm = {m.kind: m for m in M.standard_monitors(ix)}['dense-offline']
    rep.undecided('R-FOOTPRINT', dm.visitor.module.rel, dm.visitor.name, 'dense-offline', 'dense time: the last sample is held to infinity by the merge kernel and the segment kernels; '
                  'which output segments are settled is interval arithmetic this check does not decide', None)
    explanation = __doc__.split('\n\n', 1)[1].strip().replace('\n', ' ')
    assumptions = ['hand lemma: composition of footprints along the nesting of a formula (sum of the reaches of nested future operators = the horizon of the property)',
                   'dense time is NOT decided: a change that leaks the held last value into settled dense-time output is invisible to this check',
                   'that each operator computes the right function on its footprint is C01']
    return explanation, assumptions, 'one instance per operator of the discrete-time offline monitor', {'exhaustive': True}
