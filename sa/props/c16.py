"""C16  Settled offline results are stable under trace extension (discrete time on the operator summaries; dense time: reach of the held last sample).

Footprint argument.  For every operator of the discrete-time offline monitor the operator summary (pointwise term with
shifted operands, scan with its direction, window of offsets with its fill values) tells which operand positions the
output at position t can depend on, and where the length of the trace enters (only through the fill value used for
positions outside the trace).  R-FOOTPRINT: the largest offset an operator reads is exactly what the property's horizon
counts for it (upper bound of a bounded future operator, 1 for next, 0 otherwise); a past operator reads no positive
offset; the fill value of the right boundary is read only for positions >= n.  By induction over the formula the value
at t then depends on inputs up to t + h only, and for t + h < |w1| no fill is involved, so w1 and every extension agree.
Dense time: extending a trace only changes what the hold-to-infinity of the last sample stood for.  The merge kernel emits at
max(starts) over overlaps of operands extended by [inf, last value] (R-ORD), untimed past operators are forward scans, and in the
sliding-window kernels the only unbounded influence interval is the last sample's, starting at T[last]+begin (past) or
T[last]-end (future) (R-SEGBUILD, R-SEGSTEP, R-COMPOSE, R-FORWARD) -- so the held value cannot reach a time t with t + h before
the end of the trace.
"""
import ast

from sa.index import AnalysisError
from sa import dispatch as D, model as M, opsum as O, window as W
from sa.rules import windowrule, exh
from sa.props import c01, c02
from sa.props.c18 import _Collect

# the horizon of the property: "the largest total of upper bounds, counting next as 1, along a chain of nested future operators"
REACH = {'TimedEventually': 'b', 'TimedAlways': 'b', 'TimedUntil': 'b', 'Next': 1, 'StrongNext': 1}
UNBOUNDED_FUTURE = ('Eventually', 'Always', 'Until')     # excluded by the property


def _leaves(e, out):
    if isinstance(e, tuple) and e:
        if e[0] == 'x':
            out.append(e)
            return
        for a in (e[1:] if isinstance(e[0], str) else e):
            if isinstance(a, tuple):
                _leaves(a, out)


def _max_offset(term, ranges=()):
    """upper bound (Aff over a, b) of every leaf offset of a canonical window term"""
    h = term[0]
    if h == 'leaf':
        off = term[2]
        # eliminate reduction variables, innermost last: a variable with positive coefficient takes its upper bound
        for var, lo, hi in reversed(list(ranges)):
            c = off.coeff(var)
            if c != 0:
                off = off.subst(var, hi if c > 0 else lo)
        return [(off, term[4] is not None, term[3] is not None)]
    if h in ('min', 'max'):
        out = []
        for a in term[1]:
            out += _max_offset(a, ranges)
        return out
    if h == 'red':
        return _max_offset(term[5], tuple(ranges) + ((term[2], term[3], term[4]),))
    return []


class _Relabel(object):
    """report proxy: files another rule's instances under this property's rule name"""
    def __init__(self, rep, prefix, rule='R-FOOTPRINT'):
        self._r = rep
        self._rule = rule

    def fail(self, rule, rel, sym, slot, msg, line=None, *a, **k):
        self._r.fail(self._rule, rel, sym, slot, '[%s] %s' % (rule, msg), line)

    def ok(self, rule, rel, sym, slot, msg='', line=None, *a, **k):
        self._r.ok(self._rule, rel, sym, slot, msg, line)

    def __getattr__(self, k):
        return getattr(self._r, k)


def mirror_handler(ix, mon, d, name):
    from sa.rules import mirror
    nodes = M.node_by_name(ix)
    return mirror._handler(ix, mon, d, nodes[name])


def check(ix, rep):
    from sa.rules import round11 as _r11
    rep.floor('functions of the monitors scanned for rounded bounds', _r11.check_no_rounding(ix, rep), 50)
    mon = {m.kind: m for m in M.standard_monitors(ix)}['discrete-offline']
    q = c02._Quiet(rep)
    sums, decided = c01.opsum_offline_discrete(ix, q, mon)
    d = D.dispatch_of(ix, mon.cls)
    nops = 0
    zero = W.Aff.const(0)
    for nc in D.node_classes(ix):
        meth, _ = d.method_for(nc, ix)
        cat, info, f = D.classify(ix, mon.cls, meth) if meth else ('missing', None, None)
        if cat != 'compute' or nc.name in ('Constant', 'Variable') or nc.name in windowrule.BOUNDED:
            continue
        rep.analysed(f)
        rep.unit(f.module.rel)
        slot = 'discrete-offline:%s' % nc.name
        nf = sums.get(nc.name)
        if nf is None or nf[0] == 'unknown':
            rep.error('%s (%s): handler of %s is not in a summarised idiom (%s)' % (f.where, f.qual, nc.name, nf[1] if nf else 'no summary'))
            continue
        nops += 1
        want = REACH.get(nc.name, 0)
        if nf[0] == 'scan':
            direction = nf[1]
            if nc.name in UNBOUNDED_FUTURE:
                if direction == 'bwd':
                    rep.ok('R-FOOTPRINT', f.module.rel, f.qual, slot, 'unbounded future operator (backward scan): outside the property', f.node.lineno)
                else:
                    rep.fail('R-FOOTPRINT', f.module.rel, f.qual, slot, 'unbounded future operator computed by a forward scan', f.node.lineno)
                continue
            ls = []
            _leaves(nf[3], ls)
            if nf[4] != 'out':
                _leaves(nf[4], ls)
            offs = [x[2] for x in ls]
            if direction == 'fwd' and all(o <= 0 for o in offs):
                rep.ok('R-FOOTPRINT', f.module.rel, f.qual, slot, 'forward scan over offsets <= 0: the value at t depends on positions 0..t only', f.node.lineno)
            else:
                rep.fail('R-FOOTPRINT', f.module.rel, f.qual, slot, 'past operator %s is computed by a %s scan reading offsets %s: its value at t depends on samples after t, '
                         'so it changes when the trace is extended' % (nc.name, 'backward' if direction == 'bwd' else 'forward', sorted(set(offs))), f.node.lineno)
            continue
        ls = []
        _leaves(nf[1], ls)
        offs = sorted({x[2] for x in ls})
        mx = max(offs) if offs else 0
        if mx <= want:
            fills = [x for x in ls if x[2] > 0 and x[3] is None]
            if fills:
                rep.fail('R-FOOTPRINT', f.module.rel, f.qual, slot, 'reads position t+%d without a boundary value' % mx, f.node.lineno)
            else:
                rep.ok('R-FOOTPRINT', f.module.rel, f.qual, slot, 'reads offsets %s; the horizon counts %s' % (offs, want), f.node.lineno)
        else:
            rep.fail('R-FOOTPRINT', f.module.rel, f.qual, slot, '%s reads operand positions up to t%+d but the horizon counts %s for it: a settled value would depend on data '
                     'beyond t + h' % (nc.name, mx, want), f.node.lineno)
    rep.floor('untimed operators with a footprint', nops, 27)
    # bounded operators: footprint of the derived window
    col = _Collect(rep)
    nw, wins = windowrule.check_offline(ix, col, mon, which=('R-WINDOW',))
    for e in col.errors:
        rep.error(e)
    nb = 0
    for name, cases in sorted(wins.items()):
        meth, _ = d.method_for(M.node_by_name(ix)[name], ix)
        cat, info, f = D.classify(ix, mon.cls, meth)
        rep.analysed(f)
        slot = 'discrete-offline:%s' % name
        want = W.Aff.sym('b') if REACH.get(name) == 'b' else zero
        bad = None
        for facts, term in cases:
            t2 = W.simplify_under(term, facts)
            for off, has_high, has_low in _max_offset(t2):
                if not W.entails(facts, want - off):
                    bad = 'reads the operand at offset %r from the evaluated sample; the horizon counts %s for %s' % (off, 'b (the upper bound)' if REACH.get(name) else '0', name)
                if REACH.get(name) and not has_high and not W.entails(facts, zero - off - W.Aff.const(1)):
                    # a future read without a right-boundary value would index beyond the trace; R-INDEX reports that in C17
                    pass
        nb += 1
        if bad:
            rep.fail('R-FOOTPRINT', f.module.rel, f.qual, slot, '%s: a settled value would depend on data beyond t + h (or a past operator on the future)' % bad, f.node.lineno)
        else:
            rep.ok('R-FOOTPRINT', f.module.rel, f.qual, slot, 'window offsets bounded by %s in all %d cases' % ('b' if REACH.get(name) else '0', len(cases)), f.node.lineno)
        # and the window itself is the reference one (else the padding could leak into settled positions)
        for (rule, rel, sym, s2, msg, line) in col.fails:
            if s2.endswith(':' + name):
                rep.fail('R-WINDOW', rel, sym, s2, msg, line)
    rep.floor('bounded operators with a footprint', nb, 6)
    # ---- dense time: where can the hold-to-infinity of the last sample reach?
    from sa.rules import ordkernel, densesum
    from sa.rules import stackstep as SS
    dm = {m.kind: m for m in M.standard_monitors(ix)}['dense-offline']
    KERNEL = 'rtamt.semantics.stl.dense_time.offline.intersection'
    # (1) binary merge: emits at max(p1, p2) over the overlap only, operands extended by [inf, last value]: the output at t < min(ends) reads the operands at t
    q2 = c02._Quiet(rep)
    nord, narms, used = ordkernel.check_kernel(ix, _Relabel(rep, 'dense-offline:merge'), KERNEL)
    ordkernel.check_finitary(ix, _Relabel(rep, 'dense-offline:merge'), KERNEL)
    # (2) per-operator summaries: pointwise / forward scans for the untimed past operators
    dd = D.dispatch_of(ix, dm.cls)
    nd = 0
    for nc in D.node_classes(ix):
        meth, _ = dd.method_for(nc, ix)
        cat, info, f = D.classify(ix, dm.cls, meth) if meth else ('missing', None, None)
        if cat != 'compute' or nc.name in ('Constant', 'Variable', 'Predicate') or nc.name in windowrule.BOUNDED:
            continue
        nf, _p, _t = densesum.summarize_offline_handler(ix, f)
        slot = 'dense-offline:%s' % nc.name
        rep.analysed(f)
        if nf[0] == 'unknown':
            rep.error('%s (%s): dense handler of %s not summarised (%s)' % (f.where, f.qual, nc.name, nf[1]))
            continue
        nd += 1
        if nf[0] == 'scan':
            if nc.name in UNBOUNDED_FUTURE:
                rep.ok('R-FOOTPRINT', f.module.rel, f.qual, slot, 'unbounded future operator: outside the property', f.node.lineno)
            elif nf[1] == 'fwd':
                rep.ok('R-FOOTPRINT', f.module.rel, f.qual, slot, 'forward scan: the value at t depends on the operands up to t', f.node.lineno)
            else:
                rep.fail('R-FOOTPRINT', f.module.rel, f.qual, slot, 'past operator %s is computed by a backward scan: its value at t depends on samples after t' % nc.name, f.node.lineno)
        else:
            rep.ok('R-FOOTPRINT', f.module.rel, f.qual, slot, 'pointwise through the merge kernel / per-sample loop: the value at t depends on the operands at t', f.node.lineno)
    rep.floor('dense-time untimed operators with a footprint', nd, 20)
    # a scan that starts from what another visit left in the visitor (scratch attribute initialised before the operand is visited) reads the
    # operand's *whole* trace, also the part after t
    from sa.rules import pure as _pure
    _pure.pure_handlers(ix, rep, dm)
    # (3) bounded operators: the only unbounded influence interval is the last sample's, and it starts at T[last]+begin (past) / T[last]-end (future),
    #     i.e. outside [0, end of trace - reach); the merge step keeps every segment inside its own interval
    mm = ix.module('rtamt.semantics.stl.dense_time.offline.ast_visitor')
    nk = 0
    for opn in ('once', 'historically', 'always', 'eventually'):
        kf = mm.functions.get(opn + '_timed_operation')
        if kf is None:
            rep.error('kernel %s_timed_operation vanished' % opn)
            continue
        rep.analysed(kf)
        col = _Collect(rep)
        SS.check_build(ix, col, kf, opn, slot_prefix='dense-offline:')
        SS.check_function(ix, col, kf, opn, slot_prefix='dense-offline:')
        for e in col.errors:
            rep.error(e)
        nk += 1
        slot = 'dense-offline:%s_timed' % opn
        if col.fails:
            for (rule, rel, sym, s2, msg, line) in col.fails[:3]:
                rep.fail('R-FOOTPRINT', rel, sym, '%s:%s' % (slot, s2), 'the influence of the held last sample is not confined: [%s] %s' % (rule, msg), line)
        else:
            rep.ok('R-FOOTPRINT', kf.module.rel, kf.qual, slot, 'the only unbounded influence interval is the last sample\'s and starts at T[last] %s: it cannot reach t with t + reach < end of trace'
                   % ('+ begin' if opn in ('once', 'historically') else '- end'), kf.node.lineno)
    for which in ('since', 'until'):
        kf = mm.functions.get(which + '_timed_operation')
        if kf is not None:
            rep.analysed(kf)
            SS.check_compose(ix, _Relabel(rep, None, rule='R-FOOTPRINT'), kf, which)
    for nn in SS.FORWARD:
        hf = mirror_handler(ix, dm, dd, nn)
        if hf is not None:
            SS.check_forward(ix, _Relabel(rep, None, rule='R-FOOTPRINT'), dm.cls, hf, nn)
    rep.floor('dense-time sliding-window kernels with a confined last-sample influence', nk, 4)
    # 4. the reach is counted in what the formula says: the bounds a handler receives are the written bounds in the written units (a bound
    # without a unit takes the other bound's unit, else the default), counted in the configured sampling period -- the horizon h of the
    # property is computed from the same quantities.  A transformer that resolves a unit differently, or a period that does not reach the
    # offline interpreter, makes a window longer than the h the settled region is defined by.
    from sa.rules import units as _units
    _units.check_transformer(ix, rep, 'rtamt.semantics.discrete_time_interpreter', 'DiscreteTimeInterpreter', 'discrete')
    _units.check_transformer(ix, rep, 'rtamt.semantics.dense_time_interpreter', 'DenseTimeInterpreter', 'dense')
    nr = _units.check_forwarding_reach(ix, rep)
    rep.floor('interpreters a sampling setting has to reach', nr, 2)
    # a conversion that remembers its answers: the key determines the bounds, and a change of the period forgets them (R-CACHE; no memo today)
    from sa.rules import memo
    if not memo.self_test():
        raise AnalysisError('R-CACHE self-test: the memo idiom is not recognised')
    memo.check_converters(ix, rep)
    # a settled value is a function of the data: no handler may write into the lists it was handed: neither may write into what it was handed (an operand overwritten in place is read changed by
    # the next operator of the same formula)
    from sa.rules import ownrule as _own
    _nown = _own.run(ix, rep)
    rep.floor('functions in the ownership analysis', _nown, 250)
    # position t of the result is computed from positions of the operands: the data set reaches the handlers as supplied, not rebuilt along the time
    # column (merging samples with equal time-stamps lets a later sample replace the value at an earlier position)
    from sa.rules import pure as _pure16
    _pure16.time_taint_offline(ix, rep, {m.kind: m for m in M.standard_monitors(ix)}['discrete-offline'])
    explanation = __doc__.split('\n\n', 1)[1].strip().replace('\n', ' ')
    assumptions = ['hand lemma: composition of footprints along the nesting of a formula (sum of the reaches of nested future operators = the horizon of the property)',
                   'dense time: decided as "the hold-to-infinity of the last sample cannot reach the settled region" (merge kernel contract, forward scans, influence intervals of the sliding-window kernels); the stack invariant of the kernels is a hand lemma (C04)',
                   'that each operator computes the right function on its footprint is C01']
    return explanation, assumptions, 'one instance per operator of the discrete-time offline monitor', {'exhaustive': True}
