"""E7 -- reader for the ANTLR subset the three .g4 files use, and facts from the generated parsers.

Parser rules: alternatives separated by '|', elements: rule refs, token refs, quoted literals, ( ... )? / * / +,
inline alternatives ( A | B ), optional suffix on a ref (ioType?), labels #Name.
Lexer rules: quoted literal alternatives (possibly parenthesised), fragments, char sets.
"""
import os
import re

from sa.index import AnalysisError

TOK = re.compile(r"""\s*(?:
    (?P<comment>//[^\n]*|/\*.*?\*/)|
    (?P<lit>'(?:\\.|[^'\\])*')|
    (?P<set>~?\[(?:\\.|[^\]\\])*\])|
    (?P<arrow>->)|
    (?P<opt><[^>\n]*>)|
    (?P<id>[A-Za-z_][A-Za-z_0-9]*)|
    (?P<sym>[:;|()?*+#=~.{}@,])
)""", re.X | re.S)


def tokenize(src):
    pos = 0
    out = []
    while pos < len(src):
        m = TOK.match(src, pos)
        if not m:
            if src[pos:].strip() == '':
                break
            raise AnalysisError('grammar: cannot tokenize at %r' % src[pos:pos + 30])
        pos = m.end()
        if m.group('comment'):
            continue
        for k in ('lit', 'set', 'arrow', 'opt', 'id', 'sym'):
            if m.group(k):
                out.append((k, m.group(k)))
                break
    return out


class Elem(object):
    def __init__(self, kind, value, optional=False, repeated=False):
        self.kind = kind  # 'rule' | 'token' | 'lit' | 'group' | 'set' | 'any'
        self.value = value  # name / literal text / list of alternatives (each a list of Elem)
        self.optional = optional
        self.repeated = repeated

    def __repr__(self):
        s = self.value if self.kind != 'group' else '(' + ' | '.join(' '.join(map(repr, a)) for a in self.value) + ')'
        return '%s%s' % (s, '?' if self.optional and not self.repeated else ('*' if self.optional else ('+' if self.repeated else '')))


class Alt(object):
    def __init__(self, elems, label, options=None):
        self.elems = elems
        self.label = label
        self.options = options or []

    @property
    def right_assoc(self):
        return any(o.replace(' ', '') == '<assoc=right>' for o in self.options)

    def flat(self, optional=False):
        """[(Elem, optional?)] with groups flattened (elements of an optional group are optional)"""
        out = []
        for e in self.elems:
            _flat(e, optional, out, False)
        return out


def _flat(e, optional, out, in_choice):
    opt = optional or e.optional or in_choice
    if e.kind == 'group':
        choice = len(e.value) > 1
        for a in e.value:
            for x in a:
                _flat(x, opt, out, choice)
    else:
        out.append((e, opt))


class Grammar(object):
    def __init__(self, path):
        self.path = path
        with open(path) as fh:
            self.src = fh.read()
        self.kind = None
        self.name = None
        self.imports = []
        self.rules = {}  # name -> [Alt]
        self.order = []
        self.fragments = set()
        self.skipped = set()
        self._parse()

    def _parse(self):
        toks = tokenize(self.src)
        i = 0

        def peek(k=0):
            return toks[i + k] if i + k < len(toks) else (None, None)
        # header
        if peek()[1] in ('parser', 'lexer'):
            self.kind = peek()[1]
            i += 1
        if peek()[1] != 'grammar':
            raise AnalysisError('%s: not a grammar file' % self.path)
        self.name = peek(1)[1]
        i += 2
        while peek()[1] != ';':
            i += 1
        i += 1
        while i < len(toks):
            k, v = peek()
            if v == 'import':
                i += 1
                while peek()[1] != ';':
                    if peek()[0] == 'id':
                        self.imports.append(peek()[1])
                    i += 1
                i += 1
                continue
            if v == 'options':
                while peek()[1] != '}':
                    i += 1
                i += 1
                continue
            frag = False
            if v == 'fragment':
                frag = True
                i += 1
                k, v = peek()
            if k != 'id':
                raise AnalysisError('%s: unexpected %r' % (self.path, v))
            name = v
            i += 1
            if peek()[1] != ':':
                raise AnalysisError('%s: rule %s lacks ":"' % (self.path, name))
            i += 1
            alts, i = self._alts(toks, i, (';',))
            i += 1  # ;
            self.rules[name] = alts
            self.order.append(name)
            if frag:
                self.fragments.add(name)

    def _alts(self, toks, i, stop):
        alts = []
        cur = []
        label = None
        opts = []
        while True:
            k, v = toks[i] if i < len(toks) else (None, None)
            if v is None:
                raise AnalysisError('%s: unterminated rule' % self.path)
            if v in stop or v == '|':
                alts.append(Alt(cur, label, opts))
                cur, label, opts = [], None, []
                if v in stop:
                    return alts, i
                i += 1
                continue
            if v == '#':
                label = toks[i + 1][1]
                i += 2
                continue
            if k == 'opt':
                opts.append(v)
                i += 1
                continue
            if k == 'arrow':
                # -> skip
                self.skipped.add('?')
                cmd = toks[i + 1][1]
                cur.append(Elem('cmd', cmd))
                i += 2
                continue
            if v == '(':
                sub, i = self._alts(toks, i + 1, (')',))
                i += 1
                e = Elem('group', [a.elems for a in sub])
            elif k == 'lit':
                e = Elem('lit', _unquote(v))
                i += 1
            elif k == 'set':
                e = Elem('set', v)
                i += 1
            elif v == '.':
                e = Elem('any', '.')
                i += 1
            elif v == '~':
                i += 1
                continue
            elif k == 'id':
                e = Elem('token' if v[0].isupper() else 'rule', v)
                i += 1
            else:
                raise AnalysisError('%s: unexpected %r in rule' % (self.path, v))
            # suffix
            while i < len(toks) and toks[i][1] in ('?', '*', '+'):
                s = toks[i][1]
                if s == '?':
                    e.optional = True
                elif s == '*':
                    e.optional = True
                    e.repeated = True
                else:
                    e.repeated = True
                i += 1
            cur.append(e)

    # --------------------------------------------------------------------------------------------
    def token_literals(self, name, _seen=None):
        """finite set of strings a lexer rule accepts if it is a pure literal alternation, else None"""
        _seen = _seen or set()
        if name in _seen or name not in self.rules:
            return None
        _seen.add(name)
        out = set()
        for alt in self.rules[name]:
            strings = ['']
            for e in alt.elems:
                if e.kind == 'cmd':
                    continue
                if e.optional or e.repeated:
                    return None
                if e.kind == 'lit':
                    strings = [s + e.value for s in strings]
                elif e.kind == 'token':
                    sub = self.token_literals(e.value, _seen)
                    if sub is None:
                        return None
                    strings = [s + t for s in strings for t in sub]
                elif e.kind == 'group':
                    subs = set()
                    for a in e.value:
                        ss = ['']
                        for x in a:
                            if x.kind == 'lit' and not (x.optional or x.repeated):
                                ss = [s + x.value for s in ss]
                            elif x.kind == 'token' and not (x.optional or x.repeated):
                                sub = self.token_literals(x.value, _seen)
                                if sub is None:
                                    return None
                                ss = [s + t for s in ss for t in sub]
                            else:
                                return None
                        subs |= set(ss)
                    strings = [s + t for s in strings for t in subs]
                else:
                    return None
            out |= set(strings)
        return out


def _unquote(v):
    s = v[1:-1]
    return s.replace("\\'", "'").replace('\\\\', '\\')


def load(repo):
    d = os.path.join(repo, 'rtamt', 'antlr', 'grammar', 'tl')
    out = {}
    for n in ('LtlLexer', 'LtlParser', 'StlParser'):
        p = os.path.join(d, n + '.g4')
        if not os.path.exists(p):
            raise AnalysisError('grammar %s vanished' % p)
        out[n] = Grammar(p)
    return out


def effective_rules(grammars, name):
    """rules of a parser grammar with imported rules (own rules override imported ones, as in ANTLR)"""
    g = grammars[name]
    rules = {}
    for imp in g.imports:
        rules.update(effective_rules(grammars, imp))
    rules.update(g.rules)
    return rules
